"""Shared machinery for the /verif checks of panda3d/interrogate.

Everything here derives its paths from __file__ so that a snapshot of /verif
(vp run) works as well as /verif itself.  Scratch output (repo builds, harness
binaries) lives under $IGVERIF_SCRATCH (default /var/tmp/igverif) and is
rebuilt from /repo's working tree whenever it is missing or stale.
"""
import fcntl
import hashlib
import json
import os
import random
import re
import shutil
import subprocess
import sys
import time
from pathlib import Path

VERIF = Path(__file__).resolve().parent.parent
REPO = Path(os.environ.get("IGVERIF_REPO", "/repo"))
SCRATCH = Path(os.environ.get("IGVERIF_SCRATCH", "/var/tmp/igverif"))
LEAN = VERIF / "lean"
ALLOWED_AXIOMS = {"propext", "Classical.choice", "Quot.sound"}
NCPU = os.cpu_count() or 4


def log(*a):
    print(*a, file=sys.stderr, flush=True)


def sh(cmd, cwd=None, timeout=None, env=None, input=None, check=False):
    """Run a command, return (rc, stdout, stderr) as text (bytes-safe)."""
    e = dict(os.environ)
    if env:
        e.update(env)
    p = subprocess.run(cmd, cwd=cwd, timeout=timeout, env=e, input=input,
                       stdout=subprocess.PIPE, stderr=subprocess.PIPE,
                       shell=isinstance(cmd, str))
    out = p.stdout.decode("utf-8", "replace")
    err = p.stderr.decode("utf-8", "replace")
    if check and p.returncode != 0:
        raise RuntimeError("command failed (%s): %s\n%s\n%s" % (p.returncode, cmd, out[-3000:], err[-3000:]))
    return p.returncode, out, err


class Lock:
    def __init__(self, name):
        SCRATCH.mkdir(parents=True, exist_ok=True)
        self.path = SCRATCH / (name + ".lock")

    def __enter__(self):
        self.f = open(self.path, "w")
        fcntl.flock(self.f, fcntl.LOCK_EX)
        return self

    def __exit__(self, *a):
        fcntl.flock(self.f, fcntl.LOCK_UN)
        self.f.close()


# ---------------------------------------------------------------------------
# Building /repo's current working tree
# ---------------------------------------------------------------------------

def repo_tree_hash():
    h = hashlib.sha256()
    roots = [REPO / "src", REPO / "cmake", REPO / "parser-inc", REPO / "tests"]
    files = [REPO / "CMakeLists.txt"]
    for r in roots:
        for p in sorted(r.rglob("*")):
            if p.is_file():
                files.append(p)
    for p in files:
        h.update(str(p.relative_to(REPO)).encode())
        h.update(p.read_bytes())
    return h.hexdigest()[:16]


_BUILD_CACHE = {}


def build_repo(kind="std"):
    """Bring the scratch build of /repo's working tree up to date (incremental
    ninja build under a lock) and return the build directory.

    kind: 'std'  RelWithDebInfo, guard -DINTERROGATE_VERIF on
          'asan' same + -fsanitize=address,undefined
    """
    if kind in _BUILD_CACHE:
        return _BUILD_CACHE[kind]
    bdir = SCRATCH / ("build-" + kind)
    with Lock("build-" + kind):
        t0 = time.time()
        flags = "-DINTERROGATE_VERIF"
        if kind == "asan":
            flags += " -fsanitize=address,undefined -fno-sanitize-recover=undefined -fno-omit-frame-pointer"
        if not (bdir / "build.ninja").exists():
            bdir.mkdir(parents=True, exist_ok=True)
            cmd = ["cmake", "-G", "Ninja", "-S", str(REPO), "-B", str(bdir),
                   "-DCMAKE_BUILD_TYPE=RelWithDebInfo",
                   "-DCMAKE_CXX_FLAGS=" + flags]
            if kind == "asan":
                cmd += ["-DCMAKE_EXE_LINKER_FLAGS=-fsanitize=address,undefined",
                        "-DCMAKE_SHARED_LINKER_FLAGS=-fsanitize=address,undefined"]
            rc, out, err = sh(cmd)
            if rc != 0:
                shutil.rmtree(bdir, ignore_errors=True)
                raise RuntimeError("cmake configure failed:\n" + out[-2000:] + err[-2000:])
        # (the build may run the freshly built interrogate on the project's own headers: leaks at exit are not build failures)
        rc, out, err = sh(["cmake", "--build", str(bdir), "-j", str(NCPU)], env={"ASAN_OPTIONS": "detect_leaks=0"} if kind == "asan" else None)
        if rc != 0:
            raise RuntimeError("build of /repo working tree failed:\n" + out[-4000:] + err[-2000:])
        log("[build %s] up to date in %.1fs" % (kind, time.time() - t0))
    _BUILD_CACHE[kind] = bdir
    return bdir


INCLUDES = ["src/interrogatedb", "src/dtoolbase", "src/dtoolutil", "src/cppparser", "src/interrogate"]


def build_harness(name, kind="std", extra_flags=(), libs=("interrogatedb",), static_libs=()):
    """Compile /verif/harness/<name>.cxx against the scratch build; returns exe path.
    Rebuilt when the source, the libraries or the flags changed."""
    bdir = build_repo(kind)
    src = VERIF / "harness" / (name + ".cxx")
    outdir = SCRATCH / ("harness-" + kind)
    outdir.mkdir(parents=True, exist_ok=True)
    exe = outdir / name
    stamp = outdir / (name + ".stamp")
    h = hashlib.sha256()
    h.update(src.read_bytes())
    for hdr in sorted((VERIF / "harness").glob("*.h")):
        h.update(hdr.read_bytes())
    for lib in list((bdir / "lib").glob("*")):
        st = lib.stat()
        h.update(("%s %d %d" % (lib.name, st.st_size, st.st_mtime_ns)).encode())
    h.update(repr((extra_flags, libs, static_libs)).encode())
    # headers of the repo that the harness includes
    for inc in INCLUDES:
        for p in sorted((REPO / inc).glob("*.[hI]")):
            st = p.stat()
            h.update(("%s %d %d" % (p, st.st_size, st.st_mtime_ns)).encode())
    key = h.hexdigest()
    with Lock("harness-" + kind + "-" + name):
        if exe.exists() and stamp.exists() and stamp.read_text() == key:
            return exe
        cmd = ["g++", "-std=gnu++17", "-O1", "-g", "-DINTERROGATE_VERIF", "-o", str(exe), str(src)]
        if kind == "asan":
            cmd += ["-fsanitize=address,undefined", "-fno-sanitize-recover=undefined"]
        for inc in INCLUDES:
            cmd += ["-I", str(REPO / inc)]
        cmd += ["-I", str(bdir / "include"), "-I", str(VERIF / "harness")]
        for d in bdir.glob("cmake/src/*"):
            cmd += ["-I", str(d)]
        cmd += list(extra_flags)
        for sl in static_libs:
            cmd += [str(bdir / "lib" / ("lib%s.a" % sl))]
        cmd += ["-L", str(bdir / "lib"), "-Wl,-rpath," + str(bdir / "lib")]
        for l in libs:
            cmd += ["-l" + l]
        rc, out, err = sh(cmd)
        if rc != 0:
            raise RuntimeError("harness %s failed to compile:\n%s" % (name, err[-4000:]))
        stamp.write_text(key)
    return exe


# ---------------------------------------------------------------------------
# Lean
# ---------------------------------------------------------------------------

def write_if_changed(path, text):
    path = Path(path)
    if path.exists() and path.read_text() == text:
        return False
    path.parent.mkdir(parents=True, exist_ok=True)
    path.write_text(text)
    return True


def lake_build(targets):
    """lake build <targets>; returns (ok, combined_output)."""
    with Lock("lake"):
        rc, out, err = sh(["lake", "build"] + list(targets), cwd=LEAN, timeout=3000)
    return rc == 0, out + err


_DRIVER = None


def driver_exe():
    global _DRIVER
    if _DRIVER is None:
        ok, out = lake_build(["igdriver"])
        if not ok:
            raise RuntimeError("igdriver failed to build:\n" + out[-4000:])
        _DRIVER = LEAN / ".lake" / "build" / "bin" / "igdriver"
    return _DRIVER


def run_driver(model, lines, timeout=600):
    """Feed op lines to `igdriver <model>`; returns list of answer lines."""
    exe = driver_exe()
    data = ("\n".join(lines) + "\n").encode()
    p = subprocess.run([str(exe), model], input=data, stdout=subprocess.PIPE,
                       stderr=subprocess.PIPE, timeout=timeout)
    if p.returncode != 0:
        raise RuntimeError("igdriver %s failed: %s" % (model, p.stderr.decode()[-2000:]))
    out = p.stdout.decode("utf-8", "replace").split("\n")
    if out and out[-1] == "":
        out.pop()
    return out


FORBIDDEN = re.compile(r"\b(sorry|admit|native_decide|bv_decide|implemented_by|unsafe)\b|^\s*axiom\s|maxHeartbeats\s+0\b", re.M)


def strip_lean_comments(text):
    # remove nested block comments and line comments (strings are rare in proofs;
    # a forbidden word inside a string literal is still reported - conservative)
    out = []
    i = 0
    depth = 0
    n = len(text)
    while i < n:
        if text.startswith("/-", i):
            depth += 1
            i += 2
        elif depth and text.startswith("-/", i):
            depth -= 1
            i += 2
        elif depth:
            i += 1
        elif text.startswith("--", i):
            j = text.find("\n", i)
            i = n if j < 0 else j
        else:
            out.append(text[i])
            i += 1
    return "".join(out)


def lean_grep_forbidden():
    hits = []
    for p in sorted(LEAN.rglob("*.lean")):
        if ".lake" in p.parts:
            continue
        t = strip_lean_comments(p.read_text())
        for m in FORBIDDEN.finditer(t):
            hits.append("%s: %s" % (p.relative_to(LEAN), m.group(0).strip()))
    return hits


def audit_axioms(module, theorems):
    """Returns dict theorem -> sorted axiom list (or None if unknown constant)."""
    src = "import %s\n" % module + "".join("#print axioms %s\n" % t for t in theorems)
    tmp = LEAN / (".audit_%d.lean" % os.getpid())
    tmp.write_text(src)
    try:
        rc, out, err = sh(["lake", "env", "lean", tmp.name], cwd=LEAN, timeout=1200)
    finally:
        tmp.unlink()
    res = {t: None for t in theorems}
    text = out + err
    # "'name' depends on axioms: [a, b]" or "'name' does not depend on any axioms"
    for m in re.finditer(r"'([^']+)' depends on axioms: \[([^\]]*)\]", text, re.S):
        res[m.group(1)] = sorted(a.strip() for a in m.group(2).replace("\n", " ").split(",") if a.strip())
    for m in re.finditer(r"'([^']+)' does not depend on any axioms", text):
        res[m.group(1)] = []
    return res, text


def leanchecker(module):
    rc, out, err = sh(["lake", "env", "leanchecker", module], cwd=LEAN, timeout=3000)
    return rc == 0, (out + err)[-2000:]


# ---------------------------------------------------------------------------
# Known findings
# ---------------------------------------------------------------------------

def load_known():
    p = VERIF / "known_findings.json"
    if not p.exists():
        return []
    return json.loads(p.read_text())["findings"]


# ---------------------------------------------------------------------------
# The Check object: collects results, writes evidence, decides exit status
# ---------------------------------------------------------------------------

class Check:
    def __init__(self, pid, tier, seed):
        self.pid = pid
        self.tier = tier
        self.seed = seed
        self.t0 = time.time()
        self.rng = random.Random((hash(pid) & 0xffff) * 1000003 + seed) if False else random.Random("%s-%d" % (pid, seed))
        self.obligations = []      # (name, ok, detail)
        self.theorems = {}         # name -> axioms
        self.partial = []          # {theorem, missing}
        self.corr = {"evaluations": 0, "distinct": set(), "samples": [], "dist": {}, "streams": {}}
        self.search = {"evaluations": 0, "streams": {}}
        self.broken = []           # descriptions of broken proof obligations / correspondence
        self.violations = []       # dict(key, what, replay)
        self.known_hit = []
        self.assumptions = []
        self.trusted = [
            "Lean 4.33.0 kernel (theorems re-checked by `lake build`; thorough tier re-checks .olean files with leanchecker)",
            "axioms allowed in property theorems: propext, Classical.choice, Quot.sound (audited with #print axioms on every run)",
        ]
        self.rule = ""
        self.extra = {}
        self.replay_dir = VERIF / "replays"
        self.quick = tier == "quick"

    # -- obligations ------------------------------------------------------
    def oblige(self, name, ok, detail=""):
        self.obligations.append((name, bool(ok), detail))
        if not ok:
            self.broken.append("obligation %s: %s" % (name, detail))
            log("[%s] OBLIGATION FAILED %s: %s" % (self.pid, name, detail[:2000]))

    def lean_obligations(self, module, theorems, partial=()):
        """Build the property module and audit the axioms of each theorem."""
        hits = lean_grep_forbidden()
        self.oblige("no sorry/admit/axiom/native_decide/bv_decide/implemented_by/unsafe/maxHeartbeats 0 in lean/", not hits, "; ".join(hits))
        ok, out = lake_build([module])
        if not ok:
            errs = [l for l in out.split("\n") if "error" in l][:20]
            self.oblige("lake build " + module, False, "\n".join(errs) or out[-1500:])
            for t in theorems:
                self.obligations.append((t, False, "module did not build"))
            self.lean_log = out
            return False
        self.oblige("lake build " + module, True)
        ax, text = audit_axioms(module, theorems)
        allok = True
        for t in theorems:
            a = ax.get(t)
            good = a is not None and set(a) <= ALLOWED_AXIOMS
            self.oblige(t, good, "axioms=%s" % a if a is not None else "theorem not found: " + text[-500:])
            self.theorems[t] = a
            allok = allok and good
        for th, missing in partial:
            self.partial.append({"theorem": th, "not_covered": missing})
        if not self.quick:
            ok2, out2 = leanchecker(module)
            self.oblige("leanchecker " + module, ok2, out2[-800:])
            allok = allok and ok2
        return allok

    # -- correspondence -----------------------------------------------------
    def corr_case(self, stream, case, agree, detail="", nontrivial=True, feature=None):
        c = self.corr
        c["evaluations"] += 1
        s = c["streams"].setdefault(stream, {"cases": 0, "disagreements": 0})
        s["cases"] += 1
        if nontrivial:
            c["distinct"].add(hashlib.sha1(repr((stream, case)).encode()).hexdigest())
        if feature is not None:
            for f in (feature if isinstance(feature, (list, tuple, set)) else [feature]):
                c["dist"][f] = c["dist"].get(f, 0) + 1
        if len(c["samples"]) < 6 and (s["cases"] <= 2):
            c["samples"].append({"stream": stream, "case": case if len(repr(case)) < 600 else repr(case)[:600] + "..."})
        if not agree:
            s["disagreements"] += 1
            if s["disagreements"] <= 5:
                self.broken.append("correspondence %s: model and implementation differ on %s: %s" % (stream, repr(case)[:400], detail[:600]))
                log("[%s] CORRESPONDENCE DIFF in %s on %r: %s" % (self.pid, stream, case if len(repr(case)) < 400 else repr(case)[:400], detail[:800]))
        return agree

    def search_case(self, stream, n=1):
        self.search["evaluations"] += n
        s = self.search["streams"].setdefault(stream, 0)
        self.search["streams"][stream] = s + n

    # -- violations -----------------------------------------------------------
    def violation(self, key, what, replay_files=None, replay_text=None):
        """A concrete failing input against the real code.  key identifies it for
        known_findings.json."""
        for k in load_known():
            if k.get("status") == "known" and k["property"] == self.pid and k["fingerprint"] == key:
                if key not in [x[0] for x in self.known_hit]:
                    self.known_hit.append((key, k["what"]))
                return
        if any(v["key"] == key for v in self.violations):
            return
        path = self._write_replay(key, what, replay_files, replay_text)
        self.violations.append({"key": key, "what": what, "replay": str(path)})

    def _write_replay(self, key, what, files, text):
        safe = re.sub(r"[^A-Za-z0-9_.-]+", "_", key)[:80]
        d = self.replay_dir / ("%s-%s" % (self.pid, safe))
        if d.exists():
            shutil.rmtree(d)
        d.mkdir(parents=True)
        (d / "README.txt").write_text("property %s\nkey %s\n%s\n\n%s\n" % (self.pid, key, what, text or ""))
        for name, content in (files or {}).items():
            mode = "wb" if isinstance(content, bytes) else "w"
            with open(d / name, mode) as f:
                f.write(content)
        return d

    # -- finish ---------------------------------------------------------------
    def finish(self):
        wall = time.time() - self.t0
        for key, what in self.known_hit:
            print("KNOWN-FINDING: property=%s %s" % (self.pid, what))
        status = 0
        if self.violations:
            status = 1
            for v in self.violations:
                print("VIOLATION property=%s replay=%s" % (self.pid, v["replay"]))
        elif self.broken:
            status = 1
            d = self._write_replay("unproved", "no failing input found; these proof obligations / correspondence streams no longer check",
                                   None, "\n".join(self.broken) + "\n\n" + getattr(self, "lean_log", "")[-6000:])
            print("VIOLATION property=%s replay=%s no-failing-input-found" % (self.pid, d))
        n_ob = len(self.obligations)
        n_ok = sum(1 for o in self.obligations if o[1])
        cov = {
            "obligations": n_ob,
            "discharged": n_ok,
            "checker_cmd": "cd %s && lake build IgVerif.Props.%s && lake env lean <#print axioms file>  (driven by tools/verif.py check %s --tier %s)" % (LEAN, self.pid, self.pid, self.tier),
            "trusted_base": self.trusted,
            "obligation_list": [{"name": o[0], "ok": o[1], **({"detail": o[2][:300]} if o[2] else {})} for o in self.obligations],
            "theorem_axioms": self.theorems,
            "partial_theorems": self.partial,
            "evaluations": self.corr["evaluations"] + self.search["evaluations"],
            "distinct_nontrivial": len(self.corr["distinct"]),
            "rule": self.rule,
            "samples": self.corr["samples"] or [{"note": "no correspondence cases in this run"}],
            "correspondence": {"cases": self.corr["evaluations"], "streams": self.corr["streams"],
                               "input_distribution": dict(sorted(self.corr["dist"].items()))},
            "search_vs_spec": self.search,
            "known_findings_hit": [k for k, _ in self.known_hit],
            "broken": self.broken[:20],
        }
        cov.update(self.extra)
        ev = {
            "property_id": self.pid, "tier": self.tier, "seed": self.seed, "level": "proof",
            "coverage": cov, "assumptions": self.assumptions, "wall_s": round(wall, 2),
            "violations": len(self.violations) + (1 if (self.broken and not self.violations) else 0),
        }
        (VERIF / "evidence").mkdir(exist_ok=True)
        (VERIF / "evidence" / (self.pid + ".json")).write_text(json.dumps(ev, indent=1, default=str) + "\n")
        log("[%s] %s tier=%s obligations %d/%d corr=%d search=%d violations=%d broken=%d wall=%.1fs" % (
            self.pid, "OK" if status == 0 else "FAIL", self.tier, n_ok, n_ob, self.corr["evaluations"],
            self.search["evaluations"], len(self.violations), len(self.broken), wall))
        return status


# ---------------------------------------------------------------------------
# helpers for extractors
# ---------------------------------------------------------------------------

PINNED = False


def read_src(rel):
    """Source text of /repo's working tree; with PINNED set, of /repo's HEAD commit
    (used only as a fall-back layout when a translator cannot parse the working tree)."""
    if PINNED:
        rc, out, err = sh(["git", "-C", str(REPO), "show", "HEAD:" + rel])
        if rc != 0:
            raise RuntimeError("git show HEAD:%s failed: %s" % (rel, err))
        return out
    return (REPO / rel).read_text(errors="replace")


def strip_c_comments(text):
    def repl(m):
        s = m.group(0)
        if s.startswith("/"):
            return " " + "\n" * s.count("\n")
        return s
    pat = re.compile(r'//[^\n]*|/\*.*?\*/|"(?:\\.|[^"\\\n])*"|\'(?:\\.|[^\'\\\n])*\'', re.S)
    return pat.sub(repl, text)


def function_body(text, header_regex):
    """Return the text of the brace block following the first match of header_regex."""
    m = re.search(header_regex, text, re.S)
    if not m:
        return None
    i = text.find("{", m.end() - 1)
    if i < 0:
        return None
    depth = 0
    j = i
    while j < len(text):
        c = text[j]
        if c == "{":
            depth += 1
        elif c == "}":
            depth -= 1
            if depth == 0:
                return text[i:j + 1]
        j += 1
    return None


def lean_str(s):
    out = ['"']
    for ch in s:
        o = ord(ch)
        if ch == '"':
            out.append('\\"')
        elif ch == "\\":
            out.append("\\\\")
        elif ch == "\n":
            out.append("\\n")
        elif ch == "\t":
            out.append("\\t")
        elif o < 32 or o == 127:
            out.append("\\x%02x" % o)
        else:
            out.append(ch)
    out.append('"')
    return "".join(out)


# ---------------------------------------------------------------------------
# Running an op list through the implementation harness and the model driver
# ---------------------------------------------------------------------------

def run_harness(exe, lines, timeout=120, env=None, args=()):
    """Returns (answer_lines, status) where status is 'ok', 'signal:<n>', 'exit:<n>' or 'timeout'."""
    data = ("\n".join(lines) + "\n").encode()
    e = dict(os.environ)
    if env:
        e.update(env)
    p = subprocess.Popen([str(exe)] + list(args), stdin=subprocess.PIPE, stdout=subprocess.PIPE,
                         stderr=subprocess.PIPE, env=e)
    try:
        out, err = p.communicate(data, timeout=timeout)
        status = "ok" if p.returncode == 0 else ("signal:%d" % -p.returncode if p.returncode < 0 else "exit:%d" % p.returncode)
    except subprocess.TimeoutExpired:
        p.kill()
        out, err = p.communicate()
        status = "timeout"
    ans = out.decode("utf-8", "replace").split("\n")
    if ans and ans[-1] == "":
        ans.pop()
    return ans, status, err.decode("utf-8", "replace")[-3000:]


def diff_streams(ops, impl, model, ignore_prefixes=("conf ",)):
    """Compare answer streams op by op.  Returns list of (i, op, impl, model)."""
    diffs = []
    for i, op in enumerate(ops):
        a = impl[i] if i < len(impl) else "<no answer: implementation stopped>"
        b = model[i] if i < len(model) else "<no answer: model stopped>"
        if any(op.startswith(p) for p in ignore_prefixes):
            continue
        if a == "bad-op" and b != "bad-op" and i < len(impl):
            continue  # accessor not wired in the harness table (counted by caller)
        if op.startswith("q str ") or (op.startswith("q at ") and op.split()[4].endswith("names")) or (op.startswith("q sub ") and op.split()[-1].endswith(("name", "comment"))):
            # the query interface hands strings out as `const char *`: what lies behind a zero byte cannot be observed through it
            a, b = _cstr_hex(a), _cstr_hex(b)
        if op.startswith("lookup ") and _cstr_hex(op.split()[-1]) != op.split()[-1]:
            continue  # a key with a zero byte cannot be passed through the `const char *` interface
        if a != b:
            diffs.append((i, op, a, b))
    return diffs


def _cstr_hex(x):
    if x == "-" or len(x) % 2 or any(c not in "0123456789abcdef" for c in x):
        return x
    for k in range(0, len(x), 2):
        if x[k:k + 2] == "00":
            return x[:k] or "-"
    return x


def build_preload(name):
    """Compile /verif/harness/preload/<name>.c into a shared object under the scratch dir."""
    src = VERIF / "harness" / "preload" / (name + ".c")
    outdir = SCRATCH / "harness-std"
    outdir.mkdir(parents=True, exist_ok=True)
    so = outdir / (name + ".so")
    stamp = outdir / (name + ".so.stamp")
    key = hashlib.sha256(src.read_bytes()).hexdigest()
    with Lock("preload-" + name):
        if so.exists() and stamp.exists() and stamp.read_text() == key:
            return so
        rc, out, err = sh(["gcc", "-shared", "-fPIC", "-O1", "-o", str(so), str(src), "-ldl"])
        if rc != 0:
            raise RuntimeError("preload %s failed to compile: %s" % (name, err[-2000:]))
        stamp.write_text(key)
    return so
