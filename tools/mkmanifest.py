#!/usr/bin/env python3
"""Regenerates /verif/MANIFEST.json from the table below (kept valid at all times)."""
import json
import os
import sys

HERE = os.path.dirname(os.path.abspath(__file__))
VERIF = os.path.dirname(HERE)

TRUSTED = ("Lean 4.33.0 kernel; axioms propext/Classical.choice/Quot.sound only (audited per run); "
           "the translators in tools/extract and the correspondence harnesses in harness/ (see DESIGN.md §3)")

# pid -> dict(text, note, technique, design)
CLAIMED = {}


def claim(pid, text, note, technique, design):
    CLAIMED[pid] = dict(text=text, note=note, technique=technique, design=design)


sys.path.insert(0, HERE)
from manifest_claims import register  # noqa: E402
register(claim)

ALL = ["C%02d" % i for i in range(1, 21)]
NOT_YET = {}
try:
    from manifest_claims import NOT_APPLICABLE
    NOT_YET.update(NOT_APPLICABLE)
except ImportError:
    pass

checks = []
for pid in ALL:
    if pid not in CLAIMED:
        continue
    c = CLAIMED[pid]
    checks.append({
        "property_id": pid,
        "quick_cmd": "python3 tools/verif.py check %s --tier quick" % pid,
        "thorough_cmd": "python3 tools/verif.py check %s --tier thorough" % pid,
        "evidence_file": "/verif/evidence/%s.json" % pid,
        "replay_cmd_template": "cat {path}/README.txt",
        "engine": "lean4-igverif",
        "level_claimed": {"category": "proof", "text": c["text"], "design_ref": c["design"]},
        "level_note": c["note"] + " Trusted base: " + TRUSTED,
        "technique": c["technique"],
    })

na = [{"property_id": pid, "reason": NOT_YET.get(pid, "check not built yet in this round; no claim is made (see DESIGN.md §5 for the plan)")}
      for pid in ALL if pid not in CLAIMED]

m = {
    "version": 1,
    "setup_cmd": "python3 tools/verif.py setup",
    "hooks": {
        "guard": "INTERROGATE_VERIF",
        "enable": "checks configure their scratch build of /repo with -DCMAKE_CXX_FLAGS=-DINTERROGATE_VERIF (tools/iglib.py build_repo)",
        "baseline_off_cmd": "cmake -G Ninja -S /repo -B /repo/_build -DCMAKE_BUILD_TYPE=RelWithDebInfo && cmake --build /repo/_build -j16 && ctest --test-dir /repo/_build -j8 --timeout 900",
        "source_commits": [],
        "add_only": True,
    },
    "engines": [{"name": "lean4-igverif", "path": "/verif/lean", "serves_properties": sorted(CLAIMED),
                 "kind_free_text": "Lean 4 models + theorems (lake project IgVerif), facts regenerated from /repo by tools/extract, "
                                   "correspondence harnesses in harness/ driven by tools/verif.py"}],
    "checks": checks,
    "not_applicable": na,
    "notes": "All checks: `python3 tools/verif.py check <id> --tier quick|thorough`; VERIF_SEED / VERIF_TIER honoured. "
             "known_findings.json lists recorded and fixed defects.",
}
json.dump(m, open(os.path.join(VERIF, "MANIFEST.json"), "w"), indent=1)
print("claimed:", sorted(CLAIMED), "not yet:", [x["property_id"] for x in na])
