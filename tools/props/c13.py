"""C13 — loading several libraries yields one consistent, order-independent database."""
import itertools
import shutil

import iglib
from extract import dbschema
from gen import dbgen
from props.c12 import workdir, run_both

THEOREMS = ["IgVerif.C13.c13_merge_order_independent", "IgVerif.C13.c13_flag_facts", "IgVerif.mergeAll_perm", "IgVerif.orFlag_idem",
            "IgVerif.C13.c13_merge_commutes", "IgVerif.C13.c13_global_union", "IgVerif.C13.c13_fully_defined_wins", "IgVerif.C13.c13_defined_replaces_forward",
            "IgVerif.C13.c13_module_range", "IgVerif.C13.c13_file_range", "IgVerif.C13.c13_cache_coherent",
            "IgVerif.C13.c13_lookup_reflects_all_loaded", "IgVerif.cacheInv_reachable", "IgVerif.lookup_answer",
            "IgVerif.C13.c13_next_index_monotone", "IgVerif.C13.c13_ranges_disjoint", "IgVerif.modInv_reachable", "IgVerif.mergeFrom_nextIndex"]
PARTIAL = [("c13_order_iso (loadAll (perm dbs) is isomorphic to loadAll dbs)",
            "order independence up to index renaming is not a Lean theorem; it is decided per run by loading every permutation "
            "(all k! orders, k<=3 quick / k<=4 thorough) in the real library, comparing with the model and with the disjoint-union oracle"),
           ("c13_closed (cross references are carried to merged indices)",
            "checked on the real library for every permutation by the `closed` walk and by the canonical-form oracle; Lean proof pending")]
LKMEM = {"type_name": ("type", "_name"), "type_scoped_name": ("type", "_scoped_name"), "type_true_name": ("type", "_true_name"),
         "manifest_name": ("manifest", "_name"), "element_name": ("element", "_name"), "element_scoped_name": ("element", "_scoped_name")}
LKS = ["type_name", "type_scoped_name", "type_true_name", "manifest_name", "element_name", "element_scoped_name"]


def make_libset(lay, rng, k, tag):
    """k libraries with private entries plus shared types: one definer (fully defined), the others forward references;
    atomic types fully defined identically everywhere."""
    ten = lay.enums["type"]
    FD, GL = ten["F_fully_defined"], ten["F_global"]
    shared = [("S%s_%d" % (tag, i)).encode() for i in range(rng.randrange(1, 4))]
    definer = {s: rng.choice(list(range(k)) + [None, None]) for s in shared}      # None: every library only refers to it
    libs = []
    for j in range(k):
        g = dbgen.DbGen(lay, rng, nasty=0.0, max_per_kind=rng.choice([2, 3, 4]), canonical=True)
        db = g.generate()
        # unique identifying names
        for kind in dbgen.KINDS:
            for i, r in db[kind]:
                base = ("L%d%s%d" % (j, kind[0], i)).encode()
                for key in ("_name", "_scoped_name", "_true_name", "_unique_name"):
                    if key in r:
                        r[key] = base
                if kind == "type":
                    r["_flags"] |= FD   # private types are complete
        # turn some types into shared ones
        types = db["type"]
        rng.shuffle(shared)
        for s, (i, r) in zip(shared, rng.sample(types, min(len(types), len(shared)))):
            if rng.random() < 0.8:
                r["_name"] = r["_scoped_name"] = r["_true_name"] = s
                if definer[s] == j:
                    r["_flags"] |= FD
                else:
                    r["_flags"] &= ~FD
                # global-ness varies independently on both sides
                r["_flags"] = (r["_flags"] | GL) if rng.random() < 0.5 else (r["_flags"] & ~GL)
        # an atomic type every library defines identically
        if types and rng.random() < 0.7:
            i, r = types[0]
            if r["_true_name"].startswith(b"L"):
                fresh = dbgen.DbGen(lay, rng, nasty=0.0, max_per_kind=0, canonical=True)
                for f in lay.out["type"]:
                    if f[0] == "ints":
                        r[f[1]] = []
                    elif f[0] == "recs":
                        r[f[1]] = []
                    elif f[0] in ("int", "intIf") and f[1] != "_flags":
                        r[f[1]] = 1 if f[1] == "_array_size" else 0
                r["_name"] = r["_scoped_name"] = r["_true_name"] = b"int"
                r["_comment"] = b""
                r["_alt_names"] = []
                r["_flags"] = FD | ten["F_atomic"] | GL
                r["_atomic_token"] = 1
        types.sort(key=lambda p: p[0])
        # after renaming, fix function flags of constructors (kept by generate) -- nothing else to do
        libs.append(db)
    return libs, shared


canon = dbgen.canon


def expected_union(lay, libs):
    """the property's oracle: disjoint union with types of equal true name identified"""
    ten = lay.enums["type"]
    FD, GL = ten["F_fully_defined"], ten["F_global"]
    exp = {}
    tinfo = {}
    for db in libs:
        c, _ = canon(lay, db)
        for k, r in c.items():
            if k[0] != "type":
                exp[k] = r
            else:
                t = tinfo.setdefault(k, {"global": False, "defs": [], "any": []})
                t["global"] = t["global"] or bool(r["_flags"] & GL)
                (t["defs"] if r["_flags"] & FD else t["any"]).append(r)
    return exp, tinfo


def run(ck):
    quick = ck.quick
    rng = ck.rng
    ch, err = dbschema.main()
    ck.oblige("translator dbschema.py parsed the record classes", err is None, err or "")
    ck.lean_obligations("IgVerif.Props.C13", THEOREMS, PARTIAL)
    ck.trusted += ["harness/dbq.cxx, tools/gen/dbgen.py reader/writer; the canonical-form oracle in tools/props/c13.py"]
    ck.assumptions += ["two fully defined definitions of one true name are generated identical (the property leaves genuinely conflicting definitions open beyond 'fully defined wins')"]
    exe = iglib.build_harness("dbq", extra_flags=["-fno-access-control"])
    lay = dbgen.Layouts()
    ten = lay.enums["type"]
    FD, GL = ten["F_fully_defined"], ten["F_global"]
    wd = workdir(ck)
    ck.rule = ("sets of k libraries (k<=3 quick, k<=4 thorough) with private entries, shared types (one definer, forward references elsewhere, "
               "global-ness varying) and identically defined atomic types; loaded in EVERY order, with lookups and enumerations interleaved "
               "between the requests; real library vs Lean model op by op, and the final database (parsed from the bytes the real library writes) "
               "vs the disjoint-union oracle and vs the other orders")
    try:
        n_sets = 14 if quick else 150
        for n in range(n_sets):
            k = rng.choice([2, 3, 3]) if quick else rng.choice([2, 3, 4, 4])
            libs, shared = make_libset(lay, rng, k, str(n))
            paths = []
            for j, db in enumerate(libs):
                p = wd / ("s%d_l%d.in" % (n, j))
                p.write_bytes(dbgen.enc_file(lay, db))
                paths.append(p)
            names = sorted(set(x for db in libs for x in dbgen.all_names(db)))
            exp, tinfo = expected_union(lay, libs)
            canon_by_order = {}
            orders = list(itertools.permutations(range(k)))
            if quick and len(orders) > 6:
                orders = rng.sample(orders, 6)
            for order in orders:
                ops = ["reset"]
                inter = []   # (op index, lookup kind, name, libraries requested so far)
                # a third of the sessions are one batch (no query between the requests) that mixes the two request interfaces:
                # plain files and module definitions with a reserved index range, as compiled-in modules register themselves
                batch = rng.random() < 0.34
                for pos, j in enumerate(order):
                    if batch and rng.random() < 0.6:
                        total = sum(len(libs[j][kd]) for kd in dbgen.KINDS)
                        ops.append("reqmod 0 ~ %s 1 %d 0 %s 0" % (dbgen.hexs(b"HM%d" % j), 1 + total, paths[j]))
                    else:
                        ops.append("reqfile %s" % paths[j])
                    if batch and pos + 1 < len(order):
                        continue
                    # queries between requests: lookups of names from all libraries (loaded or not yet), enumerations
                    for nm in rng.sample(names, min(len(names), 6)):
                        lk = rng.choice(LKS)
                        ops.append("lookup %s %s" % (lk, dbgen.hexs(nm)))
                        inter.append((len(ops) - 1, lk, nm, list(order[:pos + 1])))
                    ops += ["enumcnt global_types", "enumcnt all_types", "enumcnt all_functions", "next"]
                for nm in names:
                    ops.append("lookup type_true_name %s" % dbgen.hexs(nm))
                ops += ["closed", "links", "err", "writehex 1 - - -"]
                impl, st, err_, model = run_both(ck, exe, ops)
                diffs = iglib.diff_streams(ops, impl, model)
                if st != "ok":
                    diffs.append((len(impl), "<process>", st, "ok"))
                ck.corr_case("load-orders", {"set": n, "k": k, "order": list(order)}, not diffs, detail=repr(diffs[:3]),
                             feature=["k=%d" % k] + (["mixed-batch"] if batch and any(o.startswith("reqmod") for o in ops) and any(o.startswith("reqfile") for o in ops) else []))
                ck.search_case("merged-equals-union")
                files = dict((p.name, p.read_bytes()) for p in paths)
                files["ops.txt"] = "\n".join(ops) + "\n"
                if st != "ok" or len(impl) != len(ops):
                    ck.violation("crash", "loading libraries in order %s ended with %s" % (list(order), st), files, err_)
                    continue
                if impl[-2] != "0":
                    ck.violation("errflag", "loading valid libraries in order %s raised the error flag" % (list(order),), files)
                    continue
                if impl[-4] != "dangling=0 enum=0":
                    ck.violation("dangling-after-merge", "after loading in order %s the merged database has %s" % (list(order), impl[-4]), files)
                    continue
                merged = dbgen.dec_file(lay, bytes.fromhex(impl[-1]))
                c, dup = canon(lay, merged)
                canon_by_order[order] = c
                problem = None
                if dup:
                    problem = "entries %r appear more than once" % (dup[:3],)
                for key, r in exp.items():
                    if problem:
                        break
                    if key not in c:
                        problem = "%s %r of an input library is missing" % key
                    elif c[key] != r:
                        d = [f for f in r if r[f] != c[key].get(f)]
                        problem = "%s %r differs from its library's definition in %s: %r vs %r" % (key[0], key[1], d, [r[x] for x in d][:2], [c[key].get(x) for x in d][:2])
                for key, t in tinfo.items():
                    if problem:
                        break
                    if key not in c:
                        problem = "type %r is missing" % (key[1],)
                        break
                    got = c[key]
                    if bool(got["_flags"] & GL) != t["global"]:
                        problem = "type %r: global flag is %s, union of the definitions says %s" % (key[1], bool(got["_flags"] & GL), t["global"])
                    elif t["defs"]:
                        want = dict(t["defs"][0])
                        g2 = dict(got)
                        want["_flags"] |= GL if t["global"] else 0
                        if g2 != want:
                            d = [f for f in want if want[f] != g2.get(f)]
                            problem = "type %r: the fully defined definition did not win (fields %s)" % (key[1], d)
                    else:
                        # nobody defines it: one of the forward references is kept, with its cross references carried to the merged indices
                        cands = []
                        for a in t["any"]:
                            a2 = dict(a)
                            a2["_flags"] = (a2["_flags"] | GL) if t["global"] else (a2["_flags"] & ~GL)
                            cands.append(a2)
                        if dict(got) not in cands:
                            d = sorted(set(f for a2 in cands for f in a2 if a2[f] != got.get(f)))
                            problem = "type %r (defined by no library): the merged record equals none of the libraries' records (fields %s)" % (key[1], d)
                extra = [key for key in c if key not in exp and key not in tinfo]
                if not problem and extra:
                    problem = "entries %r belong to no input library" % (extra[:3],)
                # the enumeration of global types lists exactly the types that are global
                if not problem:
                    base = len(ops) - 4 - len(names)
                    n_global = sum(1 for key, r in c.items() if key[0] == "type" and r["_flags"] & GL)
                    if impl[base - 4] != str(n_global):
                        problem = "global types: the enumeration has %s entries, %d types of the merged database are global" % (impl[base - 4], n_global)
                # by-name lookups reflect all loaded files
                if not problem:
                    base = len(ops) - 4 - len(names)
                    present = set(key[1] for key in tinfo)
                    for q, nm in enumerate(names):
                        ans = impl[base + q]
                        if (nm in present) != (ans != "0"):
                            problem = "lookup type_true_name(%r) = %s after all files were loaded (type present: %s)" % (nm, ans, nm in present)
                            break
                if not problem:
                    for at, lk, nm, loaded in inter:
                        kind, member = LKMEM[lk]
                        present = any(r[member] == nm for j in loaded for _, r in libs[j][kind])
                        if present != (impl[at] != "0"):
                            problem = "lookup %s(%r) asked after requesting libraries %s returned %s (an entry bearing the name is %s among them)" % (
                                lk, nm, loaded, impl[at], "present" if present else "absent")
                            break
                if problem:
                    ck.violation("merge:" + problem.split(":")[0][:40], "order %s: %s" % (list(order), problem), files)
            # order independence (up to representative of never-defined types)
            ck.search_case("order-independent")
            ref = None
            for order, c in canon_by_order.items():
                norm = {}
                for key, r in c.items():
                    if key[0] == "type" and key in tinfo and not tinfo[key]["defs"]:
                        norm[key] = {"_flags_global": bool(r["_flags"] & GL)}
                    else:
                        norm[key] = r
                if ref is None:
                    ref = (order, norm)
                elif norm != ref[1]:
                    dk = [key for key in norm if norm[key] != ref[1].get(key)][:3]
                    ck.violation("order-dependent", "load orders %s and %s give different databases (entries %r)" % (list(ref[0]), list(order), dk),
                                 dict((p.name, p.read_bytes()) for p in paths))
                    break

        # ---- compiled-in module ranges -------------------------------------------------------
        for n in range(4 if quick else 40):
            ops = ["reset"]
            nxt = 1
            expect = []
            for j in range(rng.randrange(1, 5)):
                cnt = rng.randrange(0, 6)
                first = rng.choice([0, 1, 100])
                ops.append("reqmod 0 %s %s %d %d %d ~ 0" % (dbgen.hexs(b"lib%d" % j), dbgen.hexs(b"HH%02d" % j), first, first + cnt, cnt))
                ops.append("next")
                nxt += cnt
                expect.append(str(nxt))
            for w in range(-1, nxt + 2):
                ops.append("fptr %d" % w)
            impl, st, err_, model = run_both(ck, exe, ops)
            diffs = iglib.diff_streams(ops, impl, model)
            ck.corr_case("module-ranges", {"ops": ops[1:6]}, not diffs and st == "ok", detail=repr(diffs[:3]), feature="modules")
            ck.search_case("contiguous-ranges")
            got = [impl[i] for i, o in enumerate(ops) if o == "next" and i < len(impl)]
            if st == "ok" and got != expect:
                ck.violation("module-range", "module index ranges are not contiguous: next indices %s, expected %s" % (got, expect), {"ops.txt": "\n".join(ops) + "\n"})
    finally:
        shutil.rmtree(wd, ignore_errors=True)
