"""C01 — handle-style wrappers (-c, -python) behave exactly like the C++ they wrap."""
import re
import shutil
import sysconfig

import iglib
from gen import libgen
from props.c12 import workdir

THEOREMS = ["IgVerif.C01.c01_argument_crosses", "IgVerif.C01.c01_unwrappable_refused", "IgVerif.C01.c01_arities", "IgVerif.C01.c01_arities_nodup", "IgVerif.C01.c01_forwarded_length"]
PARTIAL = [("c01_wrapper_equals_direct_call (same return value and side effects for every exported function and every argument tuple)",
            "the generated code is C++ text: without a C++ semantics in Lean the equality is decided per run by compiling the generated wrappers with the "
            "instrumented test library and calling each wrapper next to the direct call on twin objects; the theorems cover the converter table "
            "(arguments cross unchanged) and the default-argument expansion only")]

CXXFLAGS = ["-std=c++17", "-O0", "-w", "-D__published=public", "-D__begin_publish=", "-D__end_publish="]


def includes(bdir):
    return ["-I.", "-I" + str(iglib.VERIF / "shims"), "-I" + str(iglib.REPO / "src/dtoolbase"), "-I" + str(iglib.REPO / "src/dtoolutil"),
            "-I" + str(iglib.REPO / "src/interrogatedb"), "-I" + str(bdir / "include")]


def category(t):
    t = t.strip()
    if t.endswith("&"):
        return "reference"
    if t.endswith("*"):
        return "pointer"
    if t in ("Payload",):
        return "struct"
    return "simple"


def model_tie(ck, lib, ws):
    """the converter each parameter gets and the arities each function gets, against the Lean model"""
    by_scoped = {}
    for w in ws:
        by_scoped.setdefault(w["scoped"], []).append(w)
    methods = [m for c in lib["classes"] for m in c["methods"]] + lib["frees"]
    ops, meta = [], []
    for m in methods:
        found = by_scoped.get(m.scoped(), [])
        if not found:
            continue
        nthis = 0 if (m.static or not m.cls) else 1
        ops.append("arities %d %d" % (len(m.params), m.ndef))
        meta.append(("arities", m, sorted(len(w["params"]) - nthis for w in found)))
        full = max(found, key=lambda w: len(w["params"]))
        for (t, n, d), wp in zip(m.params, full["params"][nthis:]):
            if t.startswith(("std::string", "const std::string")):
                continue
            ops.append("remap " + category(t))
            meta.append(("remap", m, (t, wp)))
    ans = iglib.run_driver("wrap", ops)
    for (kind, m, data), a in zip(meta, ans):
        if kind == "arities":
            ck.corr_case("wrapper-arities-vs-model", m.scoped(), sorted(int(x) for x in a.split()) == data, detail="generated arities %s, model %s" % (data, a),
                         nontrivial=m.ndef > 0, feature="defaults%d" % m.ndef)
        else:
            t, wp = data
            wtype = re.sub(r"\s*param\d+$", "", wp).strip()
            base = re.sub(r"^const\s+|\s*[&*]$", "", t).strip()
            base = {"short": "short int", "unsigned short": "unsigned short int", "long": "long int", "unsigned long": "unsigned long int",
                    "long long": "long long int", "unsigned long long": "unsigned long long int"}.get(base, base)
            const = t.startswith("const ")
            if a == "unchanged":
                want = (base + (" const" if const else "") + " *") if t.endswith("*") else base
            else:
                want = base + (" const" if const else "") + " *"
            ck.corr_case("parameter-converter-vs-model", "%s %s" % (m.scoped(), t), wtype == want, detail="wrapper parameter `%s`, model (%s) expects `%s`" % (wtype, a, want),
                         nontrivial=a != "unchanged", feature=a)


def run(ck):
    quick = ck.quick
    rng = ck.rng
    ck.lean_obligations("IgVerif.Props.C01", THEOREMS, PARTIAL)
    ck.trusted += ["g++ 12 as the C++ semantics (wrapper and direct call are compiled into one program)", "tools/gen/libgen.py (library, instrumented bodies, driver generator)",
                   "CPython %s embedded in the driver for the -python back-end" % sysconfig.get_config_var("VERSION")]
    bdir = iglib.build_repo("std")
    wd = workdir(ck)
    pyinc = sysconfig.get_paths()["include"]
    libdir = sysconfig.get_config_var("LIBDIR")
    pylib = ["-L" + libdir, "-Wl,-rpath," + libdir, "-lpython" + sysconfig.get_config_var("VERSION"), "-ldl", "-lm"]
    ck.rule = ("generated libraries (1-3 classes in an inheritance chain; methods over every integer width, bool, char kinds, float/double, enums with trailing "
               "defaults; static/const/virtual methods overridden down the chain; by-value / reference / const-reference / pointer class parameters; C strings "
               "and std::string under -string; published data members; operators + == += () [] and a typecast operator; a nested class; a typedef'd template "
               "instantiation and a namespace class as results and arguments; free functions) x back-ends {-c, -python} x {-string} x {-promiscuous}: every generated wrapper is "
               "called next to the direct C++ call on twin objects with boundary and random argument tuples, on objects of the class and of every derived "
               "class, twice in a row; return values, object state, argument objects afterwards and the trace of the instrumented bodies must agree; "
               "distinct = distinct (library, wrapper, argument tuple)")
    n = 3 if quick else 60
    try:
        for li in range(n):
            for backend, string_mode, promiscuous in (("c", False, False), ("c", True, False), ("c", False, True), ("python", False, False), ("python", True, False)):
                if True:
                    lib = libgen.gen_library(rng, string_mode=string_mode)
                    d = wd / ("lib%d_%s_%d_%d" % (li, backend, string_mode, promiscuous))
                    d.mkdir()
                    (d / "lib.h").write_text(lib["header"])
                    (d / "lib.cxx").write_text(lib["impl"])
                    code_name = "o.cxx" if backend == "c" else "p.cxx"
                    cmd = [str(bdir / "bin" / "interrogate"), "-D__cplusplus", "-oc", code_name, "-od", "o.in", "-module", "m", "-library", "l", "-" + backend, "-fnames",
                           "-S" + str(iglib.REPO / "parser-inc")] + (["-string"] if string_mode else []) + (["-promiscuous"] if promiscuous else []) + ["lib.h"]
                    rc, so, se = iglib.sh(cmd, cwd=str(d), timeout=120)
                    files = {"lib.h": lib["header"], "lib.cxx": lib["impl"], "cmd.txt": " ".join(cmd) + "\n"}
                    ck.search_case("library-wrapped")
                    if rc != 0:
                        ck.violation("interrogate-fails:%s" % backend, "interrogate -%s exits %d on a generated library" % (backend, rc), files, se[-2000:])
                        continue
                    code = (d / code_name).read_text(errors="replace")
                    if backend == "c":
                        ws = libgen.parse_wrappers(code)
                        model_tie(ck, lib, ws)
                        drv = libgen.gen_driver(lib, ws, rng, string_mode=string_mode, promiscuous=promiscuous)
                        extra_inc, extra_ld = [], []
                    else:
                        ws = libgen.parse_py_wrappers(code)
                        drv = libgen.gen_py_driver(lib, ws, rng, string_mode=string_mode)
                        extra_inc, extra_ld = ["-I" + pyinc], pylib
                    (d / "driver.cxx").write_text(drv)
                    files["driver.cxx"] = drv
                    files["build.txt"] = "g++ %s -I. -I<verif>/shims -I<repo>/src/{dtoolbase,dtoolutil,interrogatedb} -I<build>/include %s driver.cxx lib.cxx -o driver %s && ./driver\n" % (
                        " ".join(CXXFLAGS), " ".join(extra_inc), " ".join(extra_ld))
                    rc, so, se = iglib.sh(["g++"] + CXXFLAGS + includes(bdir) + extra_inc + ["driver.cxx", "lib.cxx", "-o", "driver"] + extra_ld, cwd=str(d), timeout=300)
                    if rc != 0:
                        first = [l for l in se.split("\n") if "error" in l][:2]
                        # an error inside the generated file is the generated code's fault (C03 territory, but it also means no wrapper can be called)
                        ck.violation("does-not-compile:%s%s" % (backend, ":string" if string_mode else ""),
                                     "the -%s%s wrappers of a generated library do not compile together with the library: %s" % (backend, " -string" if string_mode else "", " | ".join(f.split("error: ")[-1] for f in first)),
                                     files, se[-3000:])
                        continue
                    rc, so, se = iglib.sh([str(d / "driver")], cwd=str(d), timeout=120)
                    m = re.search(r"checks=(\d+) failures=(\d+)", so)
                    nchk = int(m.group(1)) if m else 0
                    for _ in range(nchk):
                        ck.search_case("wrapper-equals-direct:%s%s" % (backend, "+string" if string_mode else ""))
                    ck.extra["wrappers_called_%s" % backend] = ck.extra.get("wrappers_called_%s" % backend, 0) + len(ws)
                    if rc != 0 or not m or int(m.group(2)) != 0:
                        bad = sorted(set(re.findall(r"^MISMATCH (.*)$", so, re.M)))
                        kinds = sorted({re.sub(r"C\d+::", "", re.sub(r"m\d+_\d+", "m", b.split(" on ")[0])) for b in bad}) or ["crash rc=%s" % rc]
                        ck.violation("wrapper-differs:%s%s:%s" % (backend, ":string" if string_mode else "", "+".join(k.replace(" ", "_") for k in kinds)[:80]),
                                     "-%s%s wrappers disagree with the direct C++ calls: %s" % (backend, " -string" if string_mode else "", "; ".join(bad[:4]) or ("driver ended with status %s" % rc)),
                                     files, (so + se)[-3000:])
                    shutil.rmtree(d, ignore_errors=True)
    finally:
        shutil.rmtree(wd, ignore_errors=True)
