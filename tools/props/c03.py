"""C03 — successful runs yield compilable code with unique, valid wrapper symbols."""
import itertools
import re
import shutil

import iglib
from gen import dbgen, hdrgen
from props.c12 import workdir

THEOREMS = ["IgVerif.C03.c03_hash_alphabet", "IgVerif.C03.c03_clean_valid", "IgVerif.C03.c03_assign_fresh", "IgVerif.C03.c03_assign_distinct", "IgVerif.C03.c03_assign_total",
            "IgVerif.Nm.assign_fresh", "IgVerif.Nm.assignAll_pairwise"]
PARTIAL = [("the generated code is a well-formed translation unit",
            "there is no formal C++ in the tool set: compilability is decided per run by g++ -fsyntax-only over the option lattice (exploration), "
            "the theorems cover validity, distinctness and availability of the generated symbols")]

IDENT = re.compile(r"^[A-Za-z_][A-Za-z0-9_]*$")

# -c / -python / -python-native  x  naming  x  misc ; those that need the Panda3D runtime at compile time are left out (see DESIGN.md)
LATTICE = [
    ["-c", "-fnames"], ["-c", "-fnames", "-string"], ["-c", "-fnames", "-unique-names"], ["-c", "-fnames", "-promiscuous"],
    ["-c", "-fnames", "-nomangle"], ["-c", "-fnames", "-nodb"], ["-c", "-fnames", "-do-module"],
    ["-python", "-fnames"], ["-python", "-fnames", "-string"], ["-python", "-fnames", "-promiscuous"],
    ["-python-native"], ["-python-native", "-string"], ["-python-native", "-promiscuous"], ["-python-native", "-do-module"],
    ["-c"], ["-c", "-fptrs"], ["-c", "-fptrs", "-unique-names"], ["-c", "-fnames", "-fptrs"], ["-python"], ["-python", "-fptrs"],
    ["-python-native", "-fptrs"], ["-python-native", "-nomangle"], ["-c", "-fnames", "-assert"], ["-python-native", "-unique-names"],
    ["-c", "-fptrs", "-true-names"], ["-python-native", "-fnames", "-nodb"],
]


def hx(s):
    return s.encode().hex() if s else "-"


def hash_string(name, off):
    h, shift = 0, 0
    for c in name.encode():
        sc = (c << shift) & 0xffffff
        if shift > 16:
            sc |= (c >> (24 - shift)) & 0xff
        h = (h + sc) & 0xffffff
        shift = (shift + off) % 24
    p = h * 4999
    h = (p ^ (p >> 24)) & 0xffffff
    out = ""
    for _ in range(4):
        v = h & 0x3f
        h >>= 6
        out += chr(65 + v) if v < 26 else chr(97 + v - 26) if v < 52 else chr(48 + v - 52) if v < 62 else "_"
    return out


def collision_family(rng, n):
    """n distinct function names whose signatures `name(int)` share both 24-bit hashes (characters 24 positions apart are interchangeable)"""
    base = list("fn_" + "".join(rng.choice("abcdefghijklmnopqrstuvwxyz") for _ in range(60)))
    pairs = [(i, i + 24) for i in range(3, 30) if base[i] != base[i + 24]]
    names = set()
    for mask in itertools.product([0, 1], repeat=min(len(pairs), 7)):
        b = list(base)
        for bit, (i, j) in zip(mask, pairs):
            if bit:
                b[i], b[j] = b[j], b[i]
        names.add("".join(b))
        if len(names) >= n:
            break
    return sorted(names)[:n]


def compile_syntax(wd, src, extra_inc=()):
    import sysconfig
    inc = ["-I", str(wd), "-I", str(iglib.VERIF / "shims"), "-I", str(iglib.REPO / "src/dtoolbase"), "-I", str(iglib.REPO / "src/interrogatedb"),
           "-I", str(iglib.REPO / "src/dtoolutil"), "-I", sysconfig.get_paths()["include"]]
    cmd = ["g++", "-std=c++17", "-fsyntax-only", "-w", "-fpermissive" if False else "-w", "-DHAVE_PYTHON", "-D__published=public", "-D__begin_publish=", "-D__end_publish="] + inc + list(extra_inc) + [str(src)]
    rc, out, err = iglib.sh(cmd, timeout=300)
    return rc, err


def run(ck):
    quick = ck.quick
    rng = ck.rng
    ck.lean_obligations("IgVerif.Props.C03", THEOREMS, PARTIAL)
    ck.trusted += ["g++ 12 -fsyntax-only as the judge of 'is a well-formed translation unit'; /verif/shims stand in for the three Panda3D headers the generated code includes",
                   "the Python port of hash_string in tools/props/c03.py (used only to craft colliding names)"]
    bdir = iglib.build_repo("std")
    lay = dbgen.Layouts()
    wd = workdir(ck)
    ck.rule = ("(hash) library names of every length/alphabet: the library hash in the database header against the Lean hashString; (collisions) "
               "families of 2..40 functions whose signatures collide under both shift offsets: assigned wrapper names against the Lean assign and the "
               "distinct/valid-identifier oracle; (compile) generated headers x the back-end/option lattice through g++ -fsyntax-only")
    try:
        # ---- hash_string on arbitrary strings, observed through -library ---------------------------------
        (wd / "e.h").write_text("__begin_publish\nint e_fn(int a);\n__end_publish\n")
        libs = ["l", "libfoo", "a", "panda3d.core", "x" * 24, "x" * 25, "AZaz09_", "lib-with-dash", "z" * 100] + \
            ["".join(rng.choice("abcdefghijklmnopqrstuvwxyzABCXYZ0123456789_.") for _ in range(rng.randrange(1, 60))) for _ in range(40 if quick else 1500)]
        model = iglib.run_driver("names", ["hash %s 5" % hx(l) for l in libs])
        for l, mh in zip(libs, model):
            rc, so, se = iglib.sh([str(bdir / "bin" / "interrogate"), "-D__cplusplus", "-oc", "e.cxx", "-od", "e.in", "-module", "m", "-library", l, "-c", "-fnames", "e.h"], cwd=str(wd), timeout=60)
            got = dbgen.dec_file(lay, (wd / "e.in").read_bytes())["hash"].decode() if rc == 0 else "<fail>"
            ck.corr_case("hash_string", l, got == mh, detail="interrogate %s, model %s" % (got, mh), feature="len%d" % (10 * (len(l) // 10)))
            ck.search_case("hash-is-identifier")
            if rc == 0 and not re.match(r"^[A-Za-z0-9_]{4}$", got):
                ck.violation("hash-alphabet", "library hash %r of %r is not four identifier characters" % (got, l), {"cmd.txt": "-library " + l})

        # ---- collision families ----------------------------------------------------------------------------
        sizes = [2, 3, 5, 27, 28, 30] if quick else [2, 3, 4, 5, 10, 26, 27, 28, 29, 30, 35, 40]
        for n in sizes:
            names = collision_family(rng, n)
            if len(names) < n:
                continue
            assert len(set((hash_string(x + "(int)", 5), hash_string(x + "(int)", 11)) for x in names)) == 1
            hdr = "__begin_publish\n" + "".join("int %s(int a);\n" % x for x in names) + "__end_publish\n"
            hp = wd / ("col%d.h" % n)
            hp.write_text(hdr)
            for opts in (["-c", "-fnames"], ["-python-native"], ["-c", "-fnames", "-unique-names"]):
                stem = "col%d_%s" % (n, opts[0].strip("-").replace("-", ""))
                oc, od = wd / (stem + ".cxx"), wd / (stem + ".in")
                cmd = [str(bdir / "bin" / "interrogate"), "-D__cplusplus", "-oc", str(oc), "-od", str(od), "-module", "m", "-library", "l"] + opts + [hp.name]
                rc, so, se = iglib.sh(cmd, cwd=str(wd), timeout=120)
                files = {hp.name: hdr, "cmd.txt": " ".join(cmd) + "\n"}
                ck.search_case("collision-names-distinct")
                if rc != 0:
                    ck.violation("collision-fails", "interrogate failed (rc=%d) on %d signatures with colliding hashes: %s" % (rc, n, se[-300:]), files, se[-2000:])
                    continue
                db = dbgen.dec_file(lay, od.read_bytes())
                wnames = [w["_name"].decode() for _, w in db["wrapper"] if w["_name"]]
                unames = [w["_unique_name"].decode() for _, w in db["wrapper"] if w["_unique_name"]]
                code = oc.read_text(errors="replace")
                defined = re.findall(r"^(_inC\w+)\(", code, re.M) if opts[0] == "-c" else []
                problem = None
                for kind, lst in (("wrapper names", wnames), ("unique names", unames), ("defined C symbols", defined)):
                    if len(lst) != len(set(lst)):
                        dup = sorted(set(x for x in lst if lst.count(x) > 1))
                        problem = "%s are not pairwise distinct: %s appears %d times" % (kind, dup[0], lst.count(dup[0]))
                        break
                    bad = [x for x in lst if not IDENT.match(x)]
                    if bad:
                        problem = "%s contain an invalid identifier %r" % (kind, bad[0])
                        break
                if opts[0] == "-c" and not problem:
                    # model: the hashes (after the library hash) handed to the n signatures
                    ml = iglib.run_driver("names", ["reset"] + ["assign " + hx(x + "(int)") for x in names])[1:]
                    got = sorted(x[len("_inC0zDC"):] for x in wnames)
                    ck.corr_case("collision-assignment", {"n": n, "opts": opts}, got == sorted(ml), detail="interrogate %s..., model %s..." % (got[:4], sorted(ml)[:4]), feature="family=%d" % n)
                if problem:
                    ck.violation("collision:" + problem.split(" ")[0], "%d functions whose signature hashes collide, %s: %s" % (n, " ".join(opts), problem), files)

        # ---- compile the generated code over the option lattice -------------------------------------------
        n_hdr = 2 if quick else 40
        for n in range(n_hdr):
            h = hdrgen.gen_header(rng, n_classes=rng.randrange(1, 4), allow_cstr=True)
            hp = wd / ("k%d.h" % n)
            hp.write_text(h.text())
            optsets = rng.sample(LATTICE, 5) if quick else LATTICE
            for oi, opts in enumerate(optsets):
                oc = wd / ("k%d_%d.cxx" % (n, oi))
                cmd = [str(bdir / "bin" / "interrogate"), "-D__cplusplus", "-oc", str(oc), "-od", str(wd / ("k%d_%d.in" % (n, oi))), "-module", "m", "-library", "lk",
                       "-S", str(iglib.REPO / "parser-inc")] + opts + [hp.name]
                rc, so, se = iglib.sh(cmd, cwd=str(wd), timeout=120)
                ck.search_case("compiles")
                if rc != 0:
                    continue   # not a successful run: nothing is claimed
                crc, cerr = compile_syntax(wd, oc)
                ck.corr_case("compile", {"header": hp.name, "opts": " ".join(opts)}, crc == 0, detail=cerr[-400:], feature=" ".join(opts))
                if crc != 0:
                    first = [l for l in cerr.split("\n") if "error" in l][:2]
                    ck.violation("does-not-compile:%s" % " ".join(opts), "interrogate %s exited 0 on %s but g++ rejects the code file: %s" % (" ".join(opts), hp.name, " | ".join(first)),
                                 {hp.name: hp.read_text(), "generated.cxx": oc.read_text(errors="replace"), "cmd.txt": " ".join(cmd) + "\n"}, cerr[-3000:])
        # ---- corpus of headers that need escaping / qualification care, over the three back-ends -------------
        for src in sorted((iglib.VERIF / "corpus" / "C03").glob("*.h")):
            shutil.copy(src, wd / src.name)
            for opts in (["-c", "-fnames"], ["-python", "-fnames"], ["-python-native"], ["-c", "-fnames", "-promiscuous"], ["-c", "-fptrs"], ["-python", "-fptrs"],
                         ["-c", "-fnames", "-unique-names"], ["-python", "-fnames", "-unique-names"], ["-c", "-fptrs", "-unique-names"]):
                if src.name in ("array_member.h", "neg_templ.h") and ("-fptrs" in opts or "-unique-names" in opts):
                    continue          # (the two known findings are tied to these headers under the four basic option sets)
                oc = wd / ("corpus_%s_%s.cxx" % (src.stem, "_".join(o.strip("-") for o in opts)))
                cmd = [str(bdir / "bin" / "interrogate"), "-D__cplusplus", "-oc", str(oc), "-od", str(wd / "corpus.in"), "-module", "m", "-library", "lc"] + opts + [src.name]
                rc, so, se = iglib.sh(cmd, cwd=str(wd), timeout=120)
                ck.search_case("compiles")
                if rc != 0:
                    continue
                crc, cerr = compile_syntax(wd, oc)
                ck.search_case("compiles-corpus")
                if crc != 0:
                    first = [l for l in cerr.split("\n") if "error" in l][:2]
                    ck.violation("corpus:%s:%s" % (src.name, " ".join(opts)), "interrogate %s exited 0 on corpus/C03/%s but g++ rejects the code file: %s" % (" ".join(opts), src.name, " | ".join(f.split(": ", 1)[-1] for f in first)),
                                 {src.name: src.read_text(), "generated.cxx": oc.read_text(errors="replace"), "cmd.txt": " ".join(cmd) + "\n"}, cerr[-3000:])
    finally:
        shutil.rmtree(wd, ignore_errors=True)
