"""C07 — recorded constants equal the values the C++ compiler computes."""
import re
import shutil

import iglib
from extract import c07_tables
from gen import dbgen, exprgen
from props.c12 import workdir

THEOREMS = ["IgVerif.C07.c07_char_plain", "IgVerif.C07.c07_char_simple_escapes", "IgVerif.C07.c07_char_octal", "IgVerif.C07.c07_char_hex",
            "IgVerif.C07.c07_enum_increment", "IgVerif.EnumVal.elements_spec", "IgVerif.C07.c07_literal", "IgVerif.C07.c07_strtol_snoc", "IgVerif.C07.c07_eval", "IgVerif.C07.c07_never_wrong", "IgVerif.C07.c07_unknown_is_unevaluated", "IgVerif.C07.c07_spec_in_range",
            "IgVerif.C07.c07_extraction_ok", "IgVerif.C07.c07_precedence", "IgVerif.C07.c07_productions", "IgVerif.C07.c07_unary_productions",
            "IgVerif.C07.c07_eval_mirror", "IgVerif.Ex.evaluate_eq_cxxEval", "IgVerif.Ex.cxxEval_inInt"]
PARTIAL = [("c07_parse_print (bison's conflict resolution by the %left/%right table yields the C++ parse)",
            "the precedence/associativity table and the operator productions are decided on the extracted grammar; that an LALR parser with that "
            "table parses minimally parenthesised text into the intended tree is validated by the correspondence (g++ and interrogate read the same text), not proved"),
           ("c07_char_literal_wide (u8/u/U/L prefixes, multi-character literals, universal character names)", "narrow single-character literals are c07_char_*; the rest is outside the model")]


def enum_token(e, v):
    """how `add_element` sees a written initialiser: a literal, `expr + literal`, or some other expression of value v"""
    if e[0] == "int":
        return "l%d" % e[1]
    if e[0] == "bin" and e[1] == "add" and e[3][0] == "int":
        try:
            return "a%d+%d" % (exprgen.cxx_eval(e[2]), e[3][1])
        except exprgen.Undefined:
            pass
    return "s%d" % v


def build_header(rng, n_items):
    """returns header text and the list of items (kind, name, ast, predicted value)"""
    items = []
    refs = []
    lines = []
    k = 0
    enum_open = None
    enum_last = None
    arrays = []
    enums = {}      # enum name -> [(enumerator, token for `igdriver enum`)]
    build_header.enums = enums
    for i in range(n_items):
        kind = rng.choice(["const", "enum", "enum", "enum", "macro", "array", "constexpr"])
        if kind != "enum" and enum_open is not None:
            lines.append("};")
            enum_open = None
        depth = rng.choice([1, 2, 2, 3, 4])
        if kind in ("const", "constexpr"):
            e, v = exprgen.gen_valid(rng, depth, refs)
            name = "K%d" % k
            lines.append("%s int %s = %s;" % ("const" if kind == "const" else "constexpr", name, exprgen.text(e, rng)))
            items.append(("const", name, e, v))
            refs.append((name, v))
        elif kind == "enum":
            if enum_open is None:
                enum_open = "En%d" % k
                lines.append("enum %s {" % enum_open)
                enum_last = -1
            name = "E%d" % k
            if rng.random() < 0.45 and enum_last is not None and enum_last < exprgen.INT_MAX:
                v = enum_last + 1
                lines.append("  %s," % name)
                items.append(("enum", name, ("int", v), v))
                enums.setdefault(enum_open, []).append((name, "-"))
            elif rng.random() < 0.3:
                # `name op literal` / `literal op literal` initialisers, typically followed by implicit enumerators
                # (add_element() folds `X + k` specially when the next enumerator has no initialiser)
                for _ in range(50):
                    a = ("ref",) + rng.choice(refs) if refs and rng.random() < 0.7 else ("int", rng.randrange(0, 40))
                    e = ("bin", rng.choice(["add", "sub", "sub", "mul", "bor", "shl"]), a, ("int", rng.randrange(0, 9)))
                    try:
                        v = exprgen.cxx_eval(e)
                        break
                    except exprgen.Undefined:
                        continue
                else:
                    e, v = ("int", 4), 4
                lines.append("  %s = %s," % (name, exprgen.text(e)))
                items.append(("enum", name, e, v))
                enums.setdefault(enum_open, []).append((name, enum_token(e, v)))
            else:
                e, v = exprgen.gen_valid(rng, depth, refs)
                lines.append("  %s = %s," % (name, exprgen.text(e, rng)))
                items.append(("enum", name, e, v))
                enums.setdefault(enum_open, []).append((name, enum_token(e, v)))
            enum_last = v
            refs.append((name, v))
        elif kind == "macro":
            mrefs = [r for r in refs if r[0].startswith("K")]     # macros referring to enumerators are not typed by interrogate
            e, v = exprgen.gen_valid(rng, depth, mrefs)
            name = "M%d" % k
            lines.append("#define %s (%s)" % (name, exprgen.text(e, rng)))
            items.append(("macro", name, e, v))
        elif kind == "array":
            e, v = exprgen.gen_valid(rng, depth, refs, positive=True)
            name = "a%d" % k
            arrays.append("  int %s[%s];" % (name, exprgen.text(e, rng)))
            items.append(("array", name, e, v))
        k += 1
    if enum_open is not None:
        lines.append("};")
    lines.append("struct Arrays {\n__published:\n" + "\n".join(arrays) + "\n};")
    return "\n".join(lines) + "\n", items


def pair_header():
    """every ordered pair of binary operators (and each with the conditional operator) written WITHOUT parentheses, with operands for
    which the two possible groupings have different values: one enumerator per pair decides the precedence/associativity table"""
    ops = [o for o in exprgen.PREC if o not in ("comma", "tern")]
    vals = [0, 1, 2, 3, 5, 7, 8, 12]
    lines = ["enum Pairs {"]
    items = []

    def ev(e):
        try:
            return exprgen.cxx_eval(e)
        except exprgen.Undefined:
            return None
    k = 0
    for o1 in ops:
        for o2 in ops:
            p1, a1 = exprgen.PREC[o1]
            p2, _ = exprgen.PREC[o2]
            found = None
            for a in vals:
                for b in vals:
                    for c in vals:
                        left = ("bin", o2, ("bin", o1, ("int", a), ("int", b)), ("int", c))
                        right = ("bin", o1, ("int", a), ("bin", o2, ("int", b), ("int", c)))
                        vl, vr = ev(left), ev(right)
                        if vl is not None and vr is not None and vl != vr:
                            found = (left, vl) if (p1 > p2 or (p1 == p2 and a1 == "l")) else (right, vr)
                            break
                    if found:
                        break
                if found:
                    break
            if not found:
                continue
            name = "P%d_%s_%s" % (k, o1, o2)
            lines.append("  %s = %s," % (name, exprgen.text(found[0])))
            items.append(("enum", name, found[0], found[1]))
            k += 1
    for o in ops:
        # `a o b ? c : d` groups as (a o b) ? c : d and `a ? b : c o d` as a ? b : (c o d)
        for e in (("tern", ("bin", o, ("int", 2), ("int", 3)), ("int", 5), ("int", 7)), ("tern", ("int", 0), ("int", 5), ("bin", o, ("int", 7), ("int", 2))),
                  ("tern", ("int", 1), ("int", 5), ("bin", o, ("int", 7), ("int", 2)))):
            v = ev(e)
            if v is None:
                continue
            name = "P%d_tern_%s" % (k, o)
            lines.append("  %s = %s," % (name, exprgen.text(e)))
            items.append(("enum", name, e, v))
            k += 1
    # every cast the evaluator knows applied to values on both sides of its range, used as a number; every unary operator
    for cn in exprgen.CASTS:
        for v in (0, 1, 12, -8, -1, 127, 128, 255, 256, 300, 32767, 32768, 65535, 65536, 70000, 2 ** 31 - 1, -2 ** 31):
            for e in (("bin", "add", ("cast", cn, ("int", v)), ("int", 3)), ("bin", "shl", ("cast", cn, ("bin", "band", ("int", v), ("int", 12))), ("int", 2))):
                val = ev(e)
                if val is None:
                    continue
                name = "P%d_cast_%s" % (k, cn)
                lines.append("  %s = %s," % (name, exprgen.text(e)))
                items.append(("enum", name, e, val))
                k += 1
    for un in exprgen.UN:
        for v in (0, 1, 5, -7, 255, 2 ** 31 - 1):
            for e in (("un", un, ("int", v)), ("bin", "mul", ("un", un, ("int", v)), ("int", 2)), ("un", un, ("un", un, ("int", v)))):
                val = ev(e)
                if val is None:
                    continue
                name = "P%d_un_%s" % (k, un)
                lines.append("  %s = %s," % (name, exprgen.text(e)))
                items.append(("enum", name, e, val))
                k += 1
    lines.append("};")
    lines.append("struct Arrays {\n__published:\n  int unused_bound[1];\n};")
    return "\n".join(lines) + "\n", items


def redef_header(rng, n):
    """macros defined through other macros, where the referenced macro changes and the dependent one is stated again (identically, after
    #undef, or with another spelling): the recorded value is the one the compiler uses after the LAST definition.  Nothing a macro refers to
    changes after that macro's last definition, so its value is the same at every later point of the translation unit."""
    lines, items = [], []
    for k in range(n):
        a, b, c = "RA%d" % k, "RB%d" % k, "RC%d" % k
        form = rng.choice(["identical", "identical", "undef-define", "other-spelling", "unchanged-identical"])
        v1 = rng.randrange(0, 50)
        v2 = v1 if form == "unchanged-identical" else rng.choice([x for x in range(50) if x != v1])
        op, lit = rng.choice(["add", "mul", "sub", "shl", "bor", "bxor"]), rng.randrange(1, 9)
        op2, lit2 = rng.choice(["add", "mul", "sub"]), rng.randrange(1, 9)
        with_c = rng.random() < 0.5
        eb = lambda v, l=lit: ("bin", op, ("ref", a, v), ("int", l))
        ec = lambda vb: ("bin", op2, ("ref", b, vb), ("int", lit2))
        lines += ["#define %s %d" % (a, v1), "#define %s (%s)" % (b, exprgen.text(eb(v1)))]
        if with_c:
            lines.append("#define %s (%s)" % (c, exprgen.text(ec(0))))
        if form != "unchanged-identical":
            lines += ["#undef %s" % a, "#define %s %d" % (a, v2)]
        else:
            lines.append("#define %s %d" % (a, v2))
        fin = eb(v2)
        if form == "undef-define":
            lines.append("#undef %s" % b)
        elif form == "other-spelling":
            fin = eb(v2, lit + 1)
        lines.append("#define %s (%s)" % (b, exprgen.text(fin)))
        vb = exprgen.cxx_eval(fin)
        items.append(("macro", a, ("int", v2), v2))
        items.append(("macro", b, fin, vb))
        if with_c:
            lines.append("#define %s (%s)" % (c, exprgen.text(ec(vb))))
            items.append(("macro", c, ec(vb), exprgen.cxx_eval(ec(vb))))
        redef_header.forms[form] = redef_header.forms.get(form, 0) + 1
    lines.append("struct Arrays {\n__published:\n  int unused_bound[1];\n};")
    return "\n".join(lines) + "\n", items


redef_header.forms = {}


def run(ck):
    quick = ck.quick
    rng = ck.rng
    ch, err = c07_tables.main()
    ck.oblige("translator c07_tables.py read the precedence table, the expression productions and the operator switch", err is None, err or "")
    ck.lean_obligations("IgVerif.Props.C07", THEOREMS, PARTIAL)
    ck.trusted += ["tools/extract/c07_tables.py (regex over cppBison.yxx and the operator switch of CPPExpression::evaluate; compares code text by FNV-1a-64)",
                   "bison's LALR conflict resolution behaves as the declared precedence/associativity table says",
                   "g++ 12 as the reference for the value of a constant expression"]
    ck.trusted += ["Model/Literal.lean, Model/EnumVal.lean, Model/CharLit.lean are hand-written models of get_number / CPPEnumType::add_element / scan_escape_sequence+scan_quoted; "
                   "each is tied to the code only by its correspondence stream (literal / enumerator / character-literal values read from real databases)"]
    bdir = iglib.build_repo("std")
    lay = dbgen.Layouts()
    wd = workdir(ck)
    ck.rule = ("headers of const/constexpr variables, enumerators (explicit and implicit), object-like macros and array bounds whose initialisers are "
               "random integer constant expressions (depth<=4, boundary literals in every base incl. char literals and digit separators, references to "
               "earlier constants/enumerators, casts) that C++ defines within int; text printed with MINIMAL parentheses; values read from the -od "
               "database are compared with the Lean model's evaluate (correspondence) and with the values g++ prints (oracle); distinct = distinct expression text")
    try:
        n_hdr = 6 if quick else 150
        uneval = 0
        total = 0
        for n in range(n_hdr + 2):
            if n == n_hdr + 1:
                text, items = redef_header(rng, 12 if quick else 200)
                build_header.enums = {}
                ck.extra["macro_redefinition_forms"] = dict(redef_header.forms)
            elif n == n_hdr:
                text, items = pair_header()
                build_header.enums = {}
                ck.extra["operator_pairs_unparenthesised"] = len(items)
            else:
                text, items = build_header(rng, 30 if quick else 40)
            hp = wd / ("c%d.h" % n)
            hp.write_text(text)
            od = wd / ("c%d.in" % n)
            cmd = [str(bdir / "bin" / "interrogate"), "-D__cplusplus", "-promiscuous", "-oc", str(wd / "c.cxx"), "-od", str(od), "-module", "m", "-library", "l",
                   "-c", "-fnames", hp.name]
            rc, so, se = iglib.sh(cmd, cwd=str(wd), timeout=120, env={"SOURCE_DATE_EPOCH": "1"})
            files = {hp.name: text, "cmd.txt": " ".join(cmd) + "\n"}
            if rc != 0 or not od.exists():
                ck.search_case("values-equal-gxx")
                ck.violation("interrogate-fails", "interrogate failed (rc=%s) on a header of valid integer constant expressions: %s" % (rc, se[-300:]), files, se[-3000:])
                continue
            db = dbgen.dec_file(lay, od.read_bytes())
            got = {}
            for _, t in db["type"]:
                for ev in t["_enum_values"]:
                    got[ev["_name"].decode()] = ev["_value"]
            HASINT = lay.enums["manifest"]["F_has_int_value"]
            for _, m in db["manifest"]:
                if m["_flags"] & HASINT:
                    got[m["_name"].decode()] = m["_int_value"]
            ARR = lay.enums["type"]["F_array"]
            arr_types = dict((i, t) for i, t in db["type"] if t["_flags"] & ARR)
            for _, el in db["element"]:
                if el["_type"] in arr_types and arr_types[el["_type"]]["_array_size"] != -1:
                    got[el["_name"].decode()] = arr_types[el["_type"]]["_array_size"]
            # the reference: g++
            prog = '#include <cstdio>\n#define __published public\n#include "%s"\nint main() {\n' % hp.name
            for kind, name, e, v in items:
                if kind == "array":
                    prog += '  printf("%s %%d\\n", (int)(sizeof(Arrays::%s) / sizeof(int)));\n' % (name, name)
                else:
                    prog += '  printf("%s %%d\\n", (int)(%s));\n' % (name, name)
            prog += "  return 0;\n}\n"
            (wd / "ref.cpp").write_text(prog)
            rc, so, se = iglib.sh(["g++", "-std=c++17", "-w", "-o", str(wd / "ref"), str(wd / "ref.cpp")], cwd=str(wd), timeout=120)
            if rc != 0:
                ck.extra.setdefault("generator_rejected_by_gxx", []).append(se[-300:])
                continue
            rc, so, se = iglib.sh([str(wd / "ref")], timeout=20)
            ref = dict((l.split()[0], int(l.split()[1])) for l in so.strip().split("\n") if l)
            # implicit enumerator values: the Lean model of add_element on the written initialisers
            enames = sorted(build_header.enums)
            emodel = iglib.run_driver("enum", ["enum " + " ".join(t for _, t in build_header.enums[en]) for en in enames]) if enames else []
            for en, mline in zip(enames, emodel):
                mv = [int(x) for x in mline.split()]
                for (name, tok), m1 in zip(build_header.enums[en], mv):
                    if got.get(name) is not None:
                        ck.corr_case("enumerator-vs-add_element-model", "%s in %s: %s" % (name, en, " ".join(t for _, t in build_header.enums[en])), got[name] == m1,
                                     detail="enumerator %s: database %s, model %s" % (name, got[name], m1), feature=["implicit" if tok == "-" else "init-" + tok[0]])
            ops = ["eval " + exprgen.sexpr(e) for _, _, e, _ in items]
            model = iglib.run_driver("expr", ops)
            for (kind, name, e, v), mline in zip(items, model):
                total += 1
                mm = re.match(r"evaluate=(int (-?\d+)|error) cxx=(some (-?\d+)|none)", mline)
                mval = int(mm.group(2)) if mm and mm.group(2) is not None else None
                if kind == "const":
                    continue   # constants are observed through the items that refer to them
                gval = got.get(name)
                if gval is None:
                    uneval += 1
                etext = exprgen.text(e)
                ck.corr_case("db-value-vs-model", etext, gval == mval or gval is None,
                             detail="%s %s: database %s, model %s" % (kind, name, gval, mval), feature=[kind, "depth%d" % _depth(e)])
                ck.search_case("values-equal-gxx")
                if name in ref and ref[name] != v:
                    ck.extra.setdefault("generator_disagrees_with_gxx", []).append([etext, v, ref[name]])
                    continue
                if gval is not None and name in ref and gval != ref[name]:
                    ck.violation("wrong-constant:%s" % kind, "%s %s = %s is recorded as %d, the C++ compiler computes %d" % (kind, name, etext, gval, ref[name]), files)
        ck.extra["constants"] = total
        ck.extra["unevaluated_by_interrogate"] = uneval

        # ---- integer literals in every base, with digit separators: database value vs the Lean get_number model vs g++ ----------------
        lits = ["0", "7", "017", "0x1F", "0XfF", "0b101", "0B11", "1'000", "0xFF'FF", "0b1'01", "0'17", "12'34'5", "2147483647", "0x7fffffff", "0b1111111111111111111111111111111", "0xA'b'C"]
        for i in range(40 if quick else 1500):
            base = rng.choice(["dec", "hex", "bin", "oct"])
            digs = {"dec": "0123456789", "hex": "0123456789abcdefABCDEF", "bin": "01", "oct": "01234567"}[base]
            n = rng.randrange(1, {"dec": 9, "hex": 7, "bin": 30, "oct": 10}[base] + 1)
            ds = [rng.choice(digs) for _ in range(n)]
            if base == "dec" and ds[0] == "0":
                ds[0] = rng.choice("123456789")
            body = ds[0] + "".join((("'" if rng.random() < 0.3 else "") + d) for d in ds[1:])
            lits.append({"dec": "", "hex": rng.choice(["0x", "0X"]), "bin": rng.choice(["0b", "0B"]), "oct": "0"}[base] + body)
        lits = [l for l in dict.fromkeys(lits) if int(l.replace("'", ""), 0 if not re.match(r"^0[0-7']+$", l) else 8) <= 2147483647]
        text = "enum Lits {\n" + ",\n".join("  lit%d = %s" % (i, l) for i, l in enumerate(lits)) + "\n};\n"
        hp = wd / "lits.h"
        hp.write_text(text)
        od = wd / "lits.in"
        cmd = [str(bdir / "bin" / "interrogate"), "-D__cplusplus", "-promiscuous", "-oc", str(wd / "l.cxx"), "-od", str(od), "-module", "m", "-library", "l", "-c", "-fnames", hp.name]
        rc, so, se = iglib.sh(cmd, cwd=str(wd), timeout=120, env={"SOURCE_DATE_EPOCH": "1"})
        if rc != 0 or not od.exists():
            ck.violation("interrogate-fails:literals", "interrogate failed (rc=%s) on an enum of integer literals: %s" % (rc, se[-300:]), {hp.name: text, "cmd.txt": " ".join(cmd) + "\n"}, se[-3000:])
        else:
            db = dbgen.dec_file(lay, od.read_bytes())
            got = {}
            for _, t in db["type"]:
                for ev in t["_enum_values"]:
                    got[ev["_name"].decode()] = ev["_value"]
            model = iglib.run_driver("lit", ["lit " + (l + ",").encode().hex() for l in lits])
            for i, (l, m) in enumerate(zip(lits, model)):
                want = int(l.replace("'", ""), 8 if re.match(r"^0[0-7']+$", l) else 0)
                mv = int(m.split()[0]) if m != "none" else None
                gv = got.get("lit%d" % i)
                ck.corr_case("literal-vs-get_number-model", l, gv == mv, detail="database %s, model %s" % (gv, m), nontrivial=len(l) > 1,
                             feature=[m.split()[1] if m != "none" else "none", "separator" if "'" in l else "plain"])
                ck.search_case("values-equal-gxx")
                if gv != want:
                    ck.violation("wrong-constant:literal", "the literal %s is recorded as %s, its value is %d" % (l, gv, want), {hp.name: "enum Lits { lit%d = %s };\n" % (i, l)})

        # ---- character literals: database value vs the Lean scan_escape_sequence model vs g++ ---------------------------------------
        chars = ["A", "z", "0", " ", "~", "\"", "\\n", "\\t", "\\\\", "\\'", "\\\"", "\\?", "\\a", "\\b", "\\f", "\\r", "\\v", "\\e", "\\0", "\\7", "\\101", "\\377", "\\12",
                 "\\x41", "\\xff", "\\x7", "\\x041", "\\x0000041", "\\x0a", "\\xA"]
        for i in range(40 if quick else 800):
            kind = rng.choice(["plain", "oct", "hex", "hex"])
            if kind == "plain":
                c = chr(rng.randrange(32, 127))
                if c in "'\\":
                    continue
                chars.append(c)
            elif kind == "oct":
                chars.append("\\" + oct(rng.randrange(0, 256))[2:].rjust(rng.choice([1, 2, 3]), "0")[-3:])
            else:
                chars.append("\\x" + "0" * rng.choice([0, 0, 0, 1, 3]) + rng.choice(["%x", "%X"]) % rng.randrange(0, 256))
        chars = list(dict.fromkeys(chars))
        text = "enum Chars {\n" + ",\n".join("  ch%d = '%s'" % (i, c) for i, c in enumerate(chars)) + "\n};\n"
        hp = wd / "chars.h"
        hp.write_text(text)
        od = wd / "chars.in"
        cmd = [str(bdir / "bin" / "interrogate"), "-D__cplusplus", "-promiscuous", "-oc", str(wd / "l.cxx"), "-od", str(od), "-module", "m", "-library", "l", "-c", "-fnames", hp.name]
        rc, so, se = iglib.sh(cmd, cwd=str(wd), timeout=120, env={"SOURCE_DATE_EPOCH": "1"})
        (wd / "chars.cpp").write_text('#include <cstdio>\n#include "chars.h"\nint main() {\n' + "".join('  printf("%%d\\n", (int)ch%d);\n' % i for i in range(len(chars))) + "  return 0;\n}\n")
        rc2, so2, se2 = iglib.sh(["g++", "-std=c++17", "-w", "-o", str(wd / "chars"), str(wd / "chars.cpp")], cwd=str(wd), timeout=120)
        ref = [int(x) for x in iglib.sh([str(wd / "chars")], timeout=20)[1].split()] if rc2 == 0 else None
        if rc != 0 or not od.exists():
            ck.violation("interrogate-fails:char-literals", "interrogate failed (rc=%s) on an enum of character literals: %s" % (rc, se[-300:]), {hp.name: text, "cmd.txt": " ".join(cmd) + "\n"}, se[-3000:])
        elif ref is None:
            ck.extra.setdefault("generator_rejected_by_gxx", []).append(se2[-300:])
        else:
            db = dbgen.dec_file(lay, od.read_bytes())
            got = {}
            for _, t in db["type"]:
                for ev in t["_enum_values"]:
                    got[ev["_name"].decode()] = ev["_value"]
            model = iglib.run_driver("lit", ["chr " + (c + "'").encode().hex() for c in chars])
            for i, (c, m) in enumerate(zip(chars, model)):
                gv = got.get("ch%d" % i)
                form = "plain" if not c.startswith("\\") else "hex" if c[1] == "x" else "octal" if c[1].isdigit() else "simple"
                ck.corr_case("char-literal-vs-scan_escape_sequence-model", "'%s'" % c, gv == int(m), detail="database %s, model %s" % (gv, m), nontrivial=len(c) > 1, feature=["char-" + form])
                ck.search_case("values-equal-gxx")
                if gv != ref[i]:
                    ck.violation("wrong-constant:char-literal", "the character literal '%s' is recorded as %s, the C++ compiler computes %d" % (c, gv, ref[i]),
                                 {hp.name: "enum Chars { ch%d = '%s' };\n" % (i, c)})

        # ---- things interrogate cannot evaluate must come out unevaluated, not as numbers; and must not crash ------
        bad = "enum B { B0 = 1/0, B1 = 5 %% 0 };\n#define MB (1/0)\nstruct SB { __published: int x[some_unknown + 1]; };\nenum B2 { C0 = some_unknown, C1 };\n#define MU (some_unknown * 2)\n".replace("%%", "%")
        hp = wd / "bad.h"
        hp.write_text(bad)
        od = wd / "bad.in"
        cmd = [str(bdir / "bin" / "interrogate"), "-D__cplusplus", "-promiscuous", "-oc", str(wd / "b.cxx"), "-od", str(od), "-module", "m", "-library", "l", "-c", "-fnames", hp.name]
        rc, so, se = iglib.sh(cmd, cwd=str(wd), timeout=60)
        ck.search_case("unevaluable-not-a-number")
        if rc < 0 or rc > 1:
            ck.violation("crash-on-unevaluable", "interrogate died (rc=%s) on division by zero / unknown identifiers in constant expressions" % rc, {"bad.h": bad}, se[-2000:])
        elif od.exists():
            db = dbgen.dec_file(lay, od.read_bytes())
            nums = []
            for _, t in db["type"]:
                for ev in t["_enum_values"]:
                    nums.append((ev["_name"].decode(), ev["_value"]))
                if t["_flags"] & lay.enums["type"]["F_array"] and t["_array_size"] != -1:
                    nums.append(("array " + t["_name"].decode(), t["_array_size"]))
            for _, m in db["manifest"]:
                if m["_flags"] & lay.enums["manifest"]["F_has_int_value"]:
                    nums.append((m["_name"].decode(), m["_int_value"]))
            if nums:
                ck.violation("number-for-unevaluable", "constants that cannot be evaluated were recorded as numbers: %r" % nums, {"bad.h": bad})
    finally:
        shutil.rmtree(wd, ignore_errors=True)


def _depth(e):
    if e[0] in ("int", "bool", "ref", "unknown"):
        return 0
    return 1 + max(_depth(x) for x in e[1:] if isinstance(x, tuple))
