"""C02 — Python-native bindings dispatch, convert and own objects as C++ would."""
import re
import shutil
import subprocess
import sys
import sysconfig

import iglib
from extract import c02_keywords
from gen import pymodgen
from props.c12 import workdir

THEOREMS = ["IgVerif.C02.c02_keywords_cover", "IgVerif.C02.c02_rank_facts", "IgVerif.C02.c02_rank_order_gives_hsorted", "IgVerif.C02.c02_dispatch_unique", "IgVerif.C02.c02_dispatch_order_independent", "IgVerif.C02.c02_first_viable_is_best", "IgVerif.C02.c02_arity_gate",
            "IgVerif.C02.c02_no_viable_typeerror"]
PARTIAL = [("c02_module_behaviour (values, identity, constness, ownership, exceptions of every call sequence)",
            "the generated C and the py_panda runtime are not modelled; behaviour is decided per run by building real extension modules from generated class libraries "
            "and running generated Python test programs whose expected values are computed independently (the generator emits every C++ body also as a Python formula)"),
           ("coercion constructors, MAKE_SEQ, item assignment, nested classes", "only partly present in the generated libraries; the dispatch theorems assume overload sets whose members differ in some parameter category")]


def build_module(bdir, d, header, sources, modname, log):
    S = iglib.REPO
    cmd = [str(bdir / "bin" / "interrogate"), "-D__cplusplus", "-DCPPPARSER", "-oc", "out.cxx", "-od", "out.in", "-module", modname, "-library", modname, "-python-native", "-fnames",
           "-string", "-refcount", "-assert", "-I.", "-I%s/src/dtoolbase" % S, "-I%s/src/dtoolutil" % S, "-S%s/parser-inc" % S, header]
    rc, so, se = iglib.sh(cmd, cwd=str(d), timeout=180)
    log.append(" ".join(cmd))
    if rc != 0:
        return "interrogate", se
    cmd = [str(bdir / "bin" / "interrogate_module"), "-oc", "mod.cxx", "-module", modname, "-library", modname, "-python-native", "out.in"]
    rc, so, se = iglib.sh(cmd, cwd=str(d), timeout=180)
    log.append(" ".join(cmd))
    if rc != 0:
        return "interrogate_module", se
    inc = ["-I.", "-I" + sysconfig.get_paths()["include"], "-I" + str(iglib.VERIF / "shims"), "-I%s/src/interrogatedb" % S, "-I%s/src/dtoolbase" % S, "-I%s/src/dtoolutil" % S,
           "-I" + str(bdir / "include")]
    procs = []
    for f in ["out.cxx", "mod.cxx"] + sources:
        procs.append((f, subprocess.Popen(["g++", "-std=c++17", "-O0", "-fPIC", "-DHAVE_PYTHON", "-w", "-c", f] + inc, cwd=str(d), stderr=subprocess.PIPE)))
    for f, p in procs:
        err = p.communicate()[1].decode("utf-8", "replace")
        if p.returncode != 0:
            return "compile " + f, err
    objs = [re.sub(r"\.cxx$", ".o", f) for f in ["out.cxx", "mod.cxx"] + sources]
    rc, so, se = iglib.sh(["g++", "-shared", "-o", modname + ".so"] + objs, cwd=str(d), timeout=180)
    log.append("g++ -std=c++17 -O0 -fPIC -DHAVE_PYTHON -w -c {out,mod,...}.cxx <includes>; g++ -shared -o %s.so *.o" % modname)
    if rc != 0:
        return "link", se
    return None, ""


def run(ck):
    quick = ck.quick
    rng = ck.rng
    ch, err = c02_keywords.main()
    ck.oblige("translator c02_keywords.py read pythonKeywords[] and get_type_sort", err is None, err or "")
    ck.lean_obligations("IgVerif.Props.C02", THEOREMS, PARTIAL)
    import keyword
    lean_list = re.search(r"def python3Keywords : List String :=\s*\[(.*?)\]", (iglib.LEAN / "IgVerif" / "Props" / "C02.lean").read_text(), re.S)
    lean_kws = re.findall(r'"([^"]+)"', lean_list.group(1)) if lean_list else []
    ck.oblige("the keyword list the theorem quantifies over is keyword.kwlist of the running CPython", sorted(lean_kws) == sorted(keyword.kwlist),
              "Lean: %s\nCPython: %s" % (sorted(lean_kws), sorted(keyword.kwlist)))
    ck.trusted += ["tools/extract/c02_keywords.py", "CPython %s and g++ 12 (the module is really built and imported)" % sysconfig.get_config_var("VERSION"), "/verif/shims (stand-ins for pnotify.h, register_type.h, dconfig.h)",
                   "tools/gen/pymodgen.py: every C++ body is also emitted as a Python formula, the expected overload is fixed by construction (sets distinguishable by type category)"]
    bdir = iglib.build_repo("std")
    wd = workdir(ck)
    ck.rule = ("generated class libraries (inheritance chains; overload sets distinguishable by int/float/str/instance and by arity; trailing defaults; keyword "
               "arguments; const and non-const methods and parameters incl. an overloaded non-const pointer parameter; properties; ==, <, +, []; scoped and "
               "unscoped enums; keyword-named methods; by-value factories) built into real extension modules (-python-native + interrogate_module) and driven "
               "by generated Python programs: names and camelCase aliases, which overload and defaults run, returned values, TypeError on wrong count / type / "
               "constness, OverflowError on out-of-range integers with objects unchanged, base-class acceptance, live-object count after create/copy/drop; plus a "
               "reference-counting scenario with assertion failures during calls that return fresh objects; distinct = distinct (library, call)")
    try:
        for li in range(4 if quick else 80):
            classes = pymodgen.gen_module(rng)
            h, impl = pymodgen.header(classes)
            test = pymodgen.test_script(classes, rng)
            d = wd / ("mod%d" % li)
            d.mkdir()
            (d / "t.h").write_text(h)
            (d / "t.cxx").write_text(impl)
            (d / "test.py").write_text(test)
            log = []
            stage, err = build_module(bdir, d, "t.h", ["t.cxx"], "tmod", log)
            files = {"t.h": h, "t.cxx": impl, "test.py": test, "build.txt": "\n".join(log) + "\npython3 test.py\n"}
            ck.search_case("module-built")
            if stage:
                ck.violation("module-build-fails:" + stage.split()[0], "a generated class library cannot be turned into a module: %s fails" % stage, files, err[-3000:])
                continue
            p = subprocess.run([sys.executable, "test.py"], cwd=str(d), capture_output=True, text=True, timeout=300)
            m = re.search(r"checks=(\d+) failures=(\d+)", p.stdout)
            for _ in range(int(m.group(1)) if m else 0):
                ck.search_case("call-behaves-as-c++")
            # ---- which overload ran, against the Lean dispatch model ------------------------------------------------------------------------
            tables = pymodgen.dispatch_ops(classes)
            probes = re.findall(r"^DISPATCH (\w+) (\S+) (\S+)$", p.stdout, re.M)
            ops = ["%s %d %s" % (tables[cls], 0 if cats == "-" else len(cats.split(",")), "" if cats == "-" else " ".join(cats.split(","))) for cls, cats, got in probes]
            ans = iglib.run_driver("dispatch", [o.strip() for o in ops]) if ops else []
            for (cls, cats, got), want in zip(probes, ans):
                ck.corr_case("overload-dispatch-vs-model", "%s.over(%s)" % (cls, cats), got == want, detail="module ran %s, model %s\n%s" % (got, want, h), nontrivial=want != "TypeError",
                             feature=["typeerror" if want == "TypeError" else "runs", "args%d" % (0 if cats == "-" else len(cats.split(",")))])
            if p.returncode != 0 or not m or int(m.group(2)) != 0:
                bad = sorted(set(re.findall(r"^MISMATCH (.*?)(?: \(|$)", p.stdout, re.M)))
                kinds = sorted({re.sub(r"K\d+|k\d+", "K", b) for b in bad}) or ["interpreter ended with status %s" % p.returncode]
                ck.violation("module-differs:" + "+".join(k.replace(" ", "_") for k in kinds)[:90],
                             "a module built from -python-native output does not behave like the C++ it wraps: %s" % ("; ".join(bad[:5]) or kinds[0]), files, (p.stdout + p.stderr)[-3000:])
            shutil.rmtree(d, ignore_errors=True)
        # ---- reference counting + assertion failures -------------------------------------------------------------------------------------------
        src = iglib.VERIF / "corpus" / "C02" / "refcount"
        d = wd / "refcount"
        d.mkdir()
        for f in ("scene.h", "scene_impl.cxx", "test_scene.py"):
            shutil.copy(src / f, d / f)
        log = []
        stage, err = build_module(bdir, d, "scene.h", ["scene_impl.cxx"], "scene", log)
        files = {f: (src / f).read_text() for f in ("scene.h", "scene_impl.cxx", "test_scene.py")}
        files["build.txt"] = "\n".join(log) + "\npython3 test_scene.py\n"
        ck.search_case("module-built")
        if stage:
            ck.violation("module-build-fails:refcount:" + stage.split()[0], "the reference-counting scenario cannot be built: %s fails" % stage, files, err[-3000:])
        else:
            p = subprocess.run([sys.executable, "test_scene.py"], cwd=str(d), capture_output=True, text=True, timeout=300)
            oks = len(re.findall(r"^ok ", p.stdout, re.M))
            bad = re.findall(r"^FAIL (.*)$", p.stdout, re.M)
            for _ in range(oks + len(bad)):
                ck.search_case("refcount-scenario")
            if p.returncode != 0 or bad:
                ck.violation("refcount-scenario-differs", "reference-counted objects returned from calls that flag an error are not handled as C++ would: %s" % ("; ".join(bad[:4]) or "status %s" % p.returncode),
                             files, (p.stdout + p.stderr)[-3000:])
    finally:
        shutil.rmtree(wd, ignore_errors=True)
