"""C05 — the database describes every exported entity truthfully."""
import re
import shutil

import iglib
from gen import hdrgen
from props.c12 import workdir

THEOREMS = ["IgVerif.C05.c05_comment_adjacent", "IgVerif.C05.c05_comment_once", "IgVerif.C05.c05_comment_once_file", "IgVerif.C05.findIdx_spec",
            "IgVerif.C05.claim_preserves", "IgVerif.C05.claim_records"]
PARTIAL = [("c05_records_truthful (names, kinds, bases, roles, parameters, optional/this flags, return types of every entity)",
            "there is no formal semantics of the declarations to prove the record builders against; they are compared entity by entity with the ground truth "
            "of the generator that wrote the header (exploration), only the comment-attachment rule is a theorem"),
           ("comment capture across files / template instantiation", "the model covers one file in parse order")]

PRINTED = {"short": "short int", "unsigned short": "unsigned short int", "long": "long int", "unsigned long": "unsigned long int",
           "long long": "long long int", "unsigned long long": "unsigned long long int"}


def norm_ty(ty, cls_of_enum=None):
    ty = ty.strip()
    if ty in PRINTED:
        return PRINTED[ty]
    return ty


def wrapper_type(ty, cls=None, enums=()):
    """the type a -c wrapper records for a parameter / return value declared as `ty`"""
    ty = ty.strip()
    m = re.match(r"^const (.+?) ?([*&])$", ty)
    if m:
        return "%s const *" % norm_ty(m.group(1))
    m = re.match(r"^(.+?) ?([*&])$", ty)
    if m:
        return "%s *" % norm_ty(m.group(1))
    if ty in enums and cls:
        return "%s::%s" % (cls, ty)
    m = re.match(r"^Kind(\d+)$", ty)
    if m and wrapper_type.classes:       # the member enum of another (base) class, named in an overrider
        return "%s::%s" % (wrapper_type.classes[int(m.group(1))], ty)
    return norm_ty(ty)


wrapper_type.classes = []


def parse_dump(text):
    """types / functions (with wrappers and parameters) / elements of the -oh dump"""
    ents = {"type": {}, "function": {}, "element": {}}
    lines = text.split("\n")
    i = 0
    cur = None
    wr = None
    section = None
    while i < len(lines):
        line = lines[i]
        m = re.match(r'^(type|function|element) "(.*)" \{$', line)
        if m:
            cur = {"flags": [], "comment": [], "prototypes": [], "wrappers": [], "derivations": [], "members": {}, "props": {}}
            ents[m.group(1)][m.group(2)] = cur
            wr = None
            section = None
        elif line == "}":
            cur = None
        elif cur is not None:
            mw = re.match(r'^  \w+ wrapper "(.*)" \{$', line)
            if mw:
                wr = {"name": mw.group(1), "flags": [], "params": [], "props": {}, "comment": []}
                cur["wrappers"].append(wr)
                section = None
            elif line == "  }":
                wr = None
                section = None
            elif wr is not None:
                mp = re.match(r'^    parameter(?: "(.*?)")?(?: \((.*?)\))?: (.*)$', line)
                if mp:
                    wr["params"].append({"name": mp.group(1), "tags": (mp.group(2) or "").split(", ") if mp.group(2) else [], "type": mp.group(3)})
                else:
                    mk = re.match(r"^    (\w+): (.*)$", line)
                    if mk:
                        if mk.group(1) == "flags":
                            wr["flags"] = mk.group(2).split()
                        else:
                            wr["props"][mk.group(1)] = mk.group(2)
                        section = None
                    elif line.strip() == "comment:":
                        section = "wcomment"
                    elif section == "wcomment" and line.startswith("      "):
                        wr["comment"].append(line.strip())
            else:
                md = re.match(r'^  derivation "(.*)" \{$', line)
                mk = re.match(r"^  (\w+): (.*)$", line)
                mf = re.match(r"^    flags: (.*)$", line)
                if mf and section == "derivation":
                    cur.setdefault("derivation_flags", {})[cur["derivations"][-1]] = mf.group(1).split()
                elif md:
                    cur["derivations"].append(md.group(1))
                    cur.setdefault("derivation_flags", {})[md.group(1)] = []
                    section = "derivation"
                elif line.strip() == "comment:":
                    section = "comment"
                elif line.strip() == "prototype:":
                    section = "proto"
                elif mk and not line.startswith("    "):
                    section = None
                    if mk.group(1) == "flags":
                        cur["flags"] = mk.group(2).split()
                    elif mk.group(1) in ("method", "element", "constructor", "destructor", "type", "cast", "make_seq"):
                        cur["members"].setdefault(mk.group(1), []).append(mk.group(2))
                        cur["props"].setdefault(mk.group(1), mk.group(2))
                    else:
                        cur["props"][mk.group(1)] = mk.group(2)
                elif section == "comment" and line.startswith("    "):
                    cur["comment"].append(line.strip())
                elif section == "proto" and line.startswith("    ") and line.strip():
                    cur["prototypes"].append(line.strip().rstrip(";"))
                elif not line.strip():
                    section = None if section != "comment" else section
        i += 1
    return ents


def effective_virtual(h, c, m):
    """[class.virtual]: declared virtual, or same name, parameter types and constness as a virtual function of a direct or indirect base"""
    if m.virtual:
        return True
    if m.static or m.kind != "method":
        return False
    sig = (m.name, tuple(p.ty for p in m.params), m.const)
    for bn, _, _ in c.bases:
        bc = next(x for x in h.classes if x.name == bn)
        for bm in bc.methods():
            if bm.kind == "method" and not bm.static and (bm.name, tuple(p.ty for p in bm.params), bm.const) == sig and effective_virtual(h, bc, bm):
                return True
        probe = hdrgen.Method(m.name, m.ret, m.params, m.section, const=m.const)
        if effective_virtual(h, bc, probe):
            return True
    return False


def add_scenarios(rng, h):
    """overloads on reference constness with comments; a published override of a merely public base virtual"""
    extra = ""
    truth = []
    if h.classes:
        k = h.classes[0].name
        extra += "class Visitor {\n__published:\n  /** short */\n  void visit(const %s &node);\n  /** the longer comment of the two overloads */\n  void visit(%s &node);\n" % (k, k)
        extra += "  void exchange(%s &a, %s &b);\n  void exchange(%s &a, const %s &b);\n};\n" % (k, k, k, k)
        truth.append(("overloads", "Visitor::visit", [["%s const *" % k], ["%s *" % k]], ["short", "the longer comment of the two overloads"]))
        truth.append(("overloads", "Visitor::exchange", [["%s *" % k, "%s *" % k], ["%s *" % k, "%s const *" % k]], None))
    extra += "class PlainBase {\npublic:\n  virtual int vm(int a);\n  virtual ~PlainBase();\n__published:\n  int other();\n};\n"
    extra += "class PubDerived : public PlainBase {\n__published:\n  /** override doc */\n  virtual int vm(int a);\n  int more();\n};\n"
    truth.append(("present", "PubDerived::vm", None, ["override doc"]))
    # overriders that do not repeat `virtual`, reached through bases of every access (and through `class D : B`, private by default)
    extra += "class VBase {\npublic:\n  VBase();\n  virtual ~VBase();\n  virtual int vread();\n  virtual void vrewind();\n  virtual bool vend() const;\n  int plain();\n};\n"
    acc = rng.choice(["public ", "protected ", "private ", ""])
    extra += "class NpDerived : %sVBase {\n__published:\n  NpDerived();\n  int vread();\n  void vrewind() override;\n  bool vend() const;\n  int own() const;\n  int plain();\n};\n" % acc
    acc2 = rng.choice(["public ", "protected ", "private "])
    extra += "class NpDeep : %sNpDerived {\n__published:\n  NpDeep();\n  int vread();\n  int own() const;\n  bool vend();\n};\n" % acc2
    # every comparison / assignment operator with its true return type; scoped enums in every spelling
    extra += ("class Version {\n__published:\n  Version();\n  bool operator <= (const Version &o) const;\n  bool operator >= (const Version &o) const;\n"
              "  bool operator < (const Version &o) const;\n  bool operator > (const Version &o) const;\n  bool operator == (const Version &o) const;\n"
              "  bool operator != (const Version &o) const;\n  Version &operator = (const Version &o);\n  Version &operator += (int k);\n  Version &operator <<= (int k);\n"
              "  Version &operator >>= (int k);\n  Version operator + (const Version &o) const;\n  int operator - (const Version &o) const;\n  bool operator ! () const;\n};\n")
    for op, ret in [("<=", "bool"), (">=", "bool"), ("<", "bool"), (">", "bool"), ("==", "bool"), ("!=", "bool"), ("=", "Version *"), ("+=", "Version *"), ("<<=", "Version *"),
                    (">>=", "Version *"), ("+", "Version *"), ("-", "int"), ("!", "bool")]:
        truth.append(("return", "Version::operator " + op, ret, None))
    truth.append(("proto", "Version::operator =", "Version &Version::operator =(Version const &o)", None))
    truth.append(("proto", "Version::operator <=", "bool Version::operator <=(Version const &o) const", None))
    truth.append(("proto", "Version::operator +", "Version Version::operator +(Version const &o) const", None))
    extra += ("__begin_publish\nenum struct Blend { B_a, B_b };\nenum class Mix { M_a };\nenum Plain { P_a };\n__end_publish\n"
              "class Pen {\n__published:\n  enum struct Cap { butt, round };\n  enum class Join { miter };\n  enum Old { o0 };\n  Cap get_cap() const;\n};\n")
    for tname, scoped in [("Blend", True), ("Mix", True), ("Plain", False), ("Pen::Cap", True), ("Pen::Join", True), ("Pen::Old", False)]:
        truth.append(("scoped-enum", tname, scoped, None))
    # virtual inheritance in both spellings of the base-specifier, beside ordinary bases: cast availability per derivation
    extra += ("class VRoot {\n__published:\n  int vroot();\n};\nclass VOther {\n__published:\n  int vother();\n};\n"
              "class VPubVirt : public virtual VRoot {\n__published:\n  int a1();\n};\nclass VVirtPub : virtual public VRoot {\n__published:\n  int a2();\n};\n"
              "class VPlain : public VRoot {\n__published:\n  int a3();\n};\nclass VMixed : public VOther, public virtual VRoot {\n__published:\n  int a4();\n};\n"
              "class VMixed2 : virtual public VRoot, public VOther {\n__published:\n  int a5();\n};\n")
    for cls, base, virt in [("VPubVirt", "VRoot", True), ("VVirtPub", "VRoot", True), ("VPlain", "VRoot", False), ("VMixed", "VRoot", True), ("VMixed", "VOther", False),
                            ("VMixed2", "VRoot", True), ("VMixed2", "VOther", False)]:
        truth.append(("derivation", cls, (base, virt), None))
    for name, virt in [("NpDerived::vread", True), ("NpDerived::vrewind", True), ("NpDerived::vend", True), ("NpDerived::own", False), ("NpDerived::plain", False),
                       ("NpDeep::vread", True), ("NpDeep::own", False), ("NpDeep::vend", False)]:
        truth.append(("virtual", name, virt, None))
    return extra, truth


def gen_comment_file(rng):
    """declarations and comments at chosen relative positions; returns text, comments (last line, marker) in file order, decl (line, name)"""
    lines = ["class CM {", "__published:"]
    comments = []
    decls = []
    expect = {}     # what the property demands, by construction: the comment written immediately before the declaration, or none
    n = 0
    for k in range(rng.randrange(4, 10)):
        name = "cf%d" % k
        form = rng.randrange(7)
        marker = "doc-%d" % k
        if rng.random() < 0.3:
            # a conditional block with a skipped branch (whose comments and declarations do not exist) before this declaration
            skipped = ["  /** skipped-%d */" % k, "  void skipped%d();" % k]
            lines += rng.choice([
                ["#if 0"] + skipped + ["#elif 1", "#endif"],
                ["#if 0"] + skipped + ["#else", "#endif"],
                ["#ifdef GEN_NOT_DEFINED"] + skipped + ["#endif"],
                ["#if 0"] + skipped + ["#elif 0"] + skipped + ["#elif 1", "#endif"],
                ["#if 1", "#else"] + skipped + ["#endif"],
                ["#ifndef GEN_NOT_DEFINED", "#elif 1"] + skipped + ["#endif"],
                ["#if 0"] + skipped + ["#elif defined(GEN_NOT_DEFINED)"] + skipped + ["#else", "#endif"],
            ])
        if form == 0:       # comment on the line before
            lines.append("  /** %s */" % marker)
            comments.append((len(lines), marker))
            lines.append("  void %s();" % name)
        elif form == 1:     # comment on the same line, before the declaration
            lines.append("  /** %s */ void %s();" % (marker, name))
            comments.append((len(lines), marker))
        elif form == 2:     # multi-line comment ending on the line before
            lines.append("  /**")
            lines.append("   * %s" % marker)
            lines.append("   */")
            comments.append((len(lines), marker))
            lines.append("  void %s();" % name)
        elif form == 3:     # a blank line between comment and declaration: not attached
            lines.append("  /** %s */" % marker)
            comments.append((len(lines), marker))
            lines.append("")
            lines.append("  void %s();" % name)
        elif form == 4:     # no comment
            lines.append("  void %s();" % name)
        elif form == 5:     # // comment on the line before
            lines.append("  // %s" % marker)
            comments.append((len(lines), marker))
            lines.append("  void %s();" % name)
        else:               # two comments in a row: the nearer one wins
            lines.append("  /** far-%s */" % marker)
            comments.append((len(lines), "far-" + marker))
            lines.append("  /** %s */" % marker)
            comments.append((len(lines), marker))
            lines.append("  void %s();" % name)
        decls.append((len(lines), name))
        expect[name] = None if form in (3, 4) else marker
    lines.append("};")
    gen_comment_file.expect = expect
    return "\n".join(lines) + "\n", comments, decls


def run(ck):
    quick = ck.quick
    rng = ck.rng
    ck.lean_obligations("IgVerif.Props.C05", THEOREMS, PARTIAL)
    ck.trusted += ["tools/gen/hdrgen.py as the holder of the ground truth (it wrote the header)", "interrogate -oh as the channel through which the database is read (C12/C20 tie the dump to the query interface)"]
    bdir = iglib.build_repo("std")
    wd = workdir(ck)
    ck.rule = ("G-hdr headers (classes with bases, static/const/virtual methods, trailing defaults, data members, enums, comments) plus overloads on reference "
               "constness and a published override of a merely public base virtual, under default options and -promiscuous: every class / method / "
               "constructor / data member / free function compared with the generator's ground truth — scoped name, bases, virtual role, one wrapper per "
               "omitted default, ordered parameter names and types, optional and this flags, constness of this, return type, comments; comment placement "
               "files additionally against the Lean claimAll model; distinct = distinct (header, entity)")
    try:
        for r in range(10 if quick else 300):
            h = hdrgen.gen_header(rng, n_classes=rng.randrange(2, 5), sections=("__published", "public"), allow_cstr=False)      # (the -c back-end makes no wrapper for char const * without -string)
            wrapper_type.classes = [c.name for c in h.classes]
            extra, scen = add_scenarios(rng, h)
            text = h.text().replace("#endif\n", extra + "#endif\n")
            (wd / "g.h").write_text(text)
            for opts in ([], ["-promiscuous"]):
                min_pub = not opts
                cmd = [str(bdir / "bin" / "interrogate"), "-D__cplusplus", "-oc", "o.cxx", "-od", "o.in", "-oh", "o.txt", "-module", "m", "-library", "l", "-c", "-fnames"] + opts + ["g.h"]
                rc, so, se = iglib.sh(cmd, cwd=str(wd), timeout=120)
                if rc != 0:
                    # the generator writes valid C++ only: a run that fails describes none of the exported entities
                    ck.extra["interrogate_failed"] = ck.extra.get("interrogate_failed", 0) + 1
                    ck.search_case("header-processed")
                    ck.violation("interrogate-fails", "interrogate %s exits %s on a valid generated header: %s" % (" ".join(opts), rc, se.strip().split("\n")[0][:200] if se.strip() else ""),
                                 {"g.h": text, "cmd.txt": " ".join(cmd) + "\n"}, se[-2000:])
                    continue
                d = parse_dump((wd / "o.txt").read_text(errors="replace"))
                files = {"g.h": text, "cmd.txt": " ".join(cmd) + "\n"}

                def bad(key, what, detail=""):
                    ck.violation(key, what, files, detail)

                for c in h.classes:
                    enums = [e.name for e in c.enums()]
                    exported = [it for it in c.items if not min_pub or it.section == "__published"]
                    t = d["type"].get(c.name)
                    ck.search_case("class-recorded-truthfully")
                    if t is None:
                        if exported:
                            bad("class-missing", "class %s has exported members but no type entry" % c.name)
                        continue
                    want_bases = sorted(b for b, a, v in c.bases if a == "public")
                    if sorted(t["derivations"]) != want_bases:
                        bad("bases-differ", "class %s: recorded bases %s, declared public bases %s" % (c.name, sorted(t["derivations"]), want_bases))
                    # cast availability: a virtual base can be reached (upcast helper) but never cast back from; a non-virtual one can
                    for b, a, v in c.bases:
                        fl = t.get("derivation_flags", {}).get(b)
                        if a != "public" or fl is None:
                            continue
                        if v and ("downcast_impossible" not in fl or "upcast" not in fl):
                            bad("virtual-base-casts", "class %s: virtual public base %s is recorded with cast flags %s (expected an upcast helper and downcast_impossible)" % (c.name, b, fl))
                        if not v and "downcast_impossible" in fl:
                            bad("virtual-base-casts", "class %s: non-virtual base %s is recorded with downcast_impossible" % (c.name, b))
                    cm = " ".join(t["comment"])
                    if (c.comment or "") not in cm or (not c.comment and cm):
                        bad("class-comment", "class %s: recorded comment %r, written %r" % (c.name, cm, c.comment))
                    for m in c.methods():
                        if m not in exported or m.deleted:
                            continue
                        if m.kind == "ctor" and m.params and m.params[0].name == "src":
                            # copy-constructor role: exactly if every parameter after the first has a default argument
                            fnc = d["function"].get("%s::%s" % (c.name, c.name))
                            is_copy = all(q.default is not None for q in m.params[1:])
                            ck.search_case("constructor-role")
                            for w in (fnc["wrappers"] if fnc else []):
                                if w["params"] and w["params"][0]["name"] == "src" and ("copy_constructor" in w["flags"]) != is_copy:
                                    bad("copy-constructor-role", "%s::%s(%s): the wrapper taking %d argument(s) has flags %s; the constructor is %s copy constructor" % (
                                        c.name, c.name, ", ".join(q.decl() for q in m.params), len(w["params"]), w["flags"], "a" if is_copy else "not a"))
                        if m.kind != "method":
                            continue
                        fn = d["function"].get("%s::%s" % (c.name, m.name))
                        ck.search_case("method-recorded-truthfully")
                        if fn is None:
                            # an override of a published virtual of the single public base is represented by the base's entry
                            if len(c.bases) == 1:
                                continue
                            bad("method-missing", "method %s::%s (%s) is exported but has no function entry" % (c.name, m.name, m.section))
                            continue
                        ev = effective_virtual(h, c, m)
                        if ev != ("virtual" in fn["flags"]):
                            bad("virtual-flag", "%s::%s is %s; recorded flags %s" % (c.name, m.name, "declared virtual" if m.virtual else
                                "virtual because it overrides a virtual function of a base class" if ev else "not virtual", fn["flags"]))
                        nd = m.n_defaults()
                        if len(fn["wrappers"]) != nd + 1:
                            bad("wrapper-count", "%s::%s has %d trailing defaults; %d wrappers recorded" % (c.name, m.name, nd, len(fn["wrappers"])))
                            continue
                        full = max(fn["wrappers"], key=lambda w: len(w["params"]))
                        ps = list(full["params"])
                        if not m.static:
                            if not ps or "this" not in ps[0]["tags"]:
                                bad("this-flag", "%s::%s is a non-static method; first recorded parameter %s" % (c.name, m.name, ps[:1]))
                                continue
                            want_this = "%s const *" % c.name if m.const else "%s *" % c.name
                            if ps[0]["type"] != want_this:
                                bad("this-type", "%s::%s: this recorded as %s, expected %s" % (c.name, m.name, ps[0]["type"], want_this))
                            ps = ps[1:]
                        elif ps and "this" in ps[0]["tags"]:
                            bad("this-flag", "static %s::%s records a this parameter" % (c.name, m.name))
                        got = [(p["name"], p["type"], "optional" in p["tags"]) for p in ps]
                        want = [(p.name, wrapper_type(p.ty, c.name, enums), p.default is not None) for p in m.params]
                        ck.corr_case("parameters-vs-ground-truth", "%s::%s" % (c.name, m.name), got == want, detail="recorded %s\ndeclared %s" % (got, want), nontrivial=bool(want),
                                     feature=["defaults%d" % nd, "static" if m.static else "const" if m.const else "plain"])
                        if got != want:
                            bad("parameters-differ", "%s::%s: recorded parameters %s, declared %s" % (c.name, m.name, got, want))
                        has_ret = m.ret != "void"
                        if ("has_return" in full["flags"]) != has_ret:
                            bad("has-return", "%s::%s returns %s; wrapper flags %s" % (c.name, m.name, m.ret, full["flags"]))
                        if has_ret and full["props"].get("return_type") != wrapper_type(m.ret, c.name, enums):
                            bad("return-type", "%s::%s returns %s; recorded return_type %s" % (c.name, m.name, m.ret, full["props"].get("return_type")))
                        cm = " ".join(fn["comment"]) + " " + " ".join(" ".join(w["comment"]) for w in fn["wrappers"])
                        if m.comment and m.comment not in cm:
                            bad("comment-lost", "%s::%s: its comment %r is not recorded (%r)" % (c.name, m.name, m.comment, cm.strip()))
                        if not m.comment and ("doc of" in cm or "field doc" in cm or "class comment" in cm):
                            bad("comment-misattached", "%s::%s has no comment but records %r" % (c.name, m.name, cm.strip()))
                    for f in c.fields():
                        if f not in exported:
                            continue
                        el = d["element"].get("%s::%s" % (c.name, f.name))
                        ck.search_case("member-recorded-truthfully")
                        if el is None:
                            bad("element-missing", "data member %s::%s (%s) has no element entry" % (c.name, f.name, f.section))
                            continue
                        if el["props"].get("type") != norm_ty(f.ty):
                            bad("element-type", "%s::%s is declared %s; recorded type %s" % (c.name, f.name, f.ty, el["props"].get("type")))
                        clash = any(mm.name == "get_" + f.name.lstrip("_") for mm in c.methods())     # the class has its own get_<name>(): no accessor is synthesised
                        if "has_getter" not in el["flags"] and not clash:
                            bad("element-getter", "%s::%s records no getter" % (c.name, f.name))
                        cm = " ".join(el["comment"])
                        if (f.comment or "") not in cm or (not f.comment and cm):
                            bad("element-comment", "%s::%s: recorded comment %r, written %r" % (c.name, f.name, cm, f.comment))
                for fobj, published in h.functions:
                    if min_pub and not published:
                        continue
                    fn = d["function"].get(fobj.name)
                    ck.search_case("function-recorded-truthfully")
                    if fn is None:
                        bad("function-missing", "free function %s is exported but has no entry" % fobj.name)
                        continue
                    full = max(fn["wrappers"], key=lambda w: len(w["params"])) if fn["wrappers"] else {"params": [], "flags": [], "props": {}}
                    got = [(p["name"], p["type"]) for p in full["params"]]
                    want = [(p.name, wrapper_type(p.ty)) for p in fobj.params]
                    if got != want:
                        bad("parameters-differ", "%s: recorded parameters %s, declared %s" % (fobj.name, got, want))
                # ---- scenarios -------------------------------------------------------------------------------------------------------------
                for kind, name, sigs, comments in scen:
                    if kind == "scoped-enum":
                        t = d["type"].get(name)
                        ck.search_case("scenario-" + kind)
                        if t is None:
                            bad("scenario-missing:" + name, "the published enum %s has no type entry" % name)
                        elif ("scoped_enum" in t["flags"]) != sigs or "enum" not in t["flags"]:
                            bad("enum-kind:" + name, "%s is %s; recorded flags %s" % (name, "a scoped enum" if sigs else "an unscoped enum", t["flags"]))
                        continue
                    if kind == "derivation":
                        t = d["type"].get(name)
                        ck.search_case("scenario-" + kind)
                        fl = (t or {}).get("derivation_flags", {}).get(sigs[0])
                        if fl is None:
                            bad("scenario-missing:" + name, "class %s has no derivation record for its public base %s" % (name, sigs[0]))
                        elif sigs[1] and ("downcast_impossible" not in fl or "upcast" not in fl):
                            bad("virtual-base-casts", "class %s: virtual public base %s is recorded with cast flags %s (expected an upcast helper and downcast_impossible)" % (name, sigs[0], fl))
                        elif not sigs[1] and "downcast_impossible" in fl:
                            bad("virtual-base-casts", "class %s: non-virtual base %s is recorded with downcast_impossible" % (name, sigs[0]))
                        continue
                    fn = d["function"].get(name)
                    ck.search_case("scenario-" + kind)
                    if fn is None and kind == "virtual":
                        continue
                    if fn is None:
                        bad("scenario-missing:" + name, "%s is published but has no function entry (%s)" % (name, " ".join(opts) or "default options"))
                        continue
                    if kind == "proto":
                        if sigs not in [re.sub(r"^(inline |static |virtual )+", "", p0) for p0 in fn["prototypes"]]:
                            bad("prototype:" + name.split()[-1], "%s is declared `%s`; recorded prototypes %s" % (name, sigs, fn["prototypes"]))
                    elif kind == "return":
                        for w in fn["wrappers"]:
                            got_ret = w["props"].get("return_type") if "has_return" in w["flags"] else "void"
                            if got_ret != sigs:
                                bad("return-type:" + name.split()[-1], "%s returns %s; recorded return type %s" % (name, sigs, got_ret))
                    elif kind == "virtual":
                        if fn is not None and ("virtual" in fn["flags"]) != sigs:
                            bad("virtual-flag", "%s is %s; recorded flags %s" % (name, "virtual: it overrides a virtual function of a (non-public or indirect) base class" if sigs
                                                                               else "not virtual", fn["flags"]))
                    elif sigs is not None:
                        got = sorted([p["type"] for p in w["params"] if "this" not in p["tags"]] for w in fn["wrappers"])
                        if got != sorted(sigs):
                            bad("overloads-differ:" + name, "%s: recorded overload parameter types %s, declared %s" % (name, got, sorted(sigs)))
                        if comments:
                            for w in fn["wrappers"]:
                                sig = [p["type"] for p in w["params"] if "this" not in p["tags"]]
                                if sig in sigs:
                                    want_c = comments[sigs.index(sig)]
                                    wc = " ".join(w["comment"]) or " ".join(fn["comment"])
                                    others = [c for c in comments if c != want_c]
                                    if want_c not in wc or any(o in " ".join(w["comment"]) for o in others):
                                        bad("overload-comment:" + name, "%s%s: recorded comment %r, written %r" % (name, sig, wc, want_c))
                    elif comments:
                        cm = " ".join(fn["comment"]) + " ".join(" ".join(w["comment"]) for w in fn["wrappers"])
                        if comments[0] not in cm:
                            bad("scenario-comment:" + name, "%s: comment %r not recorded (%r)" % (name, comments[0], cm))

        # ---- comment placement against the Lean model -----------------------------------------------------------------------------------------
        for r in range(15 if quick else 600):
            text, comments, decls = gen_comment_file(rng)
            (wd / "cm.h").write_text(text)
            cmd = [str(bdir / "bin" / "interrogate"), "-D__cplusplus", "-oc", "o.cxx", "-od", "o.in", "-oh", "o.txt", "-module", "m", "-library", "l", "-c", "-fnames", "cm.h"]
            rc, so, se = iglib.sh(cmd, cwd=str(wd), timeout=120)
            if rc != 0:
                continue
            d = parse_dump((wd / "o.txt").read_text(errors="replace"))
            rev = list(reversed(comments))
            op = "claim %d %s %s" % (len(rev), " ".join(str(l) for l, _ in rev), " ".join(str(l) for l, _ in decls))
            log = iglib.run_driver("comments", [op.replace("  ", " ")])[0].split()
            for (line, name), entry in zip(decls, log):
                idx = entry.split(":")[1]
                want = rev[int(idx)][1] if idx != "-" else None
                fn = d["function"].get("CM::" + name)
                cm = (" ".join(fn["comment"]) + " " + " ".join(" ".join(w["comment"]) for w in fn["wrappers"])).strip() if fn else "<no entry>"
                got = re.findall(r"(?:far-)?doc-\d+", cm)
                got = got[0] if got else None
                ck.corr_case("comment-attachment-vs-model", "%s in\n%s" % (name, text), got == want, detail="recorded %r, model %r" % (got, want), nontrivial=True,
                             feature="attached" if want else "none")
                # the property itself: the comment must be one that immediately precedes this declaration, and no comment may be used twice
                ck.search_case("comment-precedes-and-once")
                must = gen_comment_file.expect[name]
                if got != must and want == must:
                    ck.violation("comment-lost" if must else "comment-misattached", "%s: the comment immediately before it is %r, the database records %r" % (name, must, got),
                                 {"cm.h": text}, "")
            used = {}
            for (line, name), entry in zip(decls, log):
                fn = d["function"].get("CM::" + name)
                cm = (" ".join(fn["comment"]) + " " + " ".join(" ".join(w["comment"]) for w in fn["wrappers"])) if fn else ""
                for mk in re.findall(r"(?:far-)?doc-\d+", cm):
                    if mk in used and used[mk] != name:
                        ck.violation("comment-attached-twice", "the comment %s documents both %s and %s" % (mk, used[mk], name), {"cm.h": text}, "")
                    used[mk] = name
    finally:
        shutil.rmtree(wd, ignore_errors=True)
