"""C08 — macro expansion yields the token sequence a conforming preprocessor yields."""
import re
import shutil
import subprocess

import iglib
from gen import macgen
from props.c12 import workdir

THEOREMS = ["IgVerif.C08.c08_literal_opaque", "IgVerif.C08.c08_literal_body", "IgVerif.C08.c08_stringify_param", "IgVerif.C08.c08_identity_param", "IgVerif.C08.c08_param_substitution", "IgVerif.C08.c08_hash_any_param", "IgVerif.C08.c08_paste_params", "IgVerif.C08.c08_va_args_join", "IgVerif.C08.c08_hash_va_args", "IgVerif.Exp.save_literal", "IgVerif.Exp.takeLit_clean",
            "IgVerif.C08.c08_stringify_roundtrip", "IgVerif.C08.c08_stringify_delimited", "IgVerif.C08.go_reads_back", "IgVerif.C08.step_reads_back"]
PARTIAL = [("c08_conforms (tokens of interrogate's expansion = tokens of a conforming preprocessor, for every macro program)",
            "theorems cover the # operator (round trip of stringify) and one level of expansion (Model/Expand.lean = save_expansion + r_expand: literals are opaque, "
            "a literal body expands to itself, #param is stringify(argument)); that model is tied to the real code on single-macro programs; __VA_OPT__, argument "
            "collection, rescanning (expand_manifests) and the directive handling are explored per run against gcc -E on generated macro programs"),
           ("blue paint (hide sets)", "interrogate expands on strings and cannot remember that a token was already exempted from expansion: known finding")]

MODES = [("object-like+self-reference", ("obj", "self", "undef", "push", "literals")),
         ("function-like", ("obj", "fn", "multiline", "undef", "push", "literals")),
         ("stringify", ("obj", "fn", "hash", "literals")),
         ("paste", ("obj", "fn", "paste", "literals")),
         ("variadic", ("obj", "fn", "va", "vaopt", "hash", "paste", "literals")),
         ("everything-but-self", ("obj", "fn", "hash", "paste", "va", "vaopt", "undef", "push", "multiline", "literals"))]

BAD_PPNUM = re.compile(r"^\.?\d")


def odd_number(tok):
    if not BAD_PPNUM.match(tok):
        return False
    return not re.fullmatch(r"0|[1-9]\d*|\d+\.\d+", tok)       # also 00 / 01 from pasting digits: parse_file -E prints the value


def squeeze_literals(toks):
    return [re.sub(r"\s+", "", t) if t[:1] == '"' else t for t in toks]


def run_pair(bdir, wd, text):
    (wd / "m.h").write_text(text)
    g = subprocess.run(["gcc", "-E", "-P", "-x", "c", "-std=gnu2x", "m.h"], cwd=wd, capture_output=True, text=True)
    if g.returncode != 0:
        return None
    try:
        r = subprocess.run([str(bdir / "bin" / "parse_file"), "-E", "m.h"], cwd=wd, capture_output=True, text=True, timeout=20)
    except subprocess.TimeoutExpired:
        return ("hang", g.stdout, "", "")
    if r.returncode < 0 or r.returncode >= 126:
        return ("crash%d" % r.returncode, g.stdout, r.stdout, r.stderr)
    return ("ok", g.stdout, r.stdout, r.stderr)


def run(ck):
    quick = ck.quick
    rng = ck.rng
    ck.lean_obligations("IgVerif.Props.C08", THEOREMS, PARTIAL)
    ck.trusted += ["gcc 12 -E -P -std=gnu2x as the conforming preprocessor", "tools/gen/macgen.py (programs gcc rejects are dropped and counted; tokens are compared after "
                   "re-lexing both outputs with one tokenizer; numbers are kept in canonical spelling because parse_file -E prints them by value)"]
    ck.trusted += ["Model/Macro.lean and Model/Expand.lean are hand-written models of CPPManifest::stringify / save_expansion / r_expand (without __VA_OPT__ and rescans), tied to the code "
                   "by the #-argument stream and the single-macro stream only"]
    bdir = iglib.build_repo("std")
    wd = workdir(ck)
    ck.rule = ("macro programs from a feature grammar — object-like with self and mutual reference, function-like with nested / multi-line / empty / "
               "parenthesised-comma arguments, #, ##, __VA_ARGS__, ', ## __VA_ARGS__', __VA_OPT__, #undef + redefinition, push_macro/pop_macro, literals with "
               "quotes and escapes — through parse_file -E and gcc -E -P, token by token; the # operator additionally against the Lean model; distinct = distinct program")
    try:
        per_mode = 60 if quick else 1500
        for mode, allow in MODES:
            done = 0
            tries = 0
            while done < per_mode and tries < per_mode * 4:
                tries += 1
                p = macgen.gen_program(rng, allow=allow)
                text = macgen.text(p)
                res = run_pair(bdir, wd, text)
                if res is None:
                    ck.extra["rejected_by_gcc"] = ck.extra.get("rejected_by_gcc", 0) + 1
                    continue
                status, gout, rout, rerr = res
                a, b = macgen.tokenize(gout), macgen.tokenize(rout)
                if any(odd_number(t) for t in a):
                    ck.extra["skipped_odd_pp_number"] = ck.extra.get("skipped_odd_pp_number", 0) + 1
                    continue            # e.g. 7alpha from pasting: parse_file -E prints numbers by value, the spelling is not observable
                done += 1
                ck.search_case("tokens-equal-gcc:" + mode)
                if status != "ok":
                    ck.violation("expansion-%s" % status, "parse_file -E %s on a macro program gcc preprocesses" % status, {"m.h": text}, rerr[-2000:])
                    continue
                if a == b:
                    continue
                feats = "+".join(sorted(p.features))
                # the first differing statement, and the macros defined where it stands
                ga, rb = gout.split(";"), rout.split(";")
                where = next((i for i, (x, y) in enumerate(zip(ga, rb)) if macgen.tokenize(x) != macgen.tokenize(y)), -1)
                gstmt = macgen.tokenize(ga[where]) if where >= 0 else a
                live = p.live.get(gstmt[0] if gstmt else "", p.macros)
                unexpanded = [t for i, t in enumerate(gstmt[1:], 1) if t in live and (live[t][0] is None or (i + 1 < len(gstmt) and gstmt[i + 1] == "("))]
                if unexpanded:
                    # gcc left a macro name unexpanded (it was exempt from expansion when it was produced): interrogate keeps no hide sets
                    ck.violation("known:blue-paint", "a macro name that gcc leaves unexpanded (exempt from re-expansion) is expanded later by interrogate",
                                 {"m.h": text}, "gcc:\n%s\nparse_file -E:\n%s\n" % (gout, rout))
                    continue
                if squeeze_literals(a) == squeeze_literals(b):
                    ck.violation("known:stringify-respacing", "the text produced by # differs from gcc's only in white space next to parentheses/commas (argument came out of another expansion or is __VA_ARGS__)",
                                 {"m.h": text}, "gcc:\n%s\nparse_file -E:\n%s\n" % (gout, rout))
                    continue
                ck.violation("expansion-differs:%s:%s" % (mode, feats), "parse_file -E and gcc -E disagree on a %s program (features %s); first differing statement: gcc `%s` / parse_file `%s`"
                             % (mode, feats, ga[where].strip()[:200] if where >= 0 else "?", rb[where].strip()[:200] if where >= 0 else "?"),
                             {"m.h": text}, "gcc:\n%s\nparse_file -E:\n%s\n" % (gout, rout))

        # ---- one level of expansion against the Lean model of save_expansion + r_expand, and against gcc ---------------------------------
        IDS2 = ["alpha", "beta", "x1", "y2"]
        LIT2 = ['"s"', '"a b"', '"p0"', '"#p1"', '"p0 ## p1"', '"#FF0000"', "'c'", "'#'", '"it\'s p0"', '"/* p1 */"', '"http://h/p0"', '""']
        prog, cases = [], []
        for i in range(120 if quick else 3000):
            nparam = rng.choice([0, 1, 1, 2, 2, 3])
            params = ["p%d" % j for j in range(nparam)]
            variadic = rng.random() < 0.3
            body = []
            for _ in range(rng.randrange(1, 7)):
                r = rng.random()
                if r < 0.3 and params:
                    body.append(rng.choice(params))
                elif r < 0.4 and params:
                    body += ["#", rng.choice(params)]
                elif r < 0.5 and (params or True):
                    body += [rng.choice(params + IDS2), "##", rng.choice(params + IDS2 + ["1"])]
                elif r < 0.7:
                    body.append(rng.choice(LIT2))
                elif r < 0.8 and variadic:
                    body += rng.choice([["__VA_ARGS__"], ["#", "__VA_ARGS__"], [",", "##", "__VA_ARGS__"]])
                else:
                    body.append(rng.choice(IDS2 + ["+", "-", "&", "<", "*", "(", ")", ",", "42", "=="]))
            if body.count("(") != body.count(")"):
                body = [t for t in body if t not in "()"]
            if not body:
                body = ["alpha"]
            nargs = nparam + (rng.choice([0, 1, 2]) if variadic else 0)
            args = [" ".join(rng.choice(IDS2 + ["7", '"q"', "'z'", '"a,b"', "+", "-", "&", "- 1", "+ 2", "L','", "u8')'", "U'('", "','", "::y2"]) for _ in range(rng.choice([1, 1, 2, 0]))) for _ in range(nargs)]
            if nparam == 0 and not variadic:
                args = []
            name = "X%d" % i
            btext = " ".join(body)
            two = ["#define %s(%s) %s" % (name, ", ".join(params + (["..."] if variadic else [])), btext), "r%d = %s(%s) ;" % (i, name, ", ".join(args))]
            (wd / "one.h").write_text("\n".join(two) + "\n")
            if subprocess.run(["gcc", "-E", "-P", "-x", "c", "-std=gnu2x", "one.h"], cwd=wd, capture_output=True).returncode != 0:
                ck.extra["single_expansion_rejected_by_gcc"] = ck.extra.get("single_expansion_rejected_by_gcc", 0) + 1
                prog += ["", ""]          # (keeps statement i at lines 2i, 2i+1)
                continue
            prog += two
            cases.append((i, params, variadic, btext, args))
        text = "\n".join(prog) + "\n"
        res = run_pair(bdir, wd, text)
        if res is not None and res[0] == "ok":
            _, gout, rout, rerr = res
            def unprefix(text):
                return re.sub(r"\b(?:u8|u|U|L)(?=['\"])", "", text)

            def stmts(out):
                out = unprefix(out)
                # (parse_file -E prints a character or string literal without its encoding prefix: L',' as ',')
                return dict((int(m.group(1)), [re.sub(r"^(?:u8|u|U|L)(?=['\"])", "", t) for t in macgen.tokenize(m.group(2))])
                            for m in re.finditer(r"\br(\d+) ?= ?(.*?);", out.replace("\n", " ")))
            gs, rs = stmts(gout), stmts(rout)
            ops = ["expand %s %s %s %s" % (",".join(p.encode().hex() for p in params) or "-", len(params) if variadic else "-", btext.encode().hex(),
                                          " ".join(a.encode().hex() or "-" for a in args)) for _, params, variadic, btext, args in cases]
            model = iglib.run_driver("macro", ops, timeout=600)
            for (i, params, variadic, btext, args), m in zip(cases, model):
                mt = macgen.tokenize(unprefix(bytes.fromhex(m).decode("latin-1"))) if m != "-" else []
                shown = "#define X(%s) %s  with X(%s)" % (", ".join(params + (["..."] if variadic else [])), btext, ", ".join(args))
                feats = [f for f, t in (("stringify", "#"), ("paste", "##"), ("variadic", "__VA_ARGS__")) if t in btext.split()] + (["literal"] if '"' in btext or "'" in btext else [])
                if any(odd_number(t) for t in gs.get(i, [])):
                    continue
                ck.corr_case("single-expansion-vs-Expand-model", shown, rs.get(i) == mt, detail="parse_file `%s`, model `%s`" % (" ".join(rs.get(i, ["?"])), " ".join(mt)), nontrivial=True, feature=feats or ["plain"])
                ck.search_case("tokens-equal-gcc:single-expansion")
                if rs.get(i) != gs.get(i):
                    if squeeze_literals(rs.get(i, [])) == squeeze_literals(gs.get(i, [])):
                        ck.violation("known:stringify-respacing", "the text produced by # differs from gcc's only in white space", {"m.h": "\n".join(prog[2 * i:2 * i + 2]) + "\n"}, "")
                    else:
                        ck.violation("expansion-differs:single:" + "+".join(feats), "%s: gcc `%s`, parse_file `%s`" % (shown, " ".join(gs.get(i, ["?"])), " ".join(rs.get(i, ["?"]))),
                                     {"m.h": "\n".join(prog[2 * i:2 * i + 2]) + "\n"}, "")
        else:
            ck.extra["single_expansion_program_rejected"] = True

        # ---- the # operator against the Lean model ------------------------------------------------------------------------------------------
        pieces = ['"s"', '"q\\"r"', '"back\\\\slash"', "'c'", "'\\''", "'\"'", '"it\'s"', '"x,y"', '"a\\nb"', '"\\\\"', "'\\\\'", "alpha", "42", "+", "(", ")", '""', '"\\"\\""', "x1"]
        args = []
        for i in range(80 if quick else 4000):
            k = rng.randrange(1, 5)
            toks = [rng.choice(pieces) for _ in range(k)]
            if toks.count("(") != toks.count(")") or any(toks[:j + 1].count(")") > toks[:j + 1].count("(") for j in range(k)):
                toks = [t for t in toks if t not in "()"] or ["x1"]
            args.append(" ".join(toks))
        model = iglib.run_driver("macro", ["stringify " + a.encode().hex() for a in args])
        text = "#define STR(x) #x\n" + "".join("s%d = STR(%s) ;\n" % (i, a) for i, a in enumerate(args))
        res = run_pair(bdir, wd, text)
        if res and res[0] == "ok":
            real = dict(re.findall(r"s(\d+) = (.*?) ?;", res[2]))
            gcc = dict(re.findall(r"s(\d+) = (.*?) ?;", res[1]))
            for i, (a, m) in enumerate(zip(args, model)):
                want = bytes.fromhex(m.split()[1]).decode()
                got = real.get(str(i), "<missing>")
                ck.corr_case("stringify-vs-model", a, got == want, detail="parse_file -E: %s ; model: %s ; gcc: %s" % (got, want, gcc.get(str(i))), nontrivial='"' in a or "'" in a,
                             feature=["escaped-quote" if '\\"' in a else "plain", "char-literal" if "'" in a else "no-char-literal"])
                ck.search_case("stringify-equals-gcc")
                if gcc.get(str(i)) is not None and got != gcc[str(i)]:
                    ck.violation("stringify-differs", "#x with x = %s gives %s, gcc gives %s" % (a, got, gcc[str(i)]), {"m.h": "#define STR(x) #x\ns = STR(%s) ;\n" % a}, "")
        else:
            ck.violation("stringify-stream-failed", "the # stream could not be run: %s" % (res[0] if res else "gcc rejected the generated file"), {"m.h": text}, (res[3] if res else "")[-2000:])

        # ---- known finding: a token exempted from expansion is expanded again after substitution -------------------------------------------------
        probe = "#define M0 alpha M0 zed\n#define M1(p0) p0 42\nout = M1 ( M0 ) ;\n"
        res = run_pair(bdir, wd, probe)
        ck.search_case("tokens-equal-gcc:blue-paint")
        if res and res[0] == "ok" and macgen.tokenize(res[1]) != macgen.tokenize(res[2]):
            ck.violation("known:blue-paint", "a self-referential macro passed as an argument is expanded a second time after substitution: gcc `%s`, parse_file -E `%s`"
                         % (res[1].strip(), res[2].strip()), {"m.h": probe}, "")
    finally:
        shutil.rmtree(wd, ignore_errors=True)
