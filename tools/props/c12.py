"""C12 — database files round-trip exactly; older 3.x files stay readable."""
import os
import shutil

import iglib
from extract import dbschema
from gen import dbgen

THEOREMS = [
    "IgVerif.C12.c12_extraction_ok", "IgVerif.C12.c12_counts_guarded", "IgVerif.C12.c12_mirror", "IgVerif.C12.c12_schema_wf",
    "IgVerif.C12.c12_copy_complete", "IgVerif.C12.c12_roundtrip", "IgVerif.C12.c12_reserialise",
    "IgVerif.C12.c12_old_minor", "IgVerif.C12.c12_version_gate", "IgVerif.C12.c12_id_mismatch_flagged",
    "IgVerif.C12.c12_merge_only_complete", "IgVerif.C12.c12_bad_header_flagged",
    "IgVerif.decFields_encFields", "IgVerif.decInt_showInt", "IgVerif.load_encFileAs",
]
PARTIAL = [("c12_truncation (every proper prefix that loses a non-blank byte is rejected)",
            "not a theorem yet: prefixes are covered by the correspondence stream `prefix` (all prefixes in the thorough tier) "
            "and by the spec comparison `prefix-rejected`; the model's reader is the proved one")]

ENUMS = ["global_types", "all_types", "global_functions", "all_functions", "global_manifests", "global_elements"]


def workdir(ck):
    d = iglib.SCRATCH / "work" / ("%s-%d" % (ck.pid, os.getpid()))
    if d.exists():
        shutil.rmtree(d)
    d.mkdir(parents=True)
    return d


def state_ops(db=None):
    """six enumeration counts (these trigger the lazy load), next index, error flag"""
    return ["enumcnt " + e for e in ENUMS] + ["next", "err"]


def state_of(ans, at):
    """-> (error_flag, counts) from the answers to state_ops() starting at index `at`"""
    return ans[at + 7], ans[at:at + 6]


def run_both(ck, exe, ops, timeout=300):
    impl, st, err = iglib.run_harness(exe, ops, timeout=timeout)
    model = iglib.run_driver("db", ops, timeout=timeout)
    return impl, st, err, model


def significant_len(b):
    """number of bytes up to and including the last non-blank byte"""
    i = len(b)
    while i > 0 and b[i - 1:i] in (b" ", b"\n", b"\t", b"\r", b"\v", b"\f"):
        i -= 1
    return i


def run(ck):
    quick = ck.quick
    rng = ck.rng
    changed, err = dbschema.main()
    ck.oblige("translator dbschema.py parsed output()/input()/operator=/remap_indices of all record classes", err is None, err or "")
    ck.lean_obligations("IgVerif.Props.C12", THEOREMS, PARTIAL)
    ck.trusted += ["tools/extract/dbschema.py (regex translator of output()/input()/operator= bodies into layouts)",
                   "harness/dbq.cxx + tools/gen/dbgen.py (independent Python writer of the .in format)",
                   "libstdc++ operator>>(int) / istream::get() semantics as modelled by decInt/decStr (validated by the correspondence)"]
    ck.assumptions += ["a corrupted (non-prefix) file is outside the property: a negative vector count makes the C++ throw; the model records that as `throws`"]
    exe = iglib.build_harness("dbq", extra_flags=["-fno-access-control"])
    lay = dbgen.Layouts()
    wd = workdir(ck)
    ck.rule = ("synthetic closed databases from tools/gen/dbgen.py (adversarial strings: spaces, newlines, quotes, empty, 0x80-0xFF; "
               "every flag bit; boundary ints) written by an independent Python writer in formats 3.0-3.3, plus real interrogate output; "
               "each op list runs through the real library (harness/dbq) and the Lean model (igdriver db); a case is distinct by the hash of its op list")
    try:
        n_db = 25 if quick else 400
        unsupported = 0
        for n in range(n_db):
            minor = 3 if n % 3 else rng.randrange(0, 4)
            canonical = n % 4 != 3
            g = dbgen.DbGen(lay, rng, nasty=rng.choice([0.1, 0.3, 0.7]), max_per_kind=rng.choice([1, 3, 6]), canonical=canonical)
            db = g.generate(minor=minor)
            data = dbgen.enc_file(lay, db)
            path = wd / ("db%d.in" % n)
            path.write_bytes(data)
            idx = sorted(set(i for k in dbgen.KINDS for i, _ in db[k])) or [1]
            idxs = [-2, -1, 0] + [i - idx[0] + 1 for i in idx] + [len(idx) + 1, len(idx) + 2, 2147483647, -2147483648]
            hdr = "%d %s %s %s" % (db["fileId"], dbgen.hexs(db["lib"]), dbgen.hexs(db["hash"]), dbgen.hexs(db["mod"]))
            ops = ["reset", "reqfile %s" % path] + state_ops() + \
                dbgen.query_ops(lay, rng, idxs, [-1, 0, 1, 2, 3, 4], dbgen.all_names(db) + [b"nope"], budget=120 if quick else 300) + \
                ["err", "write " + hdr, "writehex " + hdr, "conf " + hdr]
            impl, st, err_, model = run_both(ck, exe, ops)
            unsupported += sum(1 for x in impl if x == "bad-op")
            diffs = iglib.diff_streams(ops, impl, model)
            if st != "ok":
                diffs.append((len(impl), "<process>", st, "ok"))
            ck.corr_case("roundtrip", {"db": path.name, "minor": minor, "bytes": len(data), "ops": len(ops)},
                         not diffs, detail=repr(diffs[:3]), feature=["minor=%d" % minor, "conf=%s" % (model[-1] if model else "?"), "canonical=%s" % canonical])
            # ---- spec comparison on the implementation -------------------------------
            ck.search_case("reserialise-identical")
            if st == "ok" and len(impl) == len(ops) and not canonical:
                if state_of(impl, 2)[0] != "0":
                    ck.violation("load:%s" % _fp(data), "a valid database (arbitrary index numbering) raises the error flag on load",
                                 {"input.in": data, "ops.txt": "\n".join(ops) + "\n"})
            elif st == "ok" and len(impl) == len(ops):
                ok_flag = state_of(impl, 2)[0] == "0"
                rewritten = bytes.fromhex(impl[-2]) if impl[-2] != "-" else b""
                expect = dbgen.enc_file(lay, db, minor=3)  # the current writer always writes 3.3
                if not ok_flag or rewritten != expect:
                    ck.violation("reserialise:%s" % _fp(data), "a database written in format 3.%d does not load cleanly / re-serialise to identical bytes (error flag %s)" % (minor, state_of(impl, 2)[0]),
                                 {"input.in": data, "expected_rewrite.in": expect, "actual_rewrite.in": rewritten, "ops.txt": "\n".join(ops) + "\n"},
                                 "replay: build harness/dbq.cxx against the tree, feed ops.txt; expected writehex == expected_rewrite.in")
            else:
                ck.violation("crash:%s" % _fp(data), "loading/querying a valid database file ended with %s" % st,
                             {"input.in": data, "ops.txt": "\n".join(ops) + "\n"}, err_)
        ck.extra["harness_unwired_accessor_ops"] = unsupported

        # ---- several files of different minor versions in one process -------------
        for n in range(4 if quick else 40):
            ops = ["reset"]
            files = []
            for j in range(rng.randrange(2, 4)):
                minor = rng.randrange(0, 4)
                g = dbgen.DbGen(lay, rng, nasty=0.2, max_per_kind=3)
                db = g.generate(minor=minor)
                if not db["element"]:
                    continue
                p = wd / ("multi%d_%d.in" % (n, j))
                p.write_bytes(dbgen.enc_file(lay, db))
                files.append((p, minor, db))
                ops += ["reqfile %s" % p] + state_ops()
                ops += ["q int element %d %s" % (i, m) for i in range(1, 40) for m in ("_getter", "_has_function", "_del_function", "_insert_function", "_getkey_function")][:150]
                ops += ["lookup element_name %s" % dbgen.hexs(r["_name"]) for _, r in db["element"]]
            impl, st, err_, model = run_both(ck, exe, ops)
            diffs = iglib.diff_streams(ops, impl, model)
            if st != "ok":
                diffs.append((len(impl), "<process>", st, "ok"))
            ck.corr_case("multi-minor", {"files": [(f[0].name, f[1]) for f in files]}, not diffs, detail=repr(diffs[:3]),
                         feature="multi-file")
            ck.search_case("multi-minor-clean")
            errs = [impl[i] for i, o in enumerate(ops) if o == "err" and i < len(impl)]
            if st != "ok" or "1" in errs:
                ck.violation("multi-minor:%d" % n, "valid 3.x files of different minor versions loaded in one process raise the error flag / crash (%s)" % st,
                             dict([(f[0].name, f[0].read_bytes()) for f in files] + [("ops.txt", "\n".join(ops) + "\n")]), err_)

        # ---- prefixes ---------------------------------------------------------------
        for n in range(2 if quick else 12):
            g = dbgen.DbGen(lay, rng, nasty=0.4, max_per_kind=2 if quick else 3)
            db = g.generate()
            data = dbgen.enc_file(lay, db)
            sig = significant_len(data)
            cuts = list(range(len(data)))
            if quick:
                cuts = sorted(set(rng.sample(cuts, min(len(cuts), 70)) + [0, 1, 2, sig - 1, sig, len(data) - 1]))
            ops = []
            meta = []
            for c in cuts:
                p = wd / ("pre%d_%d.in" % (n, c))
                p.write_bytes(data[:c])
                ops += ["reset", "reqfile %s" % p] + state_ops()
                meta.append((c, len(ops) - len(state_ops())))
            if dbschema.UNGUARDED and n == 0:
                # directed search for the broken obligation c12_counts_guarded: a count that is read after the stream has
                # failed keeps an indeterminate value; memcheck names the first prefix on which a branch depends on it
                import subprocess
                for c in [x for x in cuts if 0 < x < sig][:: max(1, len(cuts) // 40)]:
                    ck.search_case("prefix-indeterminate-count")
                    one = "\n".join(["reset", "reqfile %s" % (wd / ("pre%d_%d.in" % (n, c)))] + state_ops()) + "\n"
                    try:
                        r = subprocess.run(["valgrind", "-q", "--error-exitcode=97", "--undef-value-errors=yes", str(exe)], input=one.encode(),
                                           stdout=subprocess.PIPE, stderr=subprocess.PIPE, timeout=120)
                    except subprocess.TimeoutExpired:
                        continue
                    msg = r.stderr.decode("utf-8", "replace")
                    if r.returncode == 97 and "uninitialised" in msg and "::input" in msg:
                        ck.violation("prefix-indeterminate:" + ",".join(sorted(set(dbschema.UNGUARDED))),
                                     "reading the %d-byte prefix of a valid %d-byte file makes input() loop on a count that was never read (%s): "
                                     "what happens next depends on what the stack held" % (c, len(data), ", ".join(sorted(set(dbschema.UNGUARDED)))),
                                     {"full.in": data, "prefix.in": data[:c], "memcheck.txt": msg}, "replay: valgrind harness/dbq with `reqfile prefix.in`")
                        break
            # a truncated file must be refused promptly: a read loop fed by a count that was never read can run for minutes
            import time as _time
            limit = 10 + 0.05 * len(cuts)
            t0 = _time.time()
            _, st_t, _ = iglib.run_harness(exe, ops, timeout=limit)
            ck.search_case("prefix-refused-promptly")
            if st_t == "timeout" or _time.time() - t0 > limit:
                # slow as a whole (possibly only a busy machine): it is a violation only if one prefix alone does not come back
                slow = None
                for c in cuts:
                    _, st1, _ = iglib.run_harness(exe, ["reset", "reqfile %s" % (wd / ("pre%d_%d.in" % (n, c)))] + state_ops(), timeout=30)
                    if st1 == "timeout":
                        slow = c
                        break
                if slow is not None:
                    ck.violation("prefix-hang", "reading the %d-byte prefix of a valid %d-byte file does not come back within 30 s (a truncated file must be refused, not read on)" % (slow, len(data)),
                                 {"full.in": data, "prefix.in": data[:slow]}, "")
                    continue
            impl, st, err_, model = run_both(ck, exe, ops, timeout=900)
            diffs = iglib.diff_streams(ops, impl, model)
            if st != "ok":
                diffs.append((len(impl), "<process>", st, "ok"))
            ck.corr_case("prefix", {"file_bytes": len(data), "prefixes": len(cuts)}, not diffs, detail=repr(diffs[:3]), feature="prefix")
            ck.extra["prefix_exhaustive"] = not quick
            for c, at in meta:
                ck.search_case("prefix-rejected")
                if at + 8 > len(impl):
                    ck.violation("prefix-crash:%d" % c, "reading a %d-byte prefix of a valid %d-byte file ended with %s" % (c, len(data), st),
                                 {"full.in": data, "prefix.in": data[:c]}, err_)
                    break
                errf, counts = state_of(impl, at)
                if c < sig:
                    if errf != "1" or any(x != "0" for x in counts):
                        ck.violation("prefix-accepted:%s:%d" % (_fp(data), c), "a truncated file (%d of %d bytes; non-blank data lost) was not reported or was partly merged: error flag %s, counts %s" % (c, len(data), errf, counts),
                                     {"full.in": data, "prefix.in": data[:c]})
                else:
                    pass  # only blanks lost: either verdict is acceptable; equality of content is the roundtrip stream's job

        # ---- version gate and identifier mismatch --------------------------------------
        for n in range(6 if quick else 60):
            g = dbgen.DbGen(lay, rng, nasty=0.2, max_per_kind=2)
            db = g.generate()
            major, minor = rng.choice([(2, 3), (4, 0), (3, 4), (3, 9), (0, 0), (-3, 3), (3, 3)])
            data = dbgen.enc_file(lay, db, minor=minor if minor <= 3 else 3, major=major)
            if minor > 3:
                data = data.replace(b"\n%d 3\n" % major, b"\n%d %d\n" % (major, minor), 1)
            p = wd / ("gate%d.in" % n)
            p.write_bytes(data)
            want = db["fileId"] if rng.random() < 0.5 else (db["fileId"] % 1000) + 7
            ops = ["reset", "reqmod %d ~ 68 0 0 0 %s 0" % (want, p)] + state_ops()
            impl, st, err_, model = run_both(ck, exe, ops)
            diffs = iglib.diff_streams(ops, impl, model)
            if st != "ok":
                diffs.append((len(impl), "<process>", st, "ok"))
            ck.corr_case("gate", {"major": major, "minor": minor, "id_matches": want == db["fileId"]}, not diffs, detail=repr(diffs[:3]),
                         feature="gate:%d.%d" % (major, minor))
            ck.search_case("gate-flagged")
            if st == "ok" and len(impl) == len(ops):
                bad_version = major != 3 or minor > 3
                errf, counts = state_of(impl, 2)
                if bad_version and (errf != "1" or any(x != "0" for x in counts)):
                    ck.violation("gate:%d.%d" % (major, minor), "file of version %d.%d not rejected cleanly: flag %s counts %s" % (major, minor, errf, counts),
                                 {"input.in": data, "ops.txt": "\n".join(ops) + "\n"})
                if not bad_version and want != 0 and want != db["fileId"] and errf != "1":
                    ck.violation("idmismatch", "file identifier mismatch (%d vs %d) not reported through the error flag" % (db["fileId"], want),
                                 {"input.in": data, "ops.txt": "\n".join(ops) + "\n"})

        # ---- real interrogate output -----------------------------------------------------
        bdir = iglib.build_repo("std")
        for hdr in sorted((iglib.REPO / "tests" / "interrogatedb").glob("*.h")):
            out_in = wd / (hdr.stem + ".in")
            rc, o, e = iglib.sh([str(bdir / "bin" / "interrogate"), "-D__cplusplus", "-oc", str(wd / "x.cxx"), "-od", str(out_in),
                                 "-module", "m", "-library", "l", "-python-native", "-S", str(iglib.REPO / "parser-inc"), str(hdr)],
                                env={"SOURCE_DATE_EPOCH": "1000"}, cwd=str(hdr.parent))
            if rc != 0 or not out_in.exists():
                continue
            data = out_in.read_bytes()
            toks = data.split(b"\n", 3)
            ops = ["reset", "reqfile %s" % out_in] + state_ops() + ["writehex 1000 6c %s 6d" % _hash_of(data), "conf 1000 6c - 6d"]
            impl, st, err_, model = run_both(ck, exe, ops)
            diffs = iglib.diff_streams(ops, impl, model)
            ck.corr_case("real-db", {"header": hdr.name, "bytes": len(data)}, not diffs and st == "ok", detail=repr(diffs[:2]), feature="real")
            ck.search_case("real-reserialise")
            if st == "ok" and len(impl) == len(ops):
                rewritten = bytes.fromhex(impl[-2]) if impl[-2] != "-" else b""
                if rewritten != data or state_of(impl, 2)[0] != "0":
                    ck.violation("real-reserialise:" + hdr.name, "database produced by interrogate for %s does not re-serialise to identical bytes" % hdr.name,
                                 {"input.in": data, "rewritten.in": rewritten})
    finally:
        shutil.rmtree(wd, ignore_errors=True)


def _hash_of(data):
    # library hash name as stored in the header line of a real database: "len name len hash len mod"
    try:
        body = data.split(b"\n", 2)[2]
        toks = body.split(b" ")
        # toks: len, lib, len, hash, ...
        return toks[3].hex() if toks[2] != b"0" else "-"
    except Exception:
        return "-"


def _fp(data):
    import hashlib
    return hashlib.sha1(data).hexdigest()[:10]
