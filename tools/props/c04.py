"""C04 — only the published API of the files named on the command line is exported."""
import re
import shutil

import iglib
from extract import c04_gates
from gen import exportgen
from props.c12 import workdir

THEOREMS = ["IgVerif.C04.c04_gates_mirror", "IgVerif.C04.c04_function_iff", "IgVerif.C04.c04_method_iff", "IgVerif.C04.c04_no_leak", "IgVerif.C04.c04_struct_iff",
            "IgVerif.C04.c04_enum_manifest", "IgVerif.C04.c04_promiscuous_monotone"]
PARTIAL = [("c04_attributes (the attributes the filters consult are the true ones)",
            "the filters are proved correct as functions of (file source, visibility, static/deleted/template, involves-protected, rvalue reference, ignore lists); "
            "that CPPFile::_source, _vis stamping and TypeManager::involves_* compute those attributes truthfully is tied per run on generated multi-file layouts, not proved"),
           ("types pulled in through signatures / base lists, forcetype, ignoretype", "the guards of define_struct_type are only mirrored (gate list), their effect is explored with the private-nested-class scenario")]


def index_of(dump):
    out = {"function": set(), "type": set(), "element": set()}
    m = re.search(r"^index:\n(.*?)\n\n", dump, re.S | re.M)
    for line in (m.group(1).split("\n") if m else []):
        mm = re.match(r"^ - (function|type|element) (.*)$", line)
        if mm:
            out[mm.group(1)].add(mm.group(2))
    return out


def run(ck):
    quick = ck.quick
    rng = ck.rng
    ch, err = c04_gates.main()
    ck.oblige("translator c04_gates.py read the guard sequences of the export filters", err is None, err or "")
    ck.lean_obligations("IgVerif.Props.C04", THEOREMS, PARTIAL)
    ck.trusted += ["tools/extract/c04_gates.py", "tools/gen/exportgen.py (layout + ground truth; layouts g++ rejects are dropped)", "interrogate -oh index and harness/dbq.cxx as observation channels"]
    bdir = iglib.build_repo("std")
    exe = iglib.build_harness("dbq", extra_flags=("-fno-access-control",))
    wd = workdir(ck)
    ck.rule = ("six-file layouts (two command-line files, one in a sub-directory; includes found in the working directory, through -I, through -S and next "
               "to the sub-directory file) with classes whose members sit in random __published/public/protected/private sections (static, deleted, template, "
               "rvalue-reference, protected-type signatures, a private nested class with published members), free functions, globals, enums and macros in "
               "and out of __begin_publish regions, a command (.N) file with ignoremember / ignorefile / ignoretype x {default, -promiscuous}: for every declared entity, presence in the database against the Lean filter "
               "model on the ground-truth attributes; nothing from the -I/-S/beside files may appear at all; distinct = distinct (layout, option set)")
    n = 20 if quick else 400
    done = 0
    tries = 0
    try:
        while done < n and tries < n * 4:
            tries += 1
            files, ents = exportgen.gen_layout(rng)
            d = wd / ("lay%d" % tries)
            for sub in ("sub", "inc", "sys"):
                (d / sub).mkdir(parents=True, exist_ok=True)
            for path, text in files.items():
                (d / path).write_text(text)
            chk = '#define __published public\n#define __begin_publish\n#define __end_publish\n#include "main.h"\n#include "sub/b.h"\n'
            (d / "chk.cpp").write_text(chk)
            rc, so, se = iglib.sh(["g++", "-std=c++17", "-fsyntax-only", "-w", "-Iinc", "-Isys", "-I.", "chk.cpp"], cwd=str(d), timeout=60)
            if rc != 0:
                ck.extra["layouts_rejected_by_gxx"] = ck.extra.get("layouts_rejected_by_gxx", 0) + 1
                ck.extra["gxx_reject_example"] = se[-300:]
                shutil.rmtree(d, ignore_errors=True)
                continue
            done += 1
            for min_vis, opts in ((0, []), (1, ["-promiscuous"])):
                cmd = [str(bdir / "bin" / "interrogate"), "-D__cplusplus", "-oc", "o.cxx", "-od", "o.in", "-oh", "o.txt", "-module", "m", "-library", "l", "-c", "-fnames",
                       "-Iinc", "-Ssys"] + opts + ["main.h", "sub/b.h", "sys/own.h"]
                rc, so, se = iglib.sh(cmd, cwd=str(d), timeout=120)
                ck.search_case("layout-processed")
                if rc != 0:
                    ck.violation("interrogate-fails-on-layout", "interrogate exits %d on a layout g++ accepts" % rc, dict({k.replace("/", "__"): v for k, v in files.items()}, **{"cmd.txt": "# file names: __ stands for / \n" + " ".join(cmd) + "\n"}), se[-2000:])
                    continue
                idx = index_of((d / "o.txt").read_text(errors="replace"))
                # manifests through the query interface
                ans, st, _ = iglib.run_harness(exe, ["reset", "reqfile %s" % (d / "o.in"), "enumcnt global_manifests"])
                nman = int(ans[-1]) if ans and ans[-1].lstrip("-").isdigit() else 0
                ans, st, _ = iglib.run_harness(exe, ["reset", "reqfile %s" % (d / "o.in"), "enumcnt global_manifests"] + ["enum global_manifests %d" % k for k in range(nman)])
                mids = ans[3:]
                ans, st, _ = iglib.run_harness(exe, ["reset", "reqfile %s" % (d / "o.in"), "enumcnt global_manifests"] + ["q str manifest %s _name" % i for i in mids])
                manifests = {bytes.fromhex(h).decode() for h in ans[3:] if h not in ("-", "bad-op")}
                # ---- the model's verdicts -----------------------------------------------------------------------------------------------
                structs = {e.name: e for e in ents if e.kind == "struct"}
                ops, meta = [], []
                for e in ents:
                    a = dict(e.attrs)
                    a.pop("hidden_class", None)
                    a.pop("ignoretype", None)
                    a.pop("res", None)
                    if e.kind == "struct":
                        a["anymember"] = any(v <= min_vis for v in a.pop("member_vis"))
                    e2 = exportgen.Ent(e.kind, e.name, a, e.cls)
                    ops.append(e2.op(min_vis))
                    meta.append(e)
                verdict = iglib.run_driver("export", ops)
                byname = {e.name: v == "1" for e, v in zip(meta, verdict)}
                for e, v in zip(meta, verdict):
                    want = v == "1"
                    if e.cls is not None:
                        want = want and byname[e.cls]
                    if e.attrs.get("hidden_class"):
                        want = False          # the enclosing nested class is private: never fully defined
                    if e.attrs.get("ignoretype") and e.kind != "struct":
                        want = False          # `ignoretype` in the command file: the type keeps its entry but is never defined (no members)
                    if e.kind in ("function", "method"):
                        got = e.name in idx["function"]
                    elif e.kind in ("struct", "enum"):
                        got = e.name in idx["type"]
                    elif e.kind == "element":
                        got = e.name in idx["element"]
                    else:
                        got = e.name in manifests
                    why = "vis=%s local=%s %s" % (e.attrs.get("vis"), e.attrs.get("local"), " ".join(k for k, val in e.attrs.items() if val is True and k != "local"))
                    ck.corr_case("exported-vs-filter-model", "%s %s (%s) min_vis=%d" % (e.kind, e.name, why, min_vis), got == want,
                                 detail="in database: %s, model: %s\n%s" % (got, want, files[[p for t, p, l in exportgen.FILES if e.name.lower().find(t.lower()) >= 0 or (e.cls or "").startswith(t)][0]] if False else ""),
                                 nontrivial=True, feature=[e.kind, "exported" if want else "filtered", "local" if e.attrs.get("local") else "non-local", "minvis%d" % min_vis])
                    ck.search_case("exported-iff-published-and-local")
                    if got != want:
                        ck.violation("%s:%s:%s" % ("leak" if got else "missing", e.kind, "+".join(sorted(k for k, val in e.attrs.items() if val is True)) or "plain"),
                                     "%s %s (%s) is %s the database with %s, but %s be" % (e.kind, e.name, why, "in" if got else "absent from", " ".join(opts) or "default options", "must not" if got else "must"),
                                     dict({k.replace("/", "__"): v for k, v in files.items()}, **{"cmd.txt": "# file names: __ stands for / \n" + " ".join(cmd) + "\n"}), "")
                # ---- nothing at all from the non-local files ----------------------------------------------------------------------------------
                bad = [n for kind in idx for n in idx[kind] if re.search(r"\b(IncC|SysC|BesC|fninc|fnsys|fnbes|ginc|gsys|gbes|GEInc|GESys|GEBes)", n)] + [m for m in manifests if re.search(r"_(INC|SYS|BES)$", m)]
                ck.search_case("nothing-from-include-only-files")
                if bad:
                    ck.violation("leak:non-local-file", "entities of headers reached only through -I/-S/an include next to a sub-directory file are in the database: %s" % ", ".join(sorted(bad)[:6]),
                                 dict({k.replace("/", "__"): v for k, v in files.items()}, **{"cmd.txt": "# file names: __ stands for / \n" + " ".join(cmd) + "\n"}), "")
            shutil.rmtree(d, ignore_errors=True)
    finally:
        shutil.rmtree(wd, ignore_errors=True)
