"""C10 — implicit special members and class traits follow the C++ rules."""
import re
import shutil

import iglib
from gen import hiergen
from gen.scopegen import parse_dump
from props.c12 import workdir

THEOREMS = ["IgVerif.C10.c10_vfuncs_spec", "IgVerif.C10.c10_abstract_spec", "IgVerif.C10.c10_no_ctor_for_abstract",
            "IgVerif.C10.c10_declared_dtor_decides", "IgVerif.C10.c10_deleted_never_constructible", "IgVerif.C10.c10_polymorphic_spec",
            "IgVerif.C10.c10_move_deletes_copy", "IgVerif.C10.c10_implicit_copy", "IgVerif.C10.c10_access_monotone"]
PARTIAL = [("c10_abstract_virtual_bases", "the final-overrider characterisation is proved for hierarchies without virtual base classes; with a shared virtual base the "
            "code (and the model) keep one entry per inheritance path, which is a known finding (diamond judged abstract)"),
           ("c10_constructible_spec", "is_default_constructible / is_copy_constructible / is_destructible are modelled and tied to the real code; their agreement with "
            "[class.default.ctor]/[class.copy.ctor]/[class.dtor] is decided per run by g++ (SFINAE probes), not proved: the ISO rules have no independent formalisation here"),
           ("match_virtual_override (signature matching, covariant returns)", "collapsed to an identifier in the model; exercised only through generated programs and the g++ oracle")]

PROBE = r'''
#include <type_traits>
#include <utility>
#include <cstdio>
#include "hier.h"
template<class T, class = void> struct can_new0 : std::false_type {};
template<class T> struct can_new0<T, decltype(void(new T()))> : std::true_type {};
template<class T, class = void> struct can_newc : std::false_type {};
template<class T> struct can_newc<T, decltype(void(new T(std::declval<const T &>())))> : std::true_type {};
template<class T> void row(const char *n) {
  std::printf("%%s abstract=%%d polymorphic=%%d destructible=%%d new0=%%d newc=%%d std0=%%d stdc=%%d\n", n, (int)std::is_abstract<T>::value,
    (int)std::is_polymorphic<T>::value, (int)std::is_destructible<T>::value, (int)can_new0<T>::value, (int)can_newc<T>::value,
    (int)std::is_default_constructible<T>::value, (int)std::is_copy_constructible<T>::value);
}
int main() {
%s
  return 0;
}
'''


def gxx_traits(wd, ks):
    (wd / "probe.cpp").write_text(PROBE % "".join('  row<%s>("%s");\n' % (k.name, k.name) for k in ks))
    rc, so, se = iglib.sh(["g++", "-std=c++17", "-w", "-D__published=public", "-I", str(wd), "-o", str(wd / "probe"), str(wd / "probe.cpp")], timeout=300)
    if rc != 0:
        return None, se
    rc, so, se = iglib.sh([str(wd / "probe")], timeout=60)
    out = {}
    for line in so.split("\n"):
        p = line.split()
        if p:
            out[p[0]] = {kv.split("=")[0]: int(kv.split("=")[1]) for kv in p[1:]}
    return out, ""


def real_traits(bdir, wd, ks):
    rc, so, se = iglib.sh([str(bdir / "bin" / "parse_file"), "-p", "hier.h"], cwd=str(wd), timeout=120, input=("".join((k.query() if hasattr(k, "query") else k.name) + "\n" for k in ks)).encode())
    back = dict((k.name + "_T", k.name) for k in ks if getattr(k, "templ", False))
    out = {}
    cur = None
    for line in so.split("\n"):
        m = re.match(r"^Type: (?:struct |class )?(\w+)", line)
        if m:
            cur = back.get(m.group(1), m.group(1))
            out[cur] = {}
            continue
        m = re.match(r"^(is_\w+) = (\d+)", line)
        if m and cur:
            out[cur][m.group(1)] = int(m.group(2))
    return out, se


def diamond_key(k):
    """structural tag used to identify the known virtual-base finding"""
    return "virtual-base" if k.has_virtual_base() else "plain"


def run(ck):
    quick = ck.quick
    rng = ck.rng
    ck.lean_obligations("IgVerif.Props.C10", THEOREMS, PARTIAL)
    ck.trusted += ["g++ 12: std::is_abstract / is_polymorphic / is_destructible and SFINAE probes `new T()`, `new T(const T&)` as the C++ judgement",
                   "tools/gen/hiergen.py (generator; programs g++ rejects are dropped and counted)", "parse_file -p and interrogate -oh as observation channels"]
    bdir = iglib.build_repo("std")
    wd = workdir(ck)
    ck.rule = ("class hierarchies of 2-6 classes over {struct/class, public/protected/private/virtual bases, default/other/copy/move constructors declared "
               "/=default/=delete in every access, destructors (virtual, pure, deleted, non-public), int/const/reference/class-type/static members with "
               "and without initialisers, virtual/pure/overriding/covariant functions}: the traits printed by parse_file -p against the Lean model of "
               "cppStructType.cxx and against g++; the implicit constructors/destructor exported by interrogate against g++; distinct = distinct program")
    n_prog = 60 if quick else 1500
    done = 0
    tries = 0
    try:
        directed = hiergen.directed()
        ck.extra["directed_special_member_programs"] = len(directed)
        n_prog += len(directed)
        while done < n_prog and tries < n_prog * 8:
            tries += 1
            if tries <= len(directed):
                ks = directed[tries - 1]
            elif tries % 6 == 0:
                ks = hiergen.gen_covariant(rng, rng.randrange(2, 6))
            elif tries % 6 in (1, 2):
                # explicitly defaulted members over bases and members whose own members are deleted or inaccessible; class templates
                ks = hiergen.gen_hierarchy(rng, rng.randrange(2, 6), allow_virtual_bases=False, bias="defaulted", templates_p=rng.choice([0.0, 0.3]))
            else:
                ks = hiergen.gen_hierarchy(rng, rng.randrange(2, 7), allow_virtual_bases=rng.random() < 0.5, templates_p=rng.choice([0.0, 0.0, 0.25]))
            text = hiergen.program_text(ks)
            # a published marker makes every class visible to interrogate without touching its traits
            pub = re.sub(r"\n\};\n", lambda m: "\n__published:\n  int marker();\n};\n", text)
            (wd / "hier.h").write_text(pub)
            rc, so, se = iglib.sh(["g++", "-std=c++17", "-fsyntax-only", "-w", "-D__published=public", "-x", "c++", str(wd / "hier.h")], timeout=60)
            if rc != 0:
                ck.extra["programs_rejected_by_gxx"] = ck.extra.get("programs_rejected_by_gxx", 0) + 1
                continue
            want, err = gxx_traits(wd, ks)
            if want is None:
                ck.extra["probe_failed"] = ck.extra.get("probe_failed", 0) + 1
                continue
            done += 1
            got, perr = real_traits(bdir, wd, ks)
            ck.search_case("program-parsed")
            if re.search(r"\berror\b", perr.split("Finished parsing")[0]) or len(got) != len(ks):
                ck.violation("rejects-valid-hierarchy", "parse_file reports an error on / does not know every class of a hierarchy g++ accepts", {"hier.h": pub}, perr[-2000:])
                continue
            model = iglib.run_driver("traits", ["traits " + hiergen.enc_class(k) for k in ks])
            for k, m in zip(ks, model):
                g, w = got[k.name], want[k.name]
                mm = dict(kv.split("=") for kv in m.split()) if "=" in m else {}
                feats = [diamond_key(k), "bases%d" % min(len(k.bases), 2), "abstract" if w["abstract"] else "concrete"] + (["class-template"] if k.templ else [])
                real_line = "abstract=%d default=%d copy=%d destructible=%d" % (g.get("is_abstract", -1), g.get("is_default_constructible", -1),
                                                                                 g.get("is_copy_constructible", -1), g.get("is_destructible", -1))
                model_line = "abstract=%s default=%s copy=%s destructible=%s" % (mm.get("abstract"), mm.get("default"), mm.get("copy"), mm.get("destructible"))
                ck.corr_case("traits-vs-model", k.name + "\n" + text, real_line == model_line, detail="parse_file: %s; model: %s\n%s" % (real_line, model_line, text),
                             nontrivial=bool(k.bases or k.fields or k.vfns), feature=feats)
                # ---- the C++ judgement -------------------------------------------------------------------------------------
                checks = [("abstract", g.get("is_abstract"), [w["abstract"]]),
                          ("destructible", g.get("is_destructible"), [w["destructible"]]),
                          # constructibility: `new T(...)` well-formed; std::is_*_constructible additionally demands an accessible
                          # destructor - where the two differ either answer is accepted (see DESIGN.md)
                          ("default-constructible", g.get("is_default_constructible"), sorted({w["new0"], w["std0"]})),
                          ("copy-constructible", g.get("is_copy_constructible"), sorted({w["newc"], w["stdc"]}))]
                if k.has_virtual_base():
                    # with virtual bases g++ itself departs from [class.copy.ctor]/[class.dtor] in corner cases (inaccessible destructor of a
                    # virtual base; virtual bases of abstract classes): only abstractness is compared there (see DESIGN.md, false alarms)
                    checks = checks[:1]
                for trait, real, accepted in checks:
                    ck.search_case("trait-equals-gxx")
                    if real not in accepted:
                        key = "%s:%s" % (trait, diamond_key(k))
                        ck.violation(key, "%s of %s: interrogate says %s, g++ says %s" % (trait, k.name, real, accepted[0]),
                                     {"hier.h": pub, "class.txt": k.name + "\n"}, "parse_file: %s\ng++: %s\n" % (g, w))
            # ---- what interrogate exports ----------------------------------------------------------------------------------
            cmd = [str(bdir / "bin" / "interrogate"), "-D__cplusplus", "-oc", "h.cxx", "-od", "h.in", "-oh", "h.txt", "-module", "m", "-library", "l", "-c", "-fnames", "hier.h"]
            rc, so, se = iglib.sh(cmd, cwd=str(wd), timeout=120)
            if rc != 0:
                ck.violation("interrogate-fails-on-hierarchy", "interrogate exits %d on a hierarchy g++ accepts" % rc, {"hier.h": pub}, se[-2000:])
                continue
            d = parse_dump((wd / "h.txt").read_text(errors="replace"))
            for k in ks:
                w = want[k.name]
                t = d["types"].get(k.name)
                if t is None or k.templ:      # a class template instance is listed under its template name: only its traits are compared
                    continue
                protos = d["functions"].get("%s::%s" % (k.name, k.name), [])
                has_def = any(re.search(r"::%s\(void\) = default" % k.name, p) for p in protos)
                has_copy = any(re.search(r"::%s\(%s const &\) = default" % (k.name, k.name), p) for p in protos)
                user_ctor = bool(k.dctor or k.octor or k.cctor or k.mctor)
                ck.search_case("implicit-members-exported-iff-provided")
                if w["abstract"] and protos:
                    ck.violation("ctor-for-abstract:" + diamond_key(k), "a constructor of the abstract class %s is exported" % k.name, {"hier.h": pub}, "\n".join(protos))
                if k.has_virtual_base():
                    continue
                if not user_ctor and has_def != bool(w["new0"]) and has_def != bool(w["std0"]):
                    ck.violation("implicit-default-ctor:" + diamond_key(k), "implicit default constructor of %s: exported=%s, g++ `new T()` well-formed=%s" % (k.name, has_def, bool(w["new0"])),
                                 {"hier.h": pub, "class.txt": k.name + "\n"}, "\n".join(protos))
                if not k.cctor and has_copy != bool(w["newc"]) and has_copy != bool(w["stdc"]):
                    ck.violation("implicit-copy-ctor:" + diamond_key(k), "implicit copy constructor of %s: exported=%s, g++ `new T(const T&)` well-formed=%s" % (k.name, has_copy, bool(w["newc"])),
                                 {"hier.h": pub, "class.txt": k.name + "\n"}, "\n".join(protos))
                has_dtor = "destructor" in t
                # the implicit destructor: exported exactly when C++ provides an accessible one.  A declared one (`~T();`, `= default`,
                # `= delete`) is exported under the export rules (C04) and the inherited-virtual-destructor shortcut, so only the direction
                # "never a destructor C++ does not provide" is demanded of it
                if (has_dtor != bool(w["destructible"])) if k.dtor is None else (has_dtor and not w["destructible"]):
                    ck.violation("destructor-export:" + diamond_key(k), "destructor of %s: exported=%s, std::is_destructible=%s" % (k.name, has_dtor, bool(w["destructible"])),
                                 {"hier.h": pub, "class.txt": k.name + "\n"}, str(t))
        # ---- the virtual-base diamond (known finding): one path overrides the pure function of the shared base --------------------------
        dia = ("struct A { virtual int f() = 0; };\nstruct B : virtual A { int f(); };\nstruct C : virtual A { };\nstruct D : B, C { };\n")
        (wd / "hier.h").write_text(dia)
        ks = [type("X", (), {"name": n})() for n in "ABCD"]
        want, err = gxx_traits(wd, ks)
        got, perr = real_traits(bdir, wd, ks)
        ck.search_case("trait-equals-gxx")
        if want and got.get("D", {}).get("is_abstract") != want["D"]["abstract"]:
            ck.violation("abstract:virtual-base", "is_abstract of D in the virtual-base diamond A{pure f} <- B{f}, C <- D: interrogate says %s, g++ says %s" % (got.get("D", {}).get("is_abstract"), want["D"]["abstract"]),
                         {"hier.h": dia}, "")
    finally:
        shutil.rmtree(wd, ignore_errors=True)
