"""C19 — a failed or incomplete output write is reported by a non-zero exit status."""
import os
import re
import shutil

import iglib
from extract import c19_proto
from gen import hdrgen
from props.c12 import workdir

THEOREMS = ["IgVerif.C19.c19_extraction_ok", "IgVerif.C19.c19_generic", "IgVerif.C19.c19_interrogate", "IgVerif.C19.c19_module",
            "IgVerif.C19.c19_interrogate_all_faults", "IgVerif.C19.c19_module_all_faults", "IgVerif.OP.wellChecked_sound"]


def run(ck):
    quick = ck.quick
    rng = ck.rng
    ch, err = c19_proto.main()
    ck.oblige("translator c19_proto.py recognised every stream/status statement of both main() output sections", err is None, err or "")
    ck.lean_obligations("IgVerif.Props.C19", THEOREMS)
    ck.trusted += ["tools/extract/c19_proto.py (statement-level translator of the output sections of the two main() functions)",
                   "libstdc++ basic_filebuf semantics as stated in Model/OutProto.lean: failed open -> failbit, failed flush -> sticky badbit, "
                   "insertions into a failed stream are dropped, close() reports flush/close failure, destructors swallow errors",
                   "harness/preload/faultio.c (LD_PRELOAD interposition of open/fopen/write/writev/fclose on the target file)"]
    bdir = iglib.build_repo("std")
    so = iglib.build_preload("faultio")
    wd = workdir(ck)
    model = iglib.run_driver("proto", ["proto interrogate", "proto module"])
    ck.extra["model_verdicts"] = model
    ck.rule = ("for each tool and output channel: the static failures (missing directory, target is a directory, /dev/full) and a fault injected at "
               "the k-th open/write(2)/close on that file for EVERY k up to the count of a fault-free run (LD_PRELOAD shim; the shim reports how "
               "often the fault fired); a case is (tool, channel, fault kind, k); correspondence = the model's verdict (is there a schedule with "
               "silent loss?) against whether some injected fault is answered by exit 0")
    try:
        hdrs = []
        for n in range(1 if quick else 6):
            h = hdrgen.gen_header(rng, n_classes=rng.randrange(2, 5))
            hp = wd / ("f%d.h" % n)
            hp.write_text(h.text())
            hdrs.append(hp)
        # a database several times the size of a stream buffer, most of it string bodies (comments): the write(2) calls then fall inside strings
        big = wd / "big.h"
        words = ["alpha", "beta", "gamma", "delta", "buffer", "stream", "flush", "quota", "device", "sector"]
        big.write_text("__begin_publish\n" + "".join("/** %s */\nint documented_%d(int a, double b = %d.5);\n" % (" ".join(rng.choice(words) for _ in range(rng.randrange(60, 140))), i, i)
                                                     for i in range(60)) + "__end_publish\n")
        hdrs.append(big)
        silent = {"interrogate": [], "module": []}
        fired_total = 0

        def attempt(tool, cmd, chan_path, kind, k, files_for_replay):
            nonlocal fired_total
            log = wd / "fault.log"
            if log.exists():
                log.unlink()
            env = {"LD_PRELOAD": str(so), "IGV_FAULT_PATH": os.path.basename(chan_path), "IGV_FAULT_LOG": str(log), "SOURCE_DATE_EPOCH": "1000"}
            if kind:
                env.update({"IGV_FAULT_OP": kind, "IGV_FAULT_K": str(k)})
            rc, so_, se = iglib.sh(cmd, cwd=str(wd), env=env, timeout=120)
            counts = {"opens": 0, "writes": 0, "closes": 0, "fired": 0}
            if log.exists():
                for m in re.finditer(r"(\w+)=(\d+)", log.read_text()):
                    counts[m.group(1)] += int(m.group(2))
            fired_total += counts["fired"]
            return rc, counts, se

        for hp in hdrs:
            for backend in (["-python-native"], ["-c", "-fnames"]) if not quick else (["-python-native"],):
                base = [str(bdir / "bin" / "interrogate"), "-D__cplusplus", "-module", "m", "-library", "l", "-S", str(iglib.REPO / "parser-inc")] + backend
                chans = {"oc": "out_oc.cxx", "od": "out_od.in", "oh": "out_oh.txt"}
                full = base + ["-oc", chans["oc"], "-od", chans["od"], "-oh", chans["oh"], hp.name]
                for cname, cfile in chans.items():
                    rc0, c0, _ = attempt("interrogate", full, cfile, None, 0, None)
                    if rc0 != 0:
                        ck.violation("baseline-fails", "fault-free interrogate run failed", {hp.name: hp.read_text()})
                        continue
                    plan = [("open", k) for k in range(1, c0["opens"] + 1)] + [("write", k) for k in range(1, c0["writes"] + 1)] + \
                           [("close", k) for k in range(1, c0["closes"] + 1)]
                    for kind, k in plan:
                        rc, c, se = attempt("interrogate", full, cfile, kind, k, None)
                        ck.search_case("fault-reported")
                        ok = (rc != 0) if c["fired"] else True
                        if not ok:
                            silent["interrogate"].append((cname, kind, k))
                            ck.violation("interrogate:%s:%s" % (cname, kind), "interrogate exits 0 although the %s #%d on the -%s file failed (ENOSPC)" % (kind, k, cname),
                                         {hp.name: hp.read_text(), "cmd.txt": "IGV_FAULT_OP=%s IGV_FAULT_K=%d IGV_FAULT_PATH=%s LD_PRELOAD=faultio.so %s\n" % (kind, k, cfile, " ".join(full))})
                # static failures, one channel at a time
                os.makedirs(wd / "adir", exist_ok=True)
                for cname in chans:
                    for label, target in (("missing-directory", "nonexistent_dir/x.out"), ("is-a-directory", "adir"), ("device-full", "/dev/full")):
                        args = dict(chans)
                        args[cname] = target
                        cmd = base + ["-oc", args["oc"], "-od", args["od"], "-oh", args["oh"], hp.name]
                        rc, so_, se = iglib.sh(cmd, cwd=str(wd), timeout=120, env={"SOURCE_DATE_EPOCH": "1000"})
                        ck.search_case("static-failure-reported")
                        if rc == 0:
                            silent["interrogate"].append((cname, label, 0))
                            ck.violation("interrogate:%s:%s" % (cname, label), "interrogate exits 0 although -%s %s cannot be written (%s)" % (cname, target, label),
                                         {hp.name: hp.read_text(), "cmd.txt": " ".join(cmd) + "\n"})
            # interrogate_module on the database just written
            rc, so_, se = iglib.sh([str(bdir / "bin" / "interrogate"), "-D__cplusplus", "-module", "m", "-library", "l", "-python-native",
                                    "-oc", "m_oc.cxx", "-od", "m.in", hp.name], cwd=str(wd), env={"SOURCE_DATE_EPOCH": "1000"})
            mfull = [str(bdir / "bin" / "interrogate_module"), "-oc", "mod_out.cxx", "-module", "m", "-library", "l", "-python-native", "m.in"]
            rc0, c0, _ = attempt("module", mfull, "mod_out.cxx", None, 0, None)
            plan = [("open", k) for k in range(1, c0["opens"] + 1)] + [("write", k) for k in range(1, c0["writes"] + 1)] + \
                   [("close", k) for k in range(1, c0["closes"] + 1)]
            for kind, k in plan:
                rc, c, se = attempt("module", mfull, "mod_out.cxx", kind, k, None)
                ck.search_case("fault-reported")
                if c["fired"] and rc == 0:
                    silent["module"].append(("oc", kind, k))
                    ck.violation("module:oc:%s" % kind, "interrogate_module exits 0 although the %s #%d on the -oc file failed" % (kind, k),
                                 {"m.in": (wd / "m.in").read_bytes(), "cmd.txt": "IGV_FAULT_OP=%s IGV_FAULT_K=%d IGV_FAULT_PATH=mod_out.cxx LD_PRELOAD=faultio.so %s\n" % (kind, k, " ".join(mfull))})
            for label, target in (("missing-directory", "nonexistent_dir/x.cxx"), ("is-a-directory", "adir"), ("device-full", "/dev/full")):
                cmd = mfull[:1] + ["-oc", target] + mfull[3:]
                rc, so_, se = iglib.sh(cmd, cwd=str(wd), timeout=120)
                ck.search_case("static-failure-reported")
                if rc == 0:
                    silent["module"].append(("oc", label, 0))
                    ck.violation("module:oc:%s" % label, "interrogate_module exits 0 although -oc %s cannot be written (%s)" % (target, label),
                                 {"m.in": (wd / "m.in").read_bytes(), "cmd.txt": " ".join(cmd) + "\n"})
        ck.extra["faults_fired"] = fired_total
        # correspondence: the model says a silent loss exists  <=>  the implementation showed one
        for tool, line in (("interrogate", model[0]), ("module", model[1])):
            model_silent = "silentLoss=none" not in line
            impl_silent = bool(silent[tool])
            ck.corr_case("silent-loss-exists", {"tool": tool, "model": line, "implementation_silent_cases": silent[tool][:5]},
                         model_silent == impl_silent, detail="model %s, implementation %s" % (model_silent, impl_silent), feature=tool)
    finally:
        shutil.rmtree(wd, ignore_errors=True)
