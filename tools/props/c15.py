"""C15 — the front-end is total: any input ends in a diagnostic, never a crash or hang."""
import os
import re
import shutil
import subprocess
from concurrent.futures import ThreadPoolExecutor

import iglib
from gen import bytesgen
from props.c12 import workdir

THEOREMS = ["IgVerif.C15.c15_scan_raw_total", "IgVerif.C15.rawLoop_safe", "IgVerif.C15.c15_scan_raw_old_counterexample", "IgVerif.C15.c15_expand_measure",
            "IgVerif.Scan.live_lt"]
PARTIAL = [("c15_total (parse_file and interrogate terminate without signal on every byte string)",
            "only scan_raw, the ignore-set recursion of macro expansion, the #if evaluator (C07) and the conditional skipper (C09) are modelled and proved total; "
            "the bison parser, scopes, template instantiation and the back-ends are explored per run (grammar-based corpus, byte/token mutations, edge-case list, "
            "ASan+UBSan build), which is a search, not a proof"),
           ("c15_error_no_output", "that a run which reported a parse error exits non-zero and leaves no output files is checked on every explored input, not proved")]

TIMEOUT = 15
SLOW = []      # inputs that needed more than TIMEOUT seconds but did finish


def classify(rc, err):
    if rc == "timeout":
        return "hang"
    if "ERROR: AddressSanitizer" in err:
        m = re.search(r"ERROR: AddressSanitizer: ([\w-]+)", err)
        return "asan:" + (m.group(1) if m else "?")
    if "runtime error:" in err:
        return "ubsan"
    if isinstance(rc, int) and rc < 0:
        return "signal%d" % -rc
    if isinstance(rc, int) and rc >= 126:
        return "exit%d" % rc
    return None


def where(err):
    """a stable one-line location for the fingerprint: top user frame of a sanitizer report, else the last stderr line"""
    m = re.search(r"#\d+ 0x[0-9a-f]+ in ([\w:~<>]+)[^\n]*?/repo/src/([\w/.]+):(\d+)", err)
    if m:
        return "%s@%s" % (m.group(1), m.group(2))
    m = re.search(r"what\(\):\s*(\S+)", err)
    if m:
        return m.group(1)
    return ""


def run_case(bdir, root, ix, name, data, args_extra=()):
    d = root / ("c%d" % ix)
    d.mkdir(parents=True, exist_ok=True)
    (d / "self_including_file.h").write_bytes(data)
    res = []
    env = dict(os.environ, ASAN_OPTIONS="detect_leaks=0", UBSAN_OPTIONS="print_stacktrace=1")
    for tool in ("parse_file", "parse_file -E", "interrogate"):      # -E: the preprocessor alone reads on where the parser gives up at the first error
        if tool == "parse_file -E":
            cmd = [str(bdir / "bin" / "parse_file"), "-E"] + [a for a in args_extra if a.startswith("-D")] + ["self_including_file.h"]
        elif tool == "interrogate":
            cmd = [str(bdir / "bin" / tool), "-oc", "o.cxx", "-od", "o.in", "-module", "m", "-library", "l"] + list(args_extra) + ["self_including_file.h"]
        else:
            cmd = [str(bdir / "bin" / tool)] + [a for a in args_extra if a.startswith("-D")] + ["self_including_file.h"]
        for f in ("o.cxx", "o.in"):
            if (d / f).exists():
                (d / f).unlink()
        try:
            p = subprocess.run(cmd, cwd=d, stdout=subprocess.DEVNULL, stderr=subprocess.PIPE, timeout=TIMEOUT, env=env)
            rc, err = p.returncode, p.stderr[-4000:].decode("latin-1")
        except subprocess.TimeoutExpired:
            # slow is not stuck: a busy machine or the sanitizer build can push a deep (but bounded) include / instantiation chain past the
            # limit; it is a hang only if it does not come back with twelve times the limit either
            try:
                p = subprocess.run(cmd, cwd=d, stdout=subprocess.DEVNULL, stderr=subprocess.PIPE, timeout=TIMEOUT * 12, env=env)
                rc, err = p.returncode, p.stderr[-4000:].decode("latin-1")
                SLOW.append(name)
            except subprocess.TimeoutExpired:
                rc, err = "timeout", ""
        bad = classify(rc, err)
        extra = None
        if tool == "interrogate" and bad is None:
            outputs = [(d / f).exists() for f in ("o.cxx", "o.in")]
            parse_failed = "Error in parsing" in err or "failed to parse" in err
            if parse_failed and (rc == 0 or any(outputs)):
                extra = "parse error reported but exit status %s and output files %s" % (rc, outputs)
        res.append((tool, rc, bad, extra, err, " ".join(cmd)))
    if not any(r[2] or r[3] for r in res):
        shutil.rmtree(d, ignore_errors=True)
    return ix, name, data, res


def explore(ck, bdir, root, cases, label, args_for=None):
    seen = set()
    with ThreadPoolExecutor(iglib.NCPU) as ex:
        futs = [ex.submit(run_case, bdir, root, i, n, d, args_for(i) if args_for else ()) for i, (n, d) in enumerate(cases)]
        for f in futs:
            ix, name, data, res = f.result()
            for tool, rc, bad, extra, err, cmd in res:
                ck.search_case("%s-terminates-cleanly" % label)
                ck.extra.setdefault("outcomes_" + label, {})
                key = "%s:%s" % (tool, rc if rc in (0, 1, "timeout") else ("signal" if isinstance(rc, int) and rc < 0 else "other"))
                ck.extra["outcomes_" + label][key] = ck.extra["outcomes_" + label].get(key, 0) + 1
                if bad:
                    fp = "%s:%s:%s" % (tool, bad, where(err))
                    if bad == "hang":
                        import hashlib
                        fp += hashlib.sha1(data).hexdigest()[:10]      # a run that does not end has no location: the input identifies it
                    if fp not in seen:
                        seen.add(fp)
                        ck.violation(fp, "%s ends with %s on %s (%d bytes)%s" % (tool, bad, name, len(data), " at " + where(err) if where(err) else ""),
                                     {"input.h": data.decode("latin-1"), "cmd.txt": "cp input.h self_including_file.h && " + cmd + "\n"}, err[-3000:])
                if extra:
                    fp = "interrogate:error-but-output"
                    if fp not in seen:
                        seen.add(fp)
                        ck.violation(fp, "interrogate: " + extra + " on " + name, {"input.h": data.decode("latin-1"), "cmd.txt": cmd + "\n"}, err[-3000:])


def run(ck):
    quick = ck.quick
    rng = ck.rng
    ck.lean_obligations("IgVerif.Props.C15", THEOREMS, PARTIAL)
    ck.trusted += ["tools/gen/bytesgen.py (corpus, mutators, edge-case list)", "the ASan+UBSan build of /repo's working tree (memory errors are observed, not proved absent)",
                   "a 15 s wall-clock limit as the meaning of 'hangs'"]
    bdir = iglib.build_repo("std")
    wd = workdir(ck)
    ck.rule = ("the edge-case list (unterminated constructs, every directive truncated, division by zero, cyclic and self-referential macros, self-including file, "
               "recursive templates, classes containing themselves, NUL/non-ASCII bytes) + corpus (tests/, parser-inc/, grammar-generated headers) + byte- and "
               "token-level mutants of it, each through parse_file and interrogate of the regular build and a share through the ASan+UBSan build; random -D "
               "definitions; raw string literals and cyclic macro tables additionally against the Lean models; distinct = distinct input bytes")
    try:
        corpus = bytesgen.seed_corpus(rng)
        cases = [("edge:%d" % i, e.encode("latin-1")) for i, e in enumerate(bytesgen.EDGE)] + corpus
        for i in range(500 if quick else 40000):
            name, data = rng.choice(corpus)
            for _ in range(rng.choice([1, 1, 2, 3, 6])):
                data = bytesgen.mutate(rng, data, corpus)
            cases.append(("mutant-of:" + name, data))
        explore(ck, bdir, wd / "std", cases, "std")
        ck.extra["slow_but_finished"] = SLOW
        # ---- sanitizer build -------------------------------------------------------------------------------------------------------------
        abdir = iglib.build_repo("asan")
        n_direct = len(bytesgen.EDGE) + len(corpus)      # the edge list and the unmutated corpus go through the sanitizer build in full, the mutants in part
        sub = cases[:n_direct] + rng.sample(cases[n_direct:], 120 if quick else 6000)
        explore(ck, abdir, wd / "asan", sub, "asan")
        # ---- -D definitions --------------------------------------------------------------------------------------------------------------
        dcases = []
        dargs = []
        for i in range(40 if quick else 1500):
            k = rng.randrange(1, 4)
            defs = []
            for _ in range(k):
                nm = rng.choice(["A", "B", "F(x)", "F(", "F(x,", "G(...)", "", "1", "A B", "defined", "__VA_ARGS__", "A(A)"])
                val = rng.choice(["", "=", "=1", "=B", "=A", "=F(1)", "=(", "=\"", "=#", "=##", "=x##", "=__VA_OPT__(", "=1/0", "=A B C", "=\\"])
                defs.append("-D" + nm + val)
            dargs.append(defs)
            dcases.append(("-D:" + " ".join(defs), b"#if A\nint a = A;\n#endif\nint b = B;\n#ifdef F\nint c = F(1);\n#endif\nint d;\n"))
        explore(ck, bdir, wd / "defs", dcases, "defines", args_for=lambda i: dargs[i])

        # ---- raw strings: outcome against the Lean scanner -------------------------------------------------------------------------------------
        raws = ["(\")\"", "(a)\"", "x(a)x\"", "(", "", "abc(", "(\"", "(a)", "xy(ab)x\")xy\"", "()\"", "(\"\"\"\")\"", ")(a))\"", "((a)\"", "d(a)d"]
        for i in range(60 if quick else 3000):
            delim = "".join(rng.choice("abc_1") for _ in range(rng.choice([0, 0, 1, 2, 5])))
            body = "".join(rng.choice("ab\")(" + delim) for _ in range(rng.randrange(0, 8)))
            tail = rng.choice([")" + delim + "\"", ")" + delim, "", "\"", ")" + delim[:-1] + "\"" if delim else ")"])
            raws.append(delim + "(" + body + tail)
        model = iglib.run_driver("scan", ["raw " + (r + ";\n").encode().hex() for r in raws])
        for i, (r, m) in enumerate(zip(raws, model)):
            d = wd / ("raw%d" % i)
            d.mkdir()
            src = "const char *s = R\"" + r + ";\n"
            (d / "r.h").write_text(src)
            rc, so, se = iglib.sh([str(bdir / "bin" / "parse_file"), "r.h"], cwd=str(d), timeout=TIMEOUT)
            unclosed = "Unclosed string" in se
            if "closed=1" in m:
                body = bytes.fromhex(m.split()[2]).decode() if len(m.split()) > 2 and m.split()[2] != "-" else ""
                delim = r.split("(")[0]
                rest = (r + ";\n")[len(delim) + 1 + len(body) + 1 + len(delim) + 1:]
                if '"' in rest or "'" in rest:
                    shutil.rmtree(d, ignore_errors=True)
                    continue          # what follows the literal opens another (unclosed) literal: the warning would be ambiguous
            real = "throws" if rc < 0 or rc >= 126 else ("ok closed=%d" % (0 if unclosed else 1))
            ck.corr_case("scan_raw-outcome-vs-model", src, real == " ".join(m.split()[:2]), detail="real: rc=%s %s; model: %s" % (rc, real, m),
                         nontrivial=True, feature=["closed" if "closed=1" in m else "unclosed", "delim%d" % min(len(r.split("(")[0]), 3)])
            if rc < 0 or rc >= 126:
                ck.violation("parse_file:raw-string-crash", "parse_file dies (status %s) on the raw string literal %r" % (rc, src), {"input.h": src}, se[-2000:])
            shutil.rmtree(d, ignore_errors=True)

        # ---- cyclic object-like macro tables: parse_file -E against expandObj -------------------------------------------------------------------
        for i in range(25 if quick else 1500):
            names = ["M%d" % k for k in range(rng.randrange(1, 5))]
            table = []
            for n in names:
                body = [rng.choice(["i:" + rng.choice(names), "i:" + rng.choice(names), "o:+", "o:1", "i:zz"]) for _ in range(rng.randrange(1, 4))]
                table.append((n, body))
            use = [rng.choice(["i:" + rng.choice(names), "o:;", "i:q"]) for _ in range(rng.randrange(1, 4))] + ["o:;"]
            src = "".join("#define %s %s\n" % (n, " ".join(t[2:] for t in b)) for n, b in table) + "int x = " + " ".join(t[2:] for t in use) + "\n"
            op = "expand %d %s %d %s" % (len(table), " ".join("%s %d %s" % (n, len(b), " ".join(b)) for n, b in table), len(use), " ".join(use))
            m = iglib.run_driver("scan", [op])[0]
            d = wd / ("cyc%d" % i)
            d.mkdir()
            (d / "m.h").write_text(src)
            try:
                rc, so, se = iglib.sh([str(bdir / "bin" / "parse_file"), "-E", "m.h"], cwd=str(d), timeout=TIMEOUT)
            except subprocess.TimeoutExpired:
                rc, so, se = "timeout", "", ""
            ck.search_case("cyclic-macros-terminate")
            if rc == "timeout" or (isinstance(rc, int) and (rc < 0 or rc >= 126)):
                ck.violation("parse_file:cyclic-macro-%s" % ("hang" if rc == "timeout" else "crash"), "parse_file -E does not terminate cleanly (status %s) on a cyclic macro table" % rc, {"input.h": src}, se[-2000:])
            else:
                real = re.sub(r"\s+", "", so)
                want = "intx=" + re.sub(r"\s+", "", m)
                ck.corr_case("cyclic-macro-expansion-vs-model", src, real == want, detail="model: %s\nparse_file -E: %s" % (want, real),
                             nontrivial=len(table) > 1, feature="table%d" % len(table))
            shutil.rmtree(d, ignore_errors=True)
    finally:
        shutil.rmtree(wd, ignore_errors=True)
