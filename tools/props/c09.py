"""C09 — conditional inclusion keeps exactly the groups a conforming preprocessor keeps."""
import itertools
import re
import shutil

import iglib
from extract import c09_cmds
from gen import exprgen
from props.c12 import workdir

THEOREMS = ["IgVerif.C09.c09_string_text_irrelevant", "IgVerif.C09.c09_comment_text_irrelevant", "IgVerif.C09.c09_endif_ends_group", "IgVerif.C09.c09_else_and_midline_hash", "IgVerif.Skip.skipGroup_string", "IgVerif.Skip.skipC_clean",
            "IgVerif.C09.c09_refines", "IgVerif.C09.c09_skipped_no_effect", "IgVerif.C09.c09_after_taken_group", "IgVerif.C09.c09_undefined_is_zero",
            "IgVerif.C09.c09_extraction_ok", "IgVerif.C09.c09_active_dispatch", "IgVerif.C09.c09_skip_dispatch", "IgVerif.C09.c09_handlers",
            "IgVerif.Cond.run_refines"]
PARTIAL = [("c09_line_abstraction (the directive lines the character-level scanner finds are the lines of the directive-level machine)",
            "Model/SkipScan.lean models skip_false_if_block character by character (comments, string and character literals, null directives, "
            "continuations) and is tied to the real code on generated skipped texts; c09_string_text_irrelevant / c09_comment_text_irrelevant are "
            "theorems about it, but its composition with the directive-level machine (c09_refines) is by correspondence only; active (kept) text "
            "is lexed by the ordinary tokenizer, which is not modelled")]

MACROS = ["A", "B", "C"]
# text without markers or effects: what it contains must not change which groups are kept
NOISE = ['const char *n%d = "/*";', 'const char *n%d = "*/ #endif";', 'const char *n%d = "//"; /* x */', "char n%d = '\"';", "char n%d = '\\'';",
         'const char *n%d = "\\"/*";', 'const char *n%d = "a\\\\";', "#", "#   ", "# /* null directive */", "/* multi\n#endif\n#else\nline */", "/***/", "/* ** */",
         "/**** banner ****/", '// comment with " quote and /*', "// it's", "/* it's \" */", 'const char *n%d = "#endif";', "#\n#\n", "/* a */ /* b **/ int n%d;",
         'const char *n%d = "x\\\n#endif";']


class Gen:
    def __init__(self, rng):
        self.rng = rng
        self.k = 0

    def marker(self):
        self.k += 1
        return self.k - 1

    def cexpr(self, depth):
        """(C text, sexpr) of an #if expression over the macros"""
        rng = self.rng
        if depth <= 0 or rng.random() < 0.3:
            r = rng.random()
            if r < 0.3:
                n = rng.choice([0, 1, 2, 3, 7, 16, 255])
                # the same value in every spelling a literal may have in an #if
                spell = rng.choice(["%d", "%d", "0x%X", "0x%x", "%du", "%dL", "%dUL", "0%o", "0b" + bin(n)[2:], "0x%XU", "%dll"])
                return (spell % n if "%" in spell else spell), "( int %d )" % n
            if r < 0.45:
                m = rng.choice(MACROS + ["UNDEFINED_X"])
                return m, "( ident %s )" % m
            if r < 0.6:
                # forms whose truth depends on a macro evaluating to exactly 0 (e.g. an alias of an undefined name)
                m = rng.choice(MACROS + ["UNDEFINED_X"])
                return rng.choice([("%s == 0" % m, "( bin eq ( ident %s ) ( int 0 ) )" % m), ("!%s" % m, "( un lnot ( ident %s ) )" % m),
                                   ("%s + 1 == 1" % m, "( bin eq ( bin add ( ident %s ) ( int 1 ) ) ( int 1 ) )" % m)])
            m = rng.choice(MACROS + ["UNDEFINED_X"])
            return rng.choice(["defined(%s)", "defined %s", "defined ( %s )"]) % m, "( defined %s )" % m
        r = rng.random()
        if r < 0.25:
            t, s = self.cexpr(depth - 1)
            return "!(%s)" % t, "( un lnot %s )" % s
        op = rng.choice(["land", "lor", "eq", "ne", "lt", "gt", "le", "ge", "add", "sub", "mul", "band", "bor", "bxor"])
        a, b = self.cexpr(depth - 1), self.cexpr(depth - 1)
        return "(%s) %s (%s)" % (a[0], exprgen.SYM[op], b[0]), "( bin %s %s %s )" % (op, a[1], b[1])

    def cond(self, first):
        """(C directive line, model directive)"""
        rng = self.rng
        r = rng.random()
        pre = "" if first else "el"
        # what may follow a macro name on a directive line without being part of it
        tail = rng.choice(["", "", "", "\t", " \t ", "\t/* c */", " // c", "\t// c", " \\\n", "\t\\\n\t", "  ", " /* c */\t"])
        sep = rng.choice([" ", " ", "\t", "  ", " \t", " /* c */ ", "/**/", " /* a */ /* b */ "])
        if r < 0.25:
            m = rng.choice(MACROS)
            return ("#ifdef%s%s%s" if first else "#elifdef%s%s%s") % (sep, m, tail), ("ifdef %s" if first else "elifdef %s") % m
        if r < 0.45:
            m = rng.choice(MACROS)
            return ("#ifndef%s%s%s" if first else "#elifndef%s%s%s") % (sep, m, tail), ("ifndef %s" if first else "elifndef %s") % m
        t, s = self.cexpr(rng.choice([0, 1, 2]))
        return ("#if %s" if first else "#elif %s") % t, ("if %s" if first else "elif %s") % s

    def blocks(self, depth, budget):
        """-> (list of C lines, list of model directives)"""
        rng = self.rng
        lines, dirs = [], []
        n = rng.randrange(0, 4)
        for _ in range(n):
            if budget[0] <= 0:
                break
            r = rng.random()
            if r < 0.35:
                k = self.marker()
                lines.append("int m%d;" % k)
                dirs.append("text %d" % k)
                budget[0] -= 1
            elif r < 0.5:
                m, v = rng.choice(MACROS), rng.choice([0, 1, 2, 5])
                lines.append("#define %s %d" % (m, v))
                dirs.append("define %s %d" % (m, v))
                budget[0] -= 1
            elif r < 0.56:
                # an alias: the body is another identifier (a macro, possibly itself, or an undefined name)
                m, t = rng.choice(MACROS), rng.choice(MACROS + ["UNSET_LEVEL", "UNDEFINED_X"])
                lines.append("#define %s %s" % (m, t))
                dirs.append("alias %s %s" % (m, t))
                budget[0] -= 1
            elif r < 0.59:
                m = rng.choice(MACROS)
                lines.append("#undef %s%s" % (m, rng.choice(["", "", "\t", " \t", "\t// c", " /* c */"])))
                dirs.append("undef %s" % m)
                budget[0] -= 1
            elif r < 0.64:
                lines.append("#error kept error")
                dirs.append("error")
                budget[0] -= 1
            elif r < 0.76:
                t = rng.choice(NOISE)
                self.k_noise = getattr(self, "k_noise", 0) + 1
                lines.append(t % self.k_noise if "%d" in t else t)
            elif r < 0.8:
                k = self.marker()
                lines.append('#include "inc.h"' if False else "int m%d; /* #else in a comment */ // #endif" % k)
                dirs.append("text %d" % k)
                budget[0] -= 1
            elif depth > 0:
                cl, cd = self.cond(True)
                lines.append(cl)
                dirs.append(cd)
                budget[0] -= 1
                bl, bd = self.blocks(depth - 1, budget)
                lines += bl
                dirs += bd
                for _ in range(rng.choice([0, 0, 1, 1, 2])):
                    cl, cd = self.cond(False)
                    lines.append(cl)
                    dirs.append(cd)
                    bl, bd = self.blocks(depth - 1, budget)
                    lines += bl
                    dirs += bd
                if rng.random() < 0.5:
                    lines.append("#else")
                    dirs.append("else")
                    bl, bd = self.blocks(depth - 1, budget)
                    lines += bl
                    dirs += bd
                lines.append(rng.choice(["#endif", "# endif", "#endif // tail", "  #endif"]))
                dirs.append("endif")
        return lines, dirs


def enumerate_small(max_lines):
    """all well-nested programs over a tiny alphabet with at most max_lines directive lines (markers are added between them)"""
    CONDS = [("#if 1", "if ( int 1 )"), ("#if 0", "if ( int 0 )"), ("#ifdef A", "ifdef A"), ("#ifndef A", "ifndef A")]
    ELIFS = [("#elif 1", "elif ( int 1 )"), ("#elif 0", "elif ( int 0 )"), ("#elifdef A", "elifdef A"), ("#elifndef A", "elifndef A")]

    def seqs(n):
        # sequences of items using exactly n directive lines: item = define A (1 line) | conditional
        if n == 0:
            yield []
            return
        for first in items(n):
            for used in [first[0]]:
                for rest in seqs(n - used):
                    yield [first[1]] + rest

    def items(n):
        # (lines used, structure)
        if n >= 1:
            yield (1, ("define",))
        for c in CONDS:
            # cond lines: if + endif + optional elifs/else
            for body_n in range(0, n - 1):
                for body in seqs(body_n):
                    rem = n - 2 - body_n
                    for tail in tails(rem):
                        yield (n - (rem - tail[0]), ("cond", c, body, tail[1]))

    def tails(n):
        # returns (lines used, list of ('elif', cond, body) / ('else', body))
        yield (0, [])
        if n >= 1:
            for bn in range(0, n):
                for body in seqs(bn):
                    yield (1 + bn, [("else", body)])
            for e in ELIFS:
                for bn in range(0, n):
                    for body in seqs(bn):
                        for t in tails(n - 1 - bn):
                            yield (1 + bn + t[0], [("elif", e, body)] + t[1])
    seen = set()
    for total in range(1, max_lines + 1):
        for prog in seqs(total):
            key = repr(prog)
            if key in seen:
                continue
            seen.add(key)
            yield prog


def render_enum(prog):
    k = [0]
    lines, dirs = [], []

    def mark():
        lines.append("int m%d;" % k[0])
        dirs.append("text %d" % k[0])
        k[0] += 1

    def emit(seq):
        mark()
        for it in seq:
            if it[0] == "define":
                lines.append("#define A 1")
                dirs.append("define A 1")
            else:
                _, c, body, tail = it
                lines.append(c[0])
                dirs.append(c[1])
                emit(body)
                for t in tail:
                    if t[0] == "else":
                        lines.append("#else")
                        dirs.append("else")
                        emit(t[1])
                    else:
                        lines.append(t[1][0])
                        dirs.append(t[1][1])
                        emit(t[2])
                lines.append("#endif")
                dirs.append("endif")
            mark()
    emit(prog)
    return lines, dirs


def run(ck):
    quick = ck.quick
    rng = ck.rng
    ch, err = c09_cmds.main()
    ck.oblige("translator c09_cmds.py found the directive dispatch of process_directive / skip_false_if_block", err is None, err or "")
    ck.lean_obligations("IgVerif.Props.C09", THEOREMS, PARTIAL)
    ck.trusted += ["tools/extract/c09_cmds.py (regex over the two dispatch chains)", "gcc -E -P as the reference conforming preprocessor",
                   "the model abstracts a source file to its sequence of directive lines and marker declarations"]
    ck.trusted += ["Model/SkipScan.lean is a hand-written character-level model of skip_false_if_block and its helpers, tied to the code by the skipped-text stream only"]
    bdir = iglib.build_repo("std")
    wd = workdir(ck)
    ck.rule = ("well-nested directive programs: EVERY program over a small alphabet with at most N directive lines (N=4 quick, 6 thorough), plus random "
               "programs up to depth 5 with #if expressions over macros/defined()/undefined identifiers, #define/#undef/#error inside groups, comments "
               "containing directive-like text; surviving markers from parse_file -E are compared with the Lean machine and with gcc -E -P")
    try:
        progs = []
        for p in enumerate_small(4 if quick else 6):
            progs.append(render_enum(p))
        exhaustive = len(progs)
        if quick and len(progs) > 400:
            progs = rng.sample(progs, 400)
        ck.extra["enumerated_small_programs"] = exhaustive
        for _ in range(150 if quick else 4000):
            g = Gen(rng)
            pre_l, pre_d = [], []
            if rng.random() < 0.4:
                m, t = rng.choice(MACROS), rng.choice(MACROS + ["UNSET_LEVEL"])
                pre_l, pre_d = ["#define %s %s" % (m, t)], ["alias %s %s" % (m, t)]
            lines, dirs = g.blocks(rng.choice([2, 3, 5]), [rng.choice([6, 12, 25])])
            lines, dirs = pre_l + lines, pre_d + dirs
            k = g.marker()
            lines.append("int m%d;" % k)
            dirs.append("text %d" % k)
            progs.append((lines, dirs))
        # macros whose body is another identifier, tested by conditions that are true exactly when the value is 0
        for _ in range(60 if quick else 600):
            lines, dirs = [], []
            k = 0
            names = ["A", "B", "C"]
            for m in rng.sample(names, rng.randrange(1, 4)):
                t = rng.choice(["UNSET_LEVEL", "UNSET_LEVEL", "A", "B", "C", "7"])
                if t == "7":
                    lines.append("#define %s 7" % m)
                    dirs.append("define %s 7" % m)
                else:
                    lines.append("#define %s %s" % (m, t))
                    dirs.append("alias %s %s" % (m, t))
            for _ in range(rng.randrange(1, 5)):
                m = rng.choice(names)
                ctext, csx = rng.choice([("%s == 0" % m, "( bin eq ( ident %s ) ( int 0 ) )" % m), ("!%s" % m, "( un lnot ( ident %s ) )" % m),
                                         ("%s + 1 == 1" % m, "( bin eq ( bin add ( ident %s ) ( int 1 ) ) ( int 1 ) )" % m),
                                         ("%s" % m, "( ident %s )" % m), ("%s < 1" % m, "( bin lt ( ident %s ) ( int 1 ) )" % m)])
                lines += ["#if " + ctext, "int m%d;" % k]
                dirs += ["if " + csx, "text %d" % k]
                k += 1
                if rng.random() < 0.5:
                    m2 = rng.choice(names)
                    lines += ["#elif !%s" % m2, "int m%d;" % k]
                    dirs += ["elif ( un lnot ( ident %s ) )" % m2, "text %d" % k]
                    k += 1
                if rng.random() < 0.5:
                    lines += ["#else", "int m%d;" % k]
                    dirs += ["else", "text %d" % k]
                    k += 1
                lines.append("#endif")
                dirs.append("endif")
            progs.append((lines, dirs))
        # function-like macros in conditions, with arguments that contain commas and parentheses inside character literals, and numbers with
        # digit separators (C++ only: compared with g++ -E, not modelled)
        cprogs = []
        for _ in range(20 if quick else 300):
            a = rng.choice(["','", "'('", "')'", "'x'", "1'0", "0x1'F", "'\\''", "2"])
            b = rng.choice(["','", "')'", "5", "1'000", "'('"])
            val = {"','": 44, "'('": 40, "')'": 41, "'x'": 120, "1'0": 10, "0x1'F": 31, "'\\''": 39, "2": 2}[a]
            cmpv = rng.choice([val, val + 1])
            cprogs.append(["#define FIRST(a, b) a", "#define SECOND(a, b) b", "#if FIRST(%s, %s) == %d" % (a, b, cmpv), "int m0;", "#else", "int m1;", "#endif",
                           "#if SECOND(%s, FIRST(%s, %s)) == %d" % (b, a, b, cmpv), "int m2;", "#endif", "int m3;"])
        for lines in cprogs:
            text = "\n".join(lines) + "\n"
            (wd / "cp.h").write_text(text)
            rc, so, se = iglib.sh([str(bdir / "bin" / "parse_file"), "-E", "cp.h"], cwd=str(wd), timeout=30)
            rc2, so2, se2 = iglib.sh(["g++", "-E", "-P", "-x", "c++", "-std=c++17", "cp.h"], cwd=str(wd), timeout=30)
            ck.search_case("gcc-reference")
            if rc2 != 0:
                continue
            kept, ref = re.findall(r"\bint m(\d+) ?;", so), re.findall(r"\bint m(\d+) ?;", so2)
            if rc < 0 or rc >= 126:
                ck.violation("crash", "parse_file died (%d) on a condition with a function-like macro" % rc, {"input.h": text}, se[-1500:])
            elif kept != ref:
                ck.violation("groups-differ:macro-arguments", "parse_file keeps markers %s, g++ -E keeps %s" % (kept, ref), {"input.h": text, "cmd.txt": "parse_file -E input.h   vs   g++ -E -P -x c++ input.h\n"}, se[-1500:])
        # run the model on everything in one go
        model = iglib.run_driver("cond", ["cond " + " ; ".join(d) for _, d in progs], timeout=1200)
        for idx, ((lines, dirs), mline) in enumerate(zip(progs, model)):
            src = wd / ("p%d.c" % idx)
            text = "\n".join(lines) + "\n"
            src.write_text(text)
            rc, so, se = iglib.sh([str(bdir / "bin" / "parse_file"), "-E", src.name], cwd=str(wd), timeout=30)
            kept = re.findall(r"\bint m(\d+) ?;", so)
            errors = 1 if re.search(r"error: kept error|kept error", se) else 0
            mm = re.match(r"kept=([\d,]*) errors=(\d+)", mline)
            mkept = [x for x in mm.group(1).split(",") if x] if mm else None
            merr = int(mm.group(2)) if mm else -1
            ok = mm is not None and kept == mkept and (errors > 0) == (merr > 0)
            ck.corr_case("kept-groups", text if len(text) < 500 else text[:500], ok, detail="parse_file kept %s err=%d | model %s" % (kept, errors, mline),
                         feature=["lines<=%d" % (10 * (1 + len(lines) // 10)), "exhaustive" if idx < exhaustive and not quick else "sampled"])
            ck.search_case("gcc-reference")
            rc2, so2, se2 = iglib.sh(["gcc", "-E", "-P", "-x", "c", src.name], cwd=str(wd), timeout=30)
            ref = re.findall(r"\bint m(\d+) ?;", so2)
            referr = 1 if "kept error" in se2 else 0
            if ref != kept or (referr > 0) != (errors > 0):
                ck.violation("groups-differ", "parse_file keeps markers %s (#error acted on: %s), a conforming preprocessor (gcc -E) keeps %s (#error: %s)" % (kept, bool(errors), ref, bool(referr)),
                             {"input.c": text, "cmd.txt": "parse_file -E input.c   vs   gcc -E -P -x c input.c\n"})
            if rc < 0:
                ck.violation("crash", "parse_file died with signal %d on a well-nested conditional program" % -rc, {"input.c": text})
        # ---- the character-level scanner of skipped text: Lean SkipScan model vs parse_file vs gcc --------------------------------------
        texts = []
        for _ in range(120 if quick else 3000):
            body = []
            depth = 0
            for _ in range(rng.randrange(1, 9)):
                r = rng.random()
                if r < 0.55:
                    t = rng.choice(NOISE)
                    body.append(t % len(body) if "%d" in t else t)
                elif r < 0.7:
                    body.append("int lost%d;" % len(body))
                elif r < 0.85:
                    body.append(rng.choice(["#if 1", "#ifdef A", "#ifndef A", "# if 0", "#if defined(A) /* c */"]))
                    depth += 1
                elif depth > 0:
                    body.append(rng.choice(["#endif", "# endif // x", "#else", "#elif 1"]))
                    if body[-1].replace(" ", "").startswith("#endif"):
                        depth -= 1
            body += ["#endif"] * depth
            end = rng.choice(["#endif", "# endif", "#else\nint kept_else;\n#endif", "#elif 1\nint kept_elif;\n#endif", "#endif /* tail */"])
            texts.append("\n".join(body) + "\n" + end + "\nint kept_after;\n")
        model = iglib.run_driver("lit", ["skip " + t.encode().hex() for t in texts], timeout=600)
        for idx, (t, mline) in enumerate(zip(texts, model)):
            src = wd / ("s%d.c" % idx)
            text = "#if 0\n" + t
            src.write_text(text)
            rc, so, se = iglib.sh([str(bdir / "bin" / "parse_file"), "-E", src.name], cwd=str(wd), timeout=30)
            kept = re.findall(r"\bint ((?:kept|lost)\w+) ?;", so)
            mend, mrest = mline.split(" ", 1) if " " in mline else (mline, "")
            rest = bytes.fromhex(mrest).decode("latin-1")
            # what the model predicts survives: the scanner stops at the directive that ends the group; after #else / a true #elif the
            # following text up to #endif is kept, then everything behind it
            mk = re.findall(r"\bint ((?:kept|lost)\w+) ?;", re.sub(r'"(?:\\.|[^"\\\n])*"|/\*.*?\*/|//[^\n]*', " ", rest, flags=re.S))
            ck.corr_case("skipped-text-vs-SkipScan-model", text if len(text) < 400 else text[:400], kept == mk, detail="parse_file keeps %s | model: ends with %s, keeps %s" % (kept, mend, mk),
                         feature=["ends-" + mend] + (["string"] if '"' in t else []) + (["null-directive"] if re.search(r"^#\s*(/\*.*?\*/)?\s*$", t, re.M) else []))
            ck.search_case("gcc-reference")
            rc2, so2, se2 = iglib.sh(["gcc", "-E", "-P", "-x", "c", src.name], cwd=str(wd), timeout=30)
            ref = re.findall(r"\bint ((?:kept|lost)\w+) ?;", so2)
            if ref != kept:
                ck.violation("groups-differ:skipped-text", "parse_file keeps %s, a conforming preprocessor (gcc -E) keeps %s" % (kept, ref),
                             {"input.c": text, "cmd.txt": "parse_file -E input.c   vs   gcc -E -P -x c input.c\n"})
    finally:
        shutil.rmtree(wd, ignore_errors=True)
