"""C20 — the query interface is total and name lookups are exact."""
import shutil

import iglib
from extract import dbschema, c20_guards
from gen import dbgen
from props.c12 import workdir, run_both

THEOREMS = [
    "IgVerif.C20.c20_guards_extracted", "IgVerif.C20.c20_all_accessors_guarded", "IgVerif.C20.c20_getAt_neutral",
    "IgVerif.C20.c20_getAt_valid", "IgVerif.C20.c20_record_neutral", "IgVerif.C20.c20_lookup_bits",
    "IgVerif.C20.c20_lookup_sound", "IgVerif.C20.c20_lookup_absent", "IgVerif.C20.c20_lookup_unique",
    "IgVerif.C20.c20_cache_inv_reachable", "IgVerif.C20.c20_bsearch_terminates", "IgVerif.C20.c20_bsearch_found",
    "IgVerif.C20.c20_bsearch_absent", "IgVerif.C20.c20_unique_name_unknown_lib", "IgVerif.C20.c20_unique_name_absent",
    "IgVerif.C20.c20_unique_name_found",
    "IgVerif.C20.c20_module_ranges", "IgVerif.C20.c20_fptr_exact", "IgVerif.C20.c20_fptr_outside", "IgVerif.C20.c20_module_search",
]
LKS = {"type_name": ("type", "_name"), "type_scoped_name": ("type", "_scoped_name"), "type_true_name": ("type", "_true_name"),
       "manifest_name": ("manifest", "_name"), "element_name": ("element", "_name"), "element_scoped_name": ("element", "_scoped_name")}
ENUMS = ["global_types", "all_types", "global_functions", "all_functions", "global_manifests", "global_elements"]


def mutate(rng, b):
    r = rng.random()
    if r < 0.3:
        return b + bytes([rng.choice(b"xyz_ ")])
    if r < 0.5 and b:
        return b[:-1]
    if r < 0.7 and b:
        i = rng.randrange(len(b))
        return b[:i] + bytes([(b[i] + 1) % 256]) + b[i + 1:]
    return bytes(rng.choice(b"abcXYZ \n\xff") for _ in range(rng.randrange(0, 9)))


def run(ck):
    quick = ck.quick
    rng = ck.rng
    ch, err = dbschema.main()
    ck.oblige("translator dbschema.py parsed the record classes", err is None, err or "")
    ch, err = c20_guards.main()
    ck.oblige("translator c20_guards.py found the positional accessors", err is None, err or "")
    ck.lean_obligations("IgVerif.Props.C20", THEOREMS)
    ck.trusted += ["tools/extract/c20_guards.py (regex scan of *.I / interrogateDatabase.cxx for `v[n]` under `if (n >= 0 && n < bound)`)",
                   "harness/dbq.cxx (table mapping (kind, member) to interrogate_* functions)",
                   "std::map / std::vector behave as the assoc-list / list model"]
    ck.assumptions += ["module_name / library_name accessors return a null pointer (treated as neutral) when no module is attached; not compared with the model",
                       "memory safety of out-of-range reads is observed through the harness (fake fptr table embedded in a larger array), not proved"]
    exe = iglib.build_harness("dbq", extra_flags=["-fno-access-control"])
    lay = dbgen.Layouts()
    wd = workdir(ck)
    ck.rule = ("generated databases (closed and deliberately dangling), module definitions with unique-name tables of every size, "
               "request/lookup interleavings; every op list runs through libinterrogatedb (harness/dbq) and the Lean model; "
               "distinct = distinct op list; separately every answer is compared with the property's own oracle")
    try:
        # ---- full index x position sweep ---------------------------------------------------
        for n in range(6 if quick else 80):
            closed = n % 3 != 2
            g = dbgen.DbGen(lay, rng, nasty=0.3, max_per_kind=rng.choice([2, 4]), closed=closed, canonical=closed)
            db = g.generate()
            p = wd / ("sweep%d.in" % n)
            p.write_bytes(dbgen.enc_file(lay, db))
            total = sum(len(db[k]) for k in dbgen.KINDS)
            idxs = list(range(-2, total + 4)) + [2147483647, -2147483648]
            poss = list(range(-1, 7)) + [2147483647, -2147483648]
            ops = ["reset", "reqfile %s" % p, "enumcnt all_types"]
            ops += dbgen.query_ops(lay, rng, idxs, poss, dbgen.all_names(db) + [b"", b"?"], budget=600 if quick else 3000)
            for i in idxs:
                for q in (-1, 0, 1, 2, 7, 2147483647):
                    ops.append("sweepall %d %d" % (i, q))
            impl, st, err_, model = run_both(ck, exe, ops)
            diffs = iglib.diff_streams(ops, impl, model)
            if st != "ok":
                diffs.append((len(impl), ops[min(len(impl), len(ops) - 1)], st, "ok"))
            ck.corr_case("sweep", {"db": p.name, "closed": closed, "entries": total, "ops": len(ops)}, not diffs, detail=repr(diffs[:3]),
                         feature=["closed" if closed else "dangling"])
            ck.search_case("total-no-crash", len(ops))
            if st != "ok":
                bad = ops[min(len(impl), len(ops) - 1)]
                ck.violation("crash:" + bad.split()[0], "the query interface did not return (%s) on `%s` after loading %s" % (st, bad, p.name),
                             {"db.in": p.read_bytes(), "ops.txt": "\n".join(ops) + "\n"}, err_)
            # enumeration oracle: accessor non-zero exactly below the count (live indices are non-zero)
            if st == "ok":
                for e in ENUMS:
                    ops2 = ["enumcnt " + e] + ["enum %s %d" % (e, k) for k in range(-2, 12)]
                    a2, st2, _ = iglib.run_harness(exe, ["reset", "reqfile %s" % p] + ops2)
                    ck.search_case("enum-count")
                    if st2 == "ok":
                        cnt = int(a2[2])
                        for k, ans in zip(range(-2, 12), a2[3:]):
                            if (ans != "0") != (0 <= k < cnt):
                                ck.violation("enum:%s" % e, "enumeration %s reports count %d but accessor(%d) = %s" % (e, cnt, k, ans),
                                             {"db.in": p.read_bytes()})
                                break

        # ---- lookups: every stored name, mutated and absent names; interleaved with later requests --------
        for n in range(6 if quick else 80):
            files = []
            for j in range(rng.randrange(1, 4)):
                g = dbgen.DbGen(lay, rng, nasty=0.3, max_per_kind=3, canonical=True)
                db = g.generate()
                p = wd / ("lk%d_%d.in" % (n, j))
                p.write_bytes(dbgen.enc_file(lay, db))
                files.append((p, db))
            ops = ["reset"]
            probes = []
            for p, db in files:
                ops.append("reqfile %s" % p)
                names = dbgen.all_names(db)
                cand = names + [mutate(rng, x) for x in names[:6]] + [b"", b"absent"]
                for prev_p, prev_db in files[:files.index((p, db))]:
                    cand += dbgen.all_names(prev_db)[:4]
                cand = [x for x in cand if b"\x00" not in x]      # the lookup interface takes a C string
                for nm in cand:
                    for lk in LKS:
                        if rng.random() < (0.5 if quick else 1.0):
                            ops.append("lookup %s %s" % (lk, dbgen.hexs(nm)))
                            probes.append((len(ops) - 1, lk, nm))
            # ask each answer's own name back
            impl, st, err_, model = run_both(ck, exe, ops)
            diffs = iglib.diff_streams(ops, impl, model)
            if st != "ok":
                diffs.append((len(impl), "<process>", st, "ok"))
            ck.corr_case("lookup-interleaved", {"files": len(files), "lookups": len(probes)}, not diffs, detail=repr(diffs[:3]), feature="lookup")
            # oracle on the implementation: replay the same session, and after each lookup ask the name of the answer
            ops3 = []
            marks = []
            k = 0
            for i, op in enumerate(ops):
                ops3.append(op)
                if k < len(probes) and probes[k][0] == i:
                    _, lk, nm = probes[k]
                    marks.append((len(ops3) - 1, lk, nm))
                    k += 1
            a3, st3, _ = iglib.run_harness(exe, ops3)
            if st3 == "ok":
                # second pass: names of answers, in a fresh session with everything loaded
                final = ["reset"] + ["reqfile %s" % p for p, _ in files] + ["enumcnt all_types"]
                qs = []
                for pos, lk, nm in marks:
                    ans = a3[pos]
                    kind, member = LKS[lk]
                    qs.append((pos, lk, nm, ans))
                # we cannot index the final session by the same numbers unless the load order is the same: it is.
                for pos, lk, nm, ans in qs:
                    kind, member = LKS[lk]
                    final.append("q str %s %s %s" % (kind, ans, member))
                a4, st4, _ = iglib.run_harness(exe, final)
                ck.search_case("lookup-exact", len(qs))
                if st4 == "ok":
                    # which names exist where, at the time of each lookup: count bearers among files requested so far
                    # types of equal true name are identified when files are merged and the winning record keeps *its* names: the names of
                    # such types are not judged here (they are C13's business)
                    seen_true = {}
                    for fi, (_, d) in enumerate(files):
                        for _, r in d["type"]:
                            seen_true.setdefault(r["_true_name"], set()).add(fi)
                    shared = set(t for t, fs in seen_true.items() if len(fs) > 1)
                    tainted = dict((mem, set(r[mem] for _, d in files for _, r in d["type"] if r["_true_name"] in shared)) for mem in ("_name", "_scoped_name", "_true_name"))
                    for (pos, lk, nm, ans), got in zip(qs, a4[len(files) + 2:]):
                        kind, member = LKS[lk]
                        if kind == "type" and (nm in tainted[member] or (got != "-" and bytes.fromhex(got) in tainted[member])):
                            ck.extra["lookups_on_merged_types_not_judged"] = ck.extra.get("lookups_on_merged_types_not_judged", 0) + 1
                            continue
                        nreq = sum(1 for o in ops[:pos + 1] if o.startswith("reqfile"))
                        bearers = sum(1 for _, d in files[:nreq] for _, r in d[kind] if r[member] == nm)
                        if ans != "0" and got != dbgen.hexs(nm):
                            ck.violation("lookup-wrong:%s" % lk, "lookup %s(%r) returned index %s whose %s is %s" % (lk, nm, ans, member, got),
                                         dict([(p.name, p.read_bytes()) for p, _ in files] + [("ops.txt", "\n".join(ops) + "\n")]))
                            break
                        if ans == "0" and bearers > 0:
                            ck.violation("lookup-missed:%s" % lk, "lookup %s(%r) returned 0 although %d loaded entr%s bear%s that name (files requested before the lookup: %d)" % (lk, nm, bearers, "y" if bearers == 1 else "ies", "s" if bearers == 1 else "", nreq),
                                         dict([(p.name, p.read_bytes()) for p, _ in files] + [("ops.txt", "\n".join(ops) + "\n")]))
                            break
                        if ans != "0" and bearers == 0:
                            ck.violation("lookup-phantom:%s" % lk, "lookup %s(%r) returned %s although no loaded entry bears that name" % (lk, nm, ans),
                                         dict([(p.name, p.read_bytes()) for p, _ in files] + [("ops.txt", "\n".join(ops) + "\n")]))
                            break

        # ---- unique-name tables of every size, keys in every gap, odd lengths -------------------------
        sizes = list(range(0, 7)) if quick else list(range(0, 41))
        for size in sizes:
            alphabet = b"abcdefghijklmnopqrstuvwxyz"
            names = set()
            while len(names) < size:
                names.add(bytes(rng.choice(alphabet) for _ in range(rng.choice([1, 2, 4, 4, 4, 6]))))
            table = sorted(names)
            offs = list(range(size))
            rng.shuffle(offs)
            lib = bytes(rng.choice(b"LMNO") for _ in range(4))
            first_guess = rng.randrange(1, 5)
            ops = ["reset"]
            # a preceding module shifts the index range
            if rng.random() < 0.5:
                ops.append("reqmod 0 %s %s 1 %d 3 ~ 0" % (dbgen.hexs(b"libp"), dbgen.hexs(b"PPPP"), 1 + first_guess))
            reqmod = "reqmod 0 %s %s 1 %d %d ~ %d" % (dbgen.hexs(b"libx"), dbgen.hexs(lib), 1 + size + 2, size, size)
            for nm, off in zip(table, offs):
                reqmod += " %s %d" % (dbgen.hexs(nm), off)
            ops.append(reqmod)
            keys = set(table)
            for nm in table:
                keys.add(nm + b"a")
                keys.add(nm[:-1])
                keys.add(nm[:-1] + bytes([min(255, nm[-1] + 1)]))
                keys.add(nm[:-1] + bytes([max(0, nm[-1] - 1)]))
            keys |= {b"", b"a", b"zzzzzzzz", b"\xff", b"mmmm"}
            probes = []
            for kname in sorted(keys):
                full = lib + kname
                ops.append("uniq %s" % dbgen.hexs(full))
                probes.append((len(ops) - 1, kname))
            for short in (b"", b"L", lib[:2], lib[:3], lib, b"XXXX" + (table[0] if table else b"q")):
                ops.append("uniq %s" % dbgen.hexs(short))
            for w in range(-3, size + 12):
                ops.append("fptr %d" % w)
            impl, st, err_, model = run_both(ck, exe, ops, timeout=60)
            diffs = iglib.diff_streams(ops, impl, model)
            if st != "ok":
                diffs.append((len(impl), ops[min(len(impl), len(ops) - 1)], st, "ok"))
            ck.corr_case("unique-names", {"table_size": size, "probes": len(probes)}, not diffs, detail=repr(diffs[:3]), feature="table=%d" % size)
            ck.search_case("unique-name-exact", len(probes))
            if st != "ok":
                bad = ops[min(len(impl), len(ops) - 1)]
                ck.violation("uniq-crash", "unique-name lookup / fptr query did not return (%s) on `%s` with a table of %d names" % (st, bad, size),
                             {"ops.txt": "\n".join(ops) + "\n"}, err_)
            else:
                first = 1 + (first_guess if any(o.startswith("reqmod 0 %s" % dbgen.hexs(b"libp")) for o in ops) else 0)
                tab = dict(zip(table, offs))
                for pos, kname in probes:
                    want = str(first + tab[kname]) if kname in tab else "0"
                    if impl[pos] != want:
                        ck.violation("uniq-wrong", "unique name %r (table %r) -> %s, expected %s" % (kname, table, impl[pos], want),
                                     {"ops.txt": "\n".join(ops) + "\n"})
                        break
                # modules in request order: (first, number of indices, number of function pointers)
                mods = []
                nxt = 1
                if first != 1:
                    mods.append((nxt, first_guess, 3))
                    nxt += first_guess
                mods.append((nxt, size + 2, size))
                for w, pos in zip(range(-3, size + 12), range(len(ops) - (size + 15), len(ops))):
                    want = "none"
                    for mi, (f0, cnt, nf) in enumerate(mods):
                        if f0 <= w < f0 + cnt and w - f0 < nf:
                            want = "%d:%d" % (mi, w - f0)
                    if impl[pos] != want:
                        ck.violation("fptr-wrong", "interrogate_wrapper_pointer(%d) = %s, expected %s (modules (first,count,fptrs): %r)" % (w, impl[pos], want, mods),
                                     {"ops.txt": "\n".join(ops) + "\n"})
                        break
    finally:
        shutil.rmtree(wd, ignore_errors=True)
