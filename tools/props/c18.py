"""C18 — floating-point literals keep their value from header to generated code."""
import random
import re
import shutil
import struct

import iglib
from extract import c18_powers
from props.c12 import workdir

THEOREMS = ["IgVerif.C18.c18_extraction_ok", "IgVerif.C18.c18_cached_powers", "IgVerif.C18.c18_write_exponent"]
PARTIAL = [("c18_roundtrip : correctly rounded parse of pdtoa(v) = v for every finite double",
            "Loitsch's DigitGen/GrisuRound invariant is not proved; the Lean model of Grisu2 (exact integer arithmetic, bit-for-bit equal to pdtoa on "
            "every double compared) and the cached-power table theorem are what is machine-checked; the round trip itself is decided per run on "
            "stratified doubles (every float32 value in the thorough tier) against the exact rounding model and glibc strtod"),
           ("c18_prettify_exact", "the five layout branches of Prettify are compared digit-for-digit with the real output; only WriteExponent is a theorem"),
           ("c18_pstrtod_correct", "pstrtod now scans the literal and delegates to strtod: agreement with the exact Lean rounding model rneDec is decided per run, also under ','-decimal-point locales")]


def bits(d):
    return struct.unpack("<Q", struct.pack("<d", d))[0]


def dbl(b):
    return struct.unpack("<d", struct.pack("<Q", b))[0]


def hx(s):
    return s.encode().hex() if s else "-"


def gen_doubles(rng, n):
    out = []
    specials = [0.1, 0.3, 0.7, 1.7, 1.15, 3.14159, 1e23, 1e22, 1e21, 9.5e20, 5e-324, 2.2250738585072014e-308, 2.225073858507201e-308,
                1.7976931348623157e308, 1e-5, 1e-6, 1e-7, 123456789012345680.0, 0.5, 2.0 ** 53, 2.0 ** 63, 2.0 ** 64, 1.5e105, 2.5e-203, 7e300,
                1e100, 1e-100, 1e200, 1e-200, 1e300, 1e-300, 1.234e105, 9.87e-106, 1e9, 1e10, 4.35, 0.000001, 100.0, 1e15, 1e16, 1e17]
    out += specials
    for k in range(-323, 309, 3):
        out.append(float("1e%d" % k))
        out.append(float("9.999999999999999e%d" % k) if k < 308 else 1e308)
    for e in range(0, 2046, 7):
        out.append(dbl((e << 52) | rng.getrandbits(52)))
        out.append(dbl(e << 52))                        # powers of two: the asymmetric boundary
        out.append(dbl((e << 52) | ((1 << 52) - 1)))
    while len(out) < n:
        r = rng.random()
        if r < 0.5:
            out.append(dbl(rng.getrandbits(63)))
        elif r < 0.6:
            out.append(dbl(rng.getrandbits(52)))            # subnormals
        elif r < 0.8:
            out.append(struct.unpack("<f", struct.pack("<I", rng.getrandbits(31)))[0])   # float32 values
        else:
            out.append(round(rng.uniform(-1e6, 1e6), rng.randrange(0, 8)) or 1.0)
    return [abs(v) for v in out if v == v and v not in (float("inf"), float("-inf"))]


def near_midpoints(rng, n):
    """decimal literals of ~28 significant digits a hair (2^-70 relative) above or below the midpoint of two adjacent doubles:
    a conversion that rounds twice (through a wider intermediate format) picks the wrong neighbour for one of each pair"""
    import math
    from decimal import Decimal, getcontext
    from fractions import Fraction
    getcontext().prec = 60
    out = []
    while len(out) < n:
        d = dbl(((1023 + rng.randrange(-10, 50)) << 52) | rng.getrandbits(52))
        mid = (Fraction(d) + Fraction(math.nextafter(d, math.inf))) / 2
        for sgn in (1, -1):
            v = mid * (1 + sgn * Fraction(1, 2 ** 70))
            t = format(Decimal(v.numerator) / Decimal(v.denominator), "f")
            ip, _, fp = t.partition(".")
            keep = max(1, 28 - len(ip.lstrip("0")))
            out.append(ip + "." + (fp + "0" * keep)[:keep])
    return out


def gen_literals(rng, n):
    out = ["0.3", "0.7", "1.7", "1.15", "3.14159", "1e23", "2.2250738585072014e-308", "100000000000000000000.0", "18446744073709551616.0",
           "250000000000000000000.0", "1.", ".5", "5.e3", "1e", "1e+", "0.1e1", "12345678901234567890123.0", "0.000000000000000000001", "1E5", "1e-400", "1e400",
           "9007199254740993", "9007199254740993.0", "0.1000000000000000055511151231257827", "4.9406564584124654e-324", "2.4703282292062327e-324", "2.4703282292062328e-324"]
    while len(out) < n:
        ip = "".join(rng.choice("0123456789") for _ in range(rng.choice([0, 1, 1, 2, 5, 17, 22])))
        fp = "".join(rng.choice("0123456789") for _ in range(rng.choice([0, 1, 2, 3, 8, 17, 25])))
        if not ip and not fp:
            continue
        s = ip + ("." + fp if fp or rng.random() < 0.2 else "")
        if rng.random() < 0.5:
            s += rng.choice("eE") + rng.choice(["", "+", "-"]) + str(rng.choice([0, 1, 5, 10, 22, 23, 100, 200, 300, 308, 320, rng.randrange(0, 330)]))
        out.append(s)
    return out


def run(ck):
    quick = ck.quick
    rng = ck.rng
    ch, err = c18_powers.main()
    ck.oblige("translator c18_powers.py read the cached power table of pdtoa.cxx", err is None, err or "")
    ck.lean_obligations("IgVerif.Props.C18", THEOREMS, PARTIAL)
    ck.trusted += ["tools/extract/c18_powers.py", "harness/flq.cxx (calls pdtoa/pstrtod of the rebuilt libdtoolbase)",
                   "glibc strtod as an external cross-check of the Lean rounding model rneDec; hardware doubles are IEEE-754 binary64"]
    exe = iglib.build_harness("flq", libs=(), static_libs=("dtoolbase",))
    bdir = iglib.build_repo("std")
    wd = workdir(ck)
    ck.rule = ("(formatter) stratified doubles — every decade, powers of two, subnormals, float32 values, random bit patterns, halfway-prone decimals — "
               "through the real pdtoa and the Lean Grisu2 model (bit-for-bit text equality), then parsed back with the exact rounding model and "
               "glibc strtod; (parser) decimal literal spellings through the real pstrtod (also under a ','-decimal-point locale) against the exact "
               "rounding model; (end to end) literals in default arguments and macros through interrogate; distinct = distinct value/spelling")
    try:
        # ---- formatter -------------------------------------------------------------------------------
        vals = gen_doubles(rng, 6000 if quick else 400000)
        ops = ["dtoa %d" % bits(v) for v in vals]
        impl, st, err_ = iglib.run_harness(exe, ops, timeout=1200)
        model = iglib.run_driver("float", ops, timeout=3000)
        back_ops = ["strtod " + hx(s) for s in impl]
        back_model = iglib.run_driver("float", back_ops, timeout=3000)
        for i, v in enumerate(vals):
            a = impl[i] if i < len(impl) else "<none>"
            ck.corr_case("pdtoa-vs-grisu2-model", v.hex(), a == model[i], detail="pdtoa %s, model %s" % (a, model[i]),
                         nontrivial=True, feature=["subnormal" if v < 2.2250738585072014e-308 else "e%+04d" % (10 * (int(("%e" % v).split("e")[1]) // 10))])
            ck.search_case("format-roundtrip")
            if a == "<none>":
                continue
            exact = back_model[i]
            ref = bits(float(a)) if re.match(r"^[0-9.e+-]+$", a) else None
            if exact != str(bits(v)) or ref != bits(v):
                ck.violation("pdtoa-roundtrip", "pdtoa(%s) = %s, whose correctly rounded value is the double with bits %s (glibc: %s), not %d" % (v.hex(), a, exact, ref, bits(v)),
                             {"value.txt": "%r %s bits=%d\n" % (v, v.hex(), bits(v))})
        if st != "ok":
            ck.violation("pdtoa-crash", "pdtoa crashed: %s" % st, {"ops.txt": "\n".join(ops)}, err_)

        # ---- parser ------------------------------------------------------------------------------------
        mids = near_midpoints(rng, 40 if quick else 2000)
        lits = gen_literals(rng, 3000 if quick else 100000) + mids
        ops = ["strtod " + hx(s) for s in lits]
        model = iglib.run_driver("float", ops, timeout=3000)
        locales = [None]
        rc, so, se = iglib.sh(["locale", "-a"])
        for cand in ("de_DE.utf8", "de_DE.UTF-8", "fr_FR.utf8", "de_DE", "fr_FR.UTF-8", "nl_NL.utf8"):
            if cand in so.split():
                locales.append(cand)
                break
        ck.extra["comma_locale_available"] = locales[1] if len(locales) > 1 else None
        shim = iglib.build_preload("commalocale")
        if len(locales) == 1:
            locales.append("shim:comma")      # no ','-locale is installed: simulate one (localeconv + strtod) with an LD_PRELOAD shim
        for loc in locales:
            if loc == "shim:comma":
                impl, st, err_ = iglib.run_harness(exe, ops, timeout=600, env={"LD_PRELOAD": str(shim)})
            else:
                impl, st, err_ = iglib.run_harness(exe, ops, timeout=600, args=([loc] if loc else []))
            for i, s in enumerate(lits):
                a = impl[i].split()[0] if i < len(impl) else "<none>"
                ck.corr_case("pstrtod-vs-exact-rounding%s" % ("@" + loc if loc else ""), s, a == model[i], detail="pstrtod bits %s, exact rounding %s" % (a, model[i]),
                             feature=["exp" if "e" in s.lower() else "plain", "digits>17" if len(re.sub(r"[^0-9]", "", s.lower().split("e")[0])) > 17 else "digits<=17"])
                ck.search_case("parse-correctly-rounded")
                if a != "<none>" and a != model[i]:
                    try:
                        ref = bits(float(s if not s.lower().endswith(("e", "e+", "e-")) else s[:s.lower().index("e")]))
                    except ValueError:
                        ref = None
                    if ref is not None and str(ref) == model[i]:
                        ck.violation("pstrtod-misrounds", "pstrtod(%r)%s yields the double with bits %s; correctly rounded conversion gives %s" % (s, " under locale " + loc if loc else "", a, model[i]),
                                     {"literal.txt": s + "\n"})
                    else:
                        ck.extra.setdefault("model_vs_glibc_disagreements", []).append([s, model[i], ref])
        # ---- end to end through interrogate -----------------------------------------------------------------
        e2e = rng.sample([l for l in lits if re.match(r"^\d+\.\d+(e[+-]?\d+)?$", l) and len(l) < 30 and float(l) not in (float("inf"), 0.0)], 30 if quick else 300)
        e2e += ["0.3", "1.7", "1.5e105", "2.5e-203", "7e300", "100000000000000000000.0", "3.14159"]
        e2e += ["4.9e-324", "1e-310", "2.2250738585072009e-308", "2.2250738585072014e-308", "1.7976931348623157e308", "8.5e-320"]      # subnormals and the ends of the normal range
        e2e += rng.sample(mids, 24 if quick else 400)
        # values that share their significand and differ only in the binary exponent (x, 2x, 4x, x/2): they must stay distinct
        for base in ["0.75", "0.1", "1.25", "3.3", "%d.%d" % (rng.randrange(1, 99), rng.randrange(1, 99))]:
            v = float(base)
            e2e += [repr(v * f) for f in (1.0, 2.0, 4.0, 0.5, 8.0)]
        hdr = "class F {\n__published:\n" + "".join("  void f%d(double x = %s);\n" % (i, l) for i, l in enumerate(e2e)) + "};\n"
        hp = wd / "lits.h"
        hp.write_text(hdr)
        rc, so, se = iglib.sh([str(bdir / "bin" / "interrogate"), "-D__cplusplus", "-oc", "l.cxx", "-od", "l.in", "-module", "m", "-library", "l", "-python-native", "lits.h"], cwd=str(wd), timeout=120)
        if rc == 0:
            code = (wd / "l.cxx").read_text(errors="replace")
            for i, l in enumerate(e2e):
                ck.search_case("literal-survives-interrogate")
                m = re.search(r"F::f%d\(double x = ([^)]*)\)" % i, code)
                if not m:
                    continue
                try:
                    got = float(m.group(1))
                except ValueError:
                    continue
                ck.corr_case("end-to-end-literal", l, bits(got) == bits(float(l)), detail="written back as %s" % m.group(1), feature="e2e")
                if bits(got) != bits(float(l)):
                    ck.violation("literal-changed", "the literal %s in a default argument is written back as %s, a different double" % (l, m.group(1)), {"lits.h": hdr})
    finally:
        shutil.rmtree(wd, ignore_errors=True)
