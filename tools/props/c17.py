"""C17 — include lookup, once-only inclusion, path normalisation and file ownership."""
import itertools
import os
import re
import shutil

import iglib
from gen import dbgen
from props.c12 import workdir

THEOREMS = ["IgVerif.C17.c17_std_idempotent", "IgVerif.C17.c17_std_denotes", "IgVerif.C17.c17_std_nonempty_relative",
            "IgVerif.C17.c17_angle_only_S", "IgVerif.C17.c17_noangles_like_quotes", "IgVerif.C17.c17_search_order",
            "IgVerif.C17.c17_missing_skipped", "IgVerif.C17.c17_S_never_local", "IgVerif.Path.stdC_idem", "IgVerif.Path.stdC_denotes"]
PARTIAL = [("c17_once (two spellings of one file contribute its declarations once)",
            "once-only inclusion across spellings relies on realpath()/chdir canonicalisation by the OS; it is checked on generated layouts "
            "(., .., repeated slashes, symlinks), not modelled"),
           ("symbolic links and `..`", "c17_std_denotes assumes a tree without symbolic links: textual `..` removal cannot be denotation-preserving "
            "across a symlinked directory; see known_findings.json")]


def hx(s):
    return s.encode().hex() if s else "-"


def unhx(h):
    return "" if h == "-" else bytes.fromhex(h).decode()


def run(ck):
    quick = ck.quick
    rng = ck.rng
    ck.lean_obligations("IgVerif.Props.C17", THEOREMS, PARTIAL)
    ck.trusted += ["harness/pathq.cxx (calls Filename::standardize / make_absolute / make_canonical of the rebuilt libdtoolutil)",
                   "the OS (stat, realpath, chdir) as the meaning of a path; os.path.samefile as the oracle for 'denotes the same file'",
                   "tools/props/c17.py layout generator and its prediction of the include search (mirrors Model/Include.lean)"]
    ck.assumptions += ["a path is modelled as its global flag and non-empty components: splitting on '/' is done by the driver, not proved"]
    exe = iglib.build_harness("pathq", libs=(), static_libs=("dtoolutil", "dtoolbase"))
    bdir = iglib.build_repo("std")
    wd = workdir(ck)
    ck.rule = ("(paths) every path over the component alphabet {a, b, ., .., empty} up to 5 components (6 thorough), relative and absolute, run "
               "through the real Filename::standardize and the Lean model; idempotence and same-file oracles against a real directory tree; "
               "(layouts) small directory trees with same-named headers in the working directory, the includer's directory, -I and -S directories, "
               "quote/angle forms, -noangles, several spellings of a #pragma once header, symlinks; included markers and exported classes compared with the search-order model")
    try:
        # ---- (a) path normalisation ---------------------------------------------------------------------
        tree = wd / "tree"
        for d in ("a/a", "a/b", "b/a", "b/b"):
            (tree / d).mkdir(parents=True)
        for f in ("a/f", "b/f", "f", "a/a/f"):
            (tree / f).write_text("x")
        alphabet = ["a", "b", ".", "..", ""]
        maxlen = 5 if quick else 6
        paths = set()
        for n in range(1, maxlen + 1):
            for combo in itertools.product(alphabet, repeat=n):
                s = "/".join(combo)
                if s:
                    paths.add(s)
                    paths.add("/" + s)
        paths = sorted(paths)
        if quick and len(paths) > 3000:
            paths = sorted(rng.sample(paths, 3000) + ["a/..", "a/b/../..", "./a/..", "a/../..", "/a/..", "../a/.."])
        ops = []
        for p in paths:
            ops += ["std " + hx(p), "std2 " + hx(p)]
        impl, st, err_ = iglib.run_harness(exe, ops, timeout=600)
        model = iglib.run_driver("path", ops, timeout=600)
        cwd_save = os.getcwd()
        for i, p in enumerate(paths):
            a1, a2 = (impl[2 * i], impl[2 * i + 1]) if 2 * i + 1 < len(impl) else ("<none>", "<none>")
            m1 = model[2 * i]
            ck.corr_case("standardize", p, a1 == m1, detail="Filename::standardize -> %r, model -> %r" % (unhx(a1) if a1 != "<none>" else a1, unhx(m1)),
                         feature=["abs" if p.startswith("/") else "rel", "len%d" % p.count("/")])
            ck.search_case("idempotent-and-same-file")
            if a1 == "<none>":
                continue
            r1 = unhx(a1)
            if a2 != a1:
                ck.violation("not-idempotent", "standardize(%r) = %r but standardizing again gives %r" % (p, r1, unhx(a2)), {"path.txt": p + "\n"})
                continue
            if not p.startswith("/"):
                try:
                    os.chdir(tree / "a")
                    if os.path.exists(p):
                        if r1 == "" or not os.path.exists(r1) or not os.path.samefile(p, r1):
                            ck.violation("denotation-changed", "in a tree without symlinks %r denotes an existing entry but its standardized form %r %s" % (
                                p, r1, "is the empty path (denotes nothing)" if r1 == "" else "does not denote the same entry"), {"path.txt": p + "\n"},
                                "cwd = <tree>/a with directories a/a a/b b/a b/b and files a/f b/f f a/a/f")
                finally:
                    os.chdir(cwd_save)
        if st != "ok":
            ck.violation("crash-standardize", "Filename::standardize crashed (%s)" % st, {"ops.txt": "\n".join(ops)}, err_)

        # ---- (b) include layouts ------------------------------------------------------------------------
        n_lay = 25 if quick else 400
        for n in range(n_lay):
            L = wd / ("lay%d" % n)
            cwd = L / "cwd"
            (cwd / "sub").mkdir(parents=True)
            dirs = {"I1": L / "i1", "I2": L / "i2", "S1": L / "s1", "S2": L / "s2"}
            for d in dirs.values():
                (d / "sub").mkdir(parents=True)
            # header x.h may exist in: cwd, includer's dir (we include from mid.h living in I1/sub or cwd/sub), I1, I2, S1, S2
            places = {"cwd": cwd, "I1": dirs["I1"], "I2": dirs["I2"], "S1": dirs["S1"], "S2": dirs["S2"]}
            present = [k for k in places if rng.random() < 0.45]
            for k in present:
                (places[k] / "x.h").write_text("#pragma once\nclass X_%s {\n__published:\n  int f();\n};\nint in_%s;\n" % (k, k))
            # the includer: either main.h in cwd, or mid.h found through I1/sub (its directory is searched second)
            via_mid = rng.random() < 0.4
            form = rng.choice(['"x.h"', '"x.h"', "<x.h>", "<x.h>", '"./x.h"', "<./x.h>", '"sub/../x.h"', "<sub/../x.h>", '".//x.h"'])      # every directory has a sub/
            if via_mid:
                mid_dir = dirs["I1"] / "sub"
                if rng.random() < 0.5:
                    (mid_dir / "x.h").write_text("#pragma once\nclass X_mid {\n__published:\n  int f();\n};\nint in_mid;\n")
                    present.append("mid")
                (mid_dir / "mid.h").write_text("#include %s\nint in_midfile;\n" % form)
                (cwd / "main.h").write_text('#include "sub/mid.h"\nint in_main;\n')
            else:
                (cwd / "main.h").write_text("#include %s\nint in_main;\n" % form)
            order = rng.sample(["I1", "I2", "S1", "S2"], rng.randrange(0, 5))
            noangles = rng.random() < 0.25
            args = []
            for o in order:
                args += ["-I" if o.startswith("I") else "-S", str(dirs[o])]
            if via_mid and "I1" not in order:
                args += ["-I", str(dirs["I1"])]
                order.append("I1")
            pf = [str(bdir / "bin" / "parse_file"), "-E"] + args + ["main.h"]
            if noangles:
                # parse_file has no -noangles; interrogate has
                pass
            # prediction (Model/Include.lean)
            angle = form.startswith("<") and not noangles
            if angle:
                cands = [o for o in order if o.startswith("S")]
            else:
                cands = ["cwd"] + (["mid"] if via_mid else ["cwd"]) + order
            found = next((c for c in cands if c in present), None)
            expect = "in_%s" % found if found else None
            igcmd = [str(bdir / "bin" / "interrogate"), "-D__cplusplus", "-oc", "o.cxx", "-od", "o.in", "-module", "m", "-library", "l", "-c", "-fnames"] + \
                (["-noangles"] if noangles else []) + args + ["main.h"]
            rc, so, se = iglib.sh(igcmd, cwd=str(cwd), timeout=60)
            files = {"layout.txt": "present=%s via_mid=%s form=%s order=%s noangles=%s\ncmd: %s\n" % (present, via_mid, form, order, noangles, " ".join(igcmd))}
            got_marker = None
            exported = []
            if rc == 0 and (cwd / "o.in").exists():
                lay = LAY[0] if LAY else None
                if lay is None:
                    LAY.append(dbgen.Layouts())
                    lay = LAY[0]
                db = dbgen.dec_file(lay, (cwd / "o.in").read_bytes())
                exported = sorted(t["_name"].decode() for _, t in db["type"] if t["_name"].startswith(b"X_") and t["_flags"] & lay.enums["type"]["F_fully_defined"] and t["_flags"] & lay.enums["type"]["F_global"])
            if not noangles:
                rc2, so2, se2 = iglib.sh(pf, cwd=str(cwd), timeout=60)
                ms = re.findall(r"\bint (in_(?:cwd|mid|I1|I2|S1|S2)) ?;", so2)
                got_marker = ms[0] if ms else None
                ck.corr_case("include-search", files["layout.txt"], got_marker == expect, detail="parse_file included %s, model %s" % (got_marker, expect),
                             feature=[form[0], "via_mid" if via_mid else "direct", "found=%s" % found])
            # ownership: exported iff found in the working directory
            want_exported = ["X_cwd"] if found == "cwd" else []
            ck.corr_case("ownership", files["layout.txt"], exported == want_exported, detail="exported %s, model %s" % (exported, want_exported),
                         feature=["noangles" if noangles else "angles", "own" if want_exported else "foreign"])
            ck.search_case("lookup-and-ownership")
            if rc != 0:
                ck.violation("interrogate-fails-layout", "interrogate failed on an include layout: %s" % se[-300:], files, se[-2000:])
            elif exported != want_exported:
                ck.violation("ownership", "classes exported %s; only a header found in the working directory (or named on the command line) may be exported: expected %s" % (exported, want_exported), files)
            elif got_marker is not None and got_marker != expect or (not noangles and got_marker is None and expect is not None):
                ck.violation("search-order", "#include %s resolved to %s, the stated search order gives %s" % (form, got_marker, expect), files)

        # ---- (b2) a header named on the command line is the user's own however an earlier #include spelled it ------
        for n in range(12 if quick else 120):
            L = wd / ("exp%d" % n)
            cwd = L / "cwd"
            (L / "lib" / "extra").mkdir(parents=True)
            cwd.mkdir(parents=True)
            (L / "lib" / "bee.h").write_text("#pragma once\nclass Bee {\n__published:\n  int buzz();\n};\n")
            spelling = rng.choice(["bee.h", "./bee.h", "extra/../bee.h", ".//bee.h", "extra/./../bee.h"])
            via = rng.choice(["-I", "includer"])
            if via == "includer":
                (L / "lib" / "first.h").write_text('#include "%s"\nclass First {\n__published:\n  int one();\n};\n' % spelling)
                files_cmd = ["../lib/first.h", "../lib/bee.h"]
                extra = []
            else:
                (cwd / "main.h").write_text('#include "%s"\nclass Main {\n__published:\n  int m();\n};\n' % spelling)
                files_cmd = ["main.h", "../lib/bee.h"]
                extra = ["-I", str(L / "lib")]
            if rng.random() < 0.3:
                files_cmd.reverse()
            # run either in the source directory, or elsewhere with -srcdir naming it (relative output paths then belong to the directory the tool was started in)
            rundir = cwd
            srcdir = []
            if rng.random() < 0.5:
                rundir = L / "elsewhere" / "run"      # (not a sibling of the source directory: `../lib` means something else here)
                rundir.mkdir(parents=True)
                srcdir = ["-srcdir", rng.choice(["../../cwd", str(cwd)])]
                if via == "-I" and rng.random() < 0.5:
                    extra = ["-I", "../../lib"]          # relative to the directory the tool was started in
            igcmd = [str(bdir / "bin" / "interrogate"), "-D__cplusplus"] + srcdir + ["-oc", "o.cxx", "-od", "o.in", "-module", "m", "-library", "l", "-c", "-fnames"] + extra + files_cmd
            rc, so, se = iglib.sh(igcmd, cwd=str(rundir), timeout=60)
            files = {"layout.txt": "lib/bee.h named on the command line; first reached through %s as \"%s\"\ncmd (started in <layout>/%s): %s\n" % (via, spelling, rundir.name, " ".join(igcmd))}
            exported = []
            cwd = rundir
            if rc == 0 and (cwd / "o.in").exists():
                if not LAY:
                    LAY.append(dbgen.Layouts())
                lay = LAY[0]
                db = dbgen.dec_file(lay, (cwd / "o.in").read_bytes())
                exported = sorted(t["_name"].decode() for _, t in db["type"] if t["_name"] in (b"Bee",) and t["_flags"] & lay.enums["type"]["F_fully_defined"] and t["_flags"] & lay.enums["type"]["F_global"])
            ck.corr_case("explicit-file-ownership", files["layout.txt"], exported == ["Bee"], detail="exported %s" % exported, feature=[via, spelling] + (["-srcdir"] if srcdir else []))
            ck.search_case("explicit-file-is-own")
            if rc != 0:
                ck.violation("interrogate-fails-layout", "interrogate failed: %s" % se[-300:], files, se[-2000:])
            elif exported != ["Bee"]:
                ck.violation("explicit-not-own", "class Bee of lib/bee.h, a file named on the command line, is not exported after an earlier #include \"%s\" reached it through %s" % (spelling, via), files)

        # ---- (c) once-only inclusion across spellings -----------------------------------------------------
        for n in range(6 if quick else 60):
            L = wd / ("once%d" % n)
            cwd = L / "cwd"
            (cwd / "inc" / "deep").mkdir(parents=True)
            (cwd / "inc" / "x.h").write_text("#pragma once\nint once_marker;\n")
            os.symlink("inc", cwd / "lnk")
            os.symlink("x.h", cwd / "inc" / "y.h")
            spellings = ["inc/x.h", "./inc/x.h", "inc//x.h", "inc/./x.h", "inc/deep/../x.h", "lnk/x.h", "inc/y.h", "./lnk/../inc/x.h"]
            chosen = rng.sample(spellings, rng.randrange(2, 5))
            (cwd / "main.h").write_text("".join('#include "%s"\n' % s for s in chosen) + "int end_marker;\n")
            # half of the time the header is first named on the command line (under any spelling, also an absolute one through the link)
            first = []
            if n % 2:
                links = ["lnk/x.h", "inc/y.h", str(cwd / "lnk" / "x.h"), str(cwd / "inc" / "y.h"), "./lnk/x.h"]
                first = [rng.choice(links if n % 4 == 1 else spellings)]
                if not any(c in ("inc/x.h", "./inc/x.h", "inc//x.h", "inc/./x.h") for c in chosen):
                    chosen.append("inc/x.h")
                    (cwd / "main.h").write_text("".join('#include "%s"\n' % s for s in chosen) + "int end_marker;\n")
                chosen = first + chosen
            if first:
                # through interrogate: a class defined in the header is seen twice ("conflicting definition") if the file is read twice
                (cwd / "inc" / "x.h").write_text("#pragma once\nint once_marker;\nclass OnceCls {\n__published:\n  int fx();\n};\n")
                rc, so, se = iglib.sh([str(bdir / "bin" / "interrogate"), "-D__cplusplus", "-oc", "o.cxx", "-od", "o.in", "-module", "m", "-library", "l", "-c", "-fnames"] + first + ["main.h"],
                                      cwd=str(cwd), timeout=60)
                cnt = 1 if rc == 0 and "conflicting" not in se and "redefin" not in se else 2
            else:
                rc, so, se = iglib.sh([str(bdir / "bin" / "parse_file"), "-E", "main.h"], cwd=str(cwd), timeout=60)
                cnt = len(re.findall(r"\bint once_marker ?;", so))
            ck.search_case("once-only")
            ck.corr_case("once-only", chosen, cnt == 1, detail="marker appears %d times" % cnt, feature="spellings=%d" % len(chosen))
            if cnt != 1:
                ck.violation("once-only", "a #pragma once header %sincluded as %s contributes its declarations %d times" % ("named on the command line as %s and " % first[0] if first else "", chosen[len(first):], cnt),
                             {"main.h": (cwd / "main.h").read_text(), "x.h": (cwd / "inc" / "x.h").read_text(), "layout.txt": "cwd/inc/x.h; cwd/lnk -> inc; cwd/inc/y.h -> x.h\n"}, se[-800:])
    finally:
        os.chdir(cwd_save) if "cwd_save" in dir() else None
        shutil.rmtree(wd, ignore_errors=True)


LAY = []
