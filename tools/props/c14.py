"""C14 — output is a pure function of the inputs (reproducible builds)."""
import hashlib
import os
import re
import shutil

import iglib
from extract import c14_facts
from gen import hdrgen
from props.c12 import workdir

THEOREMS = ["IgVerif.C14.c14_extraction_ok", "IgVerif.C14.c14_order_independent", "IgVerif.C14.c14_strict_weak", "IgVerif.C14.c14_old_order_dependent",
            "IgVerif.C14.c14_id_epoch", "IgVerif.C14.c14_id_clock", "IgVerif.C14.c14_id_zero"]
PARTIAL = [("c14_pure (the whole of interrogate is a function of arguments, files and SOURCE_DATE_EPOCH)",
            "only the two stages that consult the process environment by design are modelled: the sort of the pointer-keyed overload sets and the file "
            "identifier. That no other stage depends on addresses, uninitialised memory, locale, environment size, time zone or the clock is explored per "
            "run by repeating every run under differing ASLR, allocator, environment, locale and clock conditions and comparing sha256"),
           ("std::hash / unordered_map iteration", "assumed to be a function of the inserted keys for one libstdc++ build (same binary, same order)")]

BACKENDS = [["-c", "-fnames"], ["-python", "-fnames"], ["-python-native"], ["-c", "-fnames", "-promiscuous"]]


def sha(p):
    return hashlib.sha256(p.read_bytes()).hexdigest()[:16] if p.exists() else "absent"


def gen_overloads(rng):
    """overload families whose members RemapCompareLess ranks equal, plus an unpublished intermediate base"""
    cls = ["A", "B", "C", "D"]
    t = "".join("class %s {\n__published:\n  %s();\n  int v%s;\n};\n" % (c, c, c.lower()) for c in cls)
    t += "class Mid : public A {\npublic:\n  int mid_only();\n  int mid_field;\n};\n"
    t += "class Leaf : public Mid {\n__published:\n  Leaf();\n  int leaf();\n};\n"
    t += "class W {\n__published:\n  W();\n"
    for fam in range(rng.randrange(2, 6)):
        name = rng.choice(["set", "put", "make", "with", "find"]) + str(fam)
        arity = rng.choice([1, 1, 2])
        static = rng.random() < 0.3
        used = set()
        for k in range(rng.randrange(2, 5)):
            ps = tuple(rng.choice(cls) for _ in range(arity))
            form = rng.choice(["%s *", "const %s &", "%s *"])
            if ps in used:
                continue
            used.add(ps)
            t += "  %svoid %s(%s);\n" % ("static " if static else "", name, ", ".join((form % p) + "p%d" % i for i, p in enumerate(ps)))
    for c in rng.sample(cls, 2):
        t += "  W(%s *o);\n" % c
    t += "};\n"
    # properties whose setters return something (fluent interfaces): rarely used paths of the Python back-ends
    t += ("class Gauge {\n__published:\n  Gauge();\n  float get_level() const;\n  Gauge &set_level(float v);\n  __make_property(level, get_level, set_level);\n"
          "  int get_mode() const;\n  Gauge *set_mode(int m);\n  __make_property(mode, get_mode, set_mode);\n"
          "  %s get_ratio() const;\n  %s set_ratio(%s r);\n  __make_property(ratio, get_ratio, set_ratio);\n};\n"
          % (rng.choice(["double", "float"]), rng.choice(["bool", "int", "double", "const Gauge &", "A *"]), rng.choice(["double", "float"])))
    # number-protocol slots synthesised by the native back-end (true division has no slot definition of its own) and the
    # forwarding constructors of Python-subclassable classes (typed + reference counted, defaulted trailing parameters)
    t += ("class Vec2s {\n__published:\n  Vec2s();\n  Vec2s operator / (float s) const;\n  Vec2s &operator /= (float s);\n"
          "  Vec2s operator * (%s s) const;\n  Vec2s operator - () const;\n  float get_x() const;\n};\n" % rng.choice(["float", "double"]))
    t += ("class TypedObject {\n__published:\n  int get_type_index() const;\n};\n"
          "class ReferenceCount {\n__published:\n  void ref() const;\n  bool unref() const;\n  int get_ref_count() const;\n};\n"
          "class ScNode : public TypedObject, public ReferenceCount {\n__published:\n  ScNode();\n"
          "  ScNode(int id, float weight = %s, bool active = %s, int mask = %s);\n  virtual ~ScNode();\n  int get_id() const;\n};\n"
          % (rng.choice(["1.5f", "0.25f", "2.0f"]), rng.choice(["true", "false"]), rng.choice(["0x10", "7", "(1 << 3)"])))
    return t


def conditions(rng, shim_time, shim_comma):
    pad = "x" * rng.choice([3000, 9000])
    return [("repeat", {}, []),
            ("stale-longer-output-files", {}, []),
            ("mmap-threshold-0", {"MALLOC_MMAP_THRESHOLD_": "0"}, []),
            ("perturb+arena", {"MALLOC_PERTURB_": "165", "MALLOC_ARENA_MAX": "1", "MALLOC_TOP_PAD_": "1048576"}, []),
            ("no-aslr", {}, ["setarch", "x86_64", "-R"]),
            ("env-padding", {"IGVERIF_PAD": pad, "ANOTHER": pad[:777]}, []),
            ("locale+tz", {"LC_ALL": "C.UTF-8", "LANG": "de_DE.UTF-8", "LC_NUMERIC": "de_DE.UTF-8", "TZ": "Asia/Tokyo"}, []),
            ("comma-decimal-point", {"LD_PRELOAD": str(shim_comma)}, []),
            ("clock+1h", {"LD_PRELOAD": str(shim_time), "FAKE_TIME": str(1900000000 + rng.randrange(10 ** 6))}, []),
            # memcheck: a value that was never initialised and steers a branch or is written out makes the output depend on what the
            # stack or heap happened to hold, whether or not two runs on this machine differ
            ("memcheck", {}, ["valgrind", "-q", "--error-exitcode=97"])]


def run_tool(cmd, cwd, env, prefix=()):
    e = {k: v for k, v in os.environ.items() if not k.startswith("MALLOC_")}
    e.update(env)
    p = iglib.subprocess.run(list(prefix) + cmd, cwd=cwd, env=e, stdout=iglib.subprocess.PIPE, stderr=iglib.subprocess.PIPE, timeout=180)
    return p.returncode, p.stderr.decode("utf-8", "replace")


def run(ck):
    quick = ck.quick
    rng = ck.rng
    ch, err = c14_facts.main()
    ck.oblige("translator c14_facts.py read RemapCompareLess and the SOURCE_DATE_EPOCH branch", err is None, err or "")
    ck.lean_obligations("IgVerif.Props.C14", THEOREMS, PARTIAL)
    ck.trusted += ["valgrind 3.19 memcheck (definedness tracking) for the condition `memcheck`: observes uses of uninitialised values on the explored inputs, proves nothing about others",
                   "tools/extract/c14_facts.py", "harness/preload/faketime.c (time()), harness/preload/commalocale.c (',' decimal point)",
                   "glibc malloc tunables and setarch -R as the means to vary addresses; sha256"]
    bdir = iglib.build_repo("std")
    shim_time = iglib.build_preload("faketime")
    shim_comma = iglib.build_preload("commalocale")
    wd = workdir(ck)
    ck.rule = ("generated libraries (G-hdr headers; overload families that RemapCompareLess ranks equal; an unpublished intermediate base class) x back-ends "
               "{-c, -python, -python-native, -promiscuous} with SOURCE_DATE_EPOCH set: sha256 of -oc/-od/-oh and of interrogate_module's output must be "
               "identical under {plain repeat, MALLOC_MMAP_THRESHOLD_=0, MALLOC_PERTURB_/one arena, setarch -R, 3-9 kB of extra environment, LC_*/LANG/TZ, a "
               "','-decimal-point locale shim, a shifted clock}; without SOURCE_DATE_EPOCH two runs at different (shimmed) times may differ only in the file "
               "identifier, which must be the same number in code and database and equal the Lean model fileId; distinct = distinct (header, back-end, condition)")
    try:
        n_lib = 4 if quick else 60
        for li in range(n_lib):
            text = gen_overloads(rng) if li % 2 == 0 else hdrgen.gen_header(rng, n_classes=rng.randrange(2, 5), sections=("__published", "public")).text()
            d = wd / ("lib%d" % li)
            d.mkdir()
            (d / "g.h").write_text(text)
            for be in (BACKENDS if not quick else rng.sample(BACKENDS, 2) + [["-python-native"]]):
                def once(tag, env, prefix, epoch="5"):
                    for f in ("o.cxx", "o.in", "o.txt", "mod.cxx"):
                        if tag == "stale-longer-output-files":
                            (d / f).write_bytes(b"// left over from an earlier, longer run\n" * 20000)      # what the output paths held before is no input
                        elif (d / f).exists():
                            (d / f).unlink()
                    e = dict(env)
                    if epoch is not None:
                        e["SOURCE_DATE_EPOCH"] = epoch
                    cmd = [str(bdir / "bin" / "interrogate"), "-D__cplusplus", "-oc", "o.cxx", "-od", "o.in", "-oh", "o.txt", "-module", "m", "-library", "l"] + be + ["g.h"]
                    rc, se = run_tool(cmd, str(d), e, prefix)
                    mcmd = [str(bdir / "bin" / "interrogate_module"), "-oc", "mod.cxx", "-module", "m", "-library", "l"] + (["-python-native"] if "-python-native" in be else ["-python"] if "-python" in be else ["-c"]) + ["o.in"]
                    rc2, se2 = run_tool(mcmd, str(d), e, [] if tag == "memcheck" else prefix) if rc == 0 else (None, "")
                    return {"rc": rc, "rc2": rc2, "oc": sha(d / "o.cxx"), "od": sha(d / "o.in"), "oh": sha(d / "o.txt"), "mod": sha(d / "mod.cxx"), "cmd": " ".join(cmd), "err": se[-800:]}
                base = once("base", {}, [])
                if base["rc"] != 0:
                    ck.extra["interrogate_failed"] = ck.extra.get("interrogate_failed", 0) + 1
                    continue
                keep = {f: (d / f).read_bytes() for f in ("o.cxx", "o.in") if (d / f).exists()}
                for tag, env, prefix in conditions(rng, shim_time, shim_comma):
                    r = once(tag, env, prefix)
                    ck.search_case("same-bytes-under-" + tag)
                    diff = [k for k in ("rc", "rc2", "oc", "od", "oh", "mod") if r[k] != base[k]]
                    if tag == "memcheck" and r["rc"] == 97:
                        ck.violation("uninitialised-value:%s" % " ".join(be), "interrogate %s: memcheck reports the use of a value that was never initialised; what is written then depends on what the memory held" % " ".join(be),
                                     {"g.h": text, "cmd.txt": "valgrind -q --error-exitcode=97 " + base["cmd"] + "\n", "memcheck.txt": r["err"]}, r["err"])
                    elif diff:
                        which = {"oc": "code file", "od": "database", "oh": "text dump", "mod": "interrogate_module output", "rc": "exit status", "rc2": "interrogate_module exit status"}
                        ck.violation("differs:%s:%s" % ("+".join(diff), tag), "%s of interrogate %s differ(s) between a plain run and a run under %s (SOURCE_DATE_EPOCH=5 in both)" % (", ".join(which[k] for k in diff), " ".join(be), tag),
                                     {"g.h": text, "cmd.txt": "SOURCE_DATE_EPOCH=5 " + base["cmd"] + "\n# vs\n" + " ".join("%s=%s" % kv for kv in env.items() if len(kv[1]) < 200) + " " + " ".join(prefix) + " " + base["cmd"] + "\n"},
                                     "base %s\nthis %s\n" % ({k: base[k] for k in diff}, {k: r[k] for k in diff}))
            shutil.rmtree(d, ignore_errors=True)

        # ---- the file identifier ------------------------------------------------------------------------------------------------------------
        d = wd / "fid"
        d.mkdir()
        (d / "g.h").write_text("class A {\n__published:\n  A();\n  int f(int x);\n};\n")
        cases = [(None, 1111111), (None, 1222222), ("", 1333333), ("0", 1444444), ("0", 1555555), ("5", 1), ("1700000000", 2), (" 12", 3), ("+7", 4), ("-3", 5), ("12abc", 6), ("abc", 1666666), ("abc", 1777777), ("00", 8)]
        if not quick:
            cases += [(str(rng.randrange(0, 2 ** 31 - 1)), rng.randrange(1, 2 ** 30)) for _ in range(40)] + [(None, rng.randrange(1, 2 ** 30)) for _ in range(20)]
        ops = ["fileid %s %d" % ("unset" if s is None else (s.encode().hex() or "-"), now) for s, now in cases]
        model = iglib.run_driver("det", ops)
        outs = {}
        for (s, now), m in zip(cases, model):
            env = {"LD_PRELOAD": str(shim_time), "FAKE_TIME": str(now)}
            e = {k: v for k, v in os.environ.items() if k != "SOURCE_DATE_EPOCH"}
            e.update(env)
            if s is not None:
                e["SOURCE_DATE_EPOCH"] = s
            for f in ("o.cxx", "o.in"):
                if (d / f).exists():
                    (d / f).unlink()
            cmd = [str(bdir / "bin" / "interrogate"), "-D__cplusplus", "-oc", "o.cxx", "-od", "o.in", "-module", "m", "-library", "l", "-python-native", "g.h"]
            p = iglib.subprocess.run(cmd, cwd=str(d), env=e, stdout=iglib.subprocess.PIPE, stderr=iglib.subprocess.PIPE, timeout=120)
            code = (d / "o.cxx").read_text(errors="replace") if (d / "o.cxx").exists() else ""
            db = (d / "o.in").read_text(errors="replace") if (d / "o.in").exists() else ""
            mc = re.search(r"^\s*(-?\d+),\s*/\* file_identifier \*/", code, re.M)
            id_code = mc.group(1) if mc else "?"
            id_db = db.split("\n", 1)[0].strip() if db else "?"
            ck.corr_case("file-identifier-vs-model", "SOURCE_DATE_EPOCH=%r time()=%d" % (s, now), id_code == m and id_db == m,
                         detail="code %s, database %s, model %s" % (id_code, id_db, m), nontrivial=True, feature="epoch-set" if s else "epoch-unset/empty")
            ck.search_case("identifier-same-in-code-and-database")
            if id_code != id_db:
                ck.violation("identifier-code-vs-db", "file identifier is %s in the code and %s in the database (SOURCE_DATE_EPOCH=%r)" % (id_code, id_db, s), {"g.h": (d / "g.h").read_text()}, "")
            norm_code = re.sub(r"^(\s*)-?\d+,(\s*/\* file_identifier \*/)", r"\1ID,\2", code, flags=re.M)
            norm_db = "ID\n" + db.split("\n", 1)[1] if "\n" in db else db
            outs.setdefault(s, []).append((now, id_code, hashlib.sha256(norm_code.encode()).hexdigest()[:12], hashlib.sha256(norm_db.encode()).hexdigest()[:12], hashlib.sha256(code.encode()).hexdigest()[:12]))
        for s, runs in outs.items():
            ck.search_case("only-the-identifier-differs")
            if len({r[2:4] for r in runs}) > 1:
                ck.violation("more-than-identifier-differs", "two runs with SOURCE_DATE_EPOCH=%r at different times differ in more than the file identifier" % s, {"g.h": (d / "g.h").read_text()}, str(runs))
            if s and len({r[4] for r in runs}) > 1:
                ck.violation("epoch-set-but-clock-leaks", "with SOURCE_DATE_EPOCH=%r two runs at different (shimmed) clock values give different code files (identifiers %s)" % (s, [r[1] for r in runs]),
                             {"g.h": (d / "g.h").read_text(), "cmd.txt": "SOURCE_DATE_EPOCH=%s FAKE_TIME=<t> LD_PRELOAD=faketime.so interrogate -oc o.cxx -od o.in -module m -library l -python-native g.h\n" % s}, str(runs))
    finally:
        shutil.rmtree(wd, ignore_errors=True)
