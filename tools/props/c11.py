"""C11 — database and generated code agree; the database is referentially closed."""
import re
import shutil

import iglib
from extract import dbschema
from gen import dbgen, hdrgen
from props.c12 import workdir, run_both

THEOREMS = ["IgVerif.C11.c11_field_coverage", "IgVerif.C11.c11_index_members_found", "IgVerif.C11.c11_wrappers_first",
            "IgVerif.C11.c11_ranges", "IgVerif.C11.c11_order_preserved", "IgVerif.renumber_spec",
            "IgVerif.C11.c11_covers", "IgVerif.C11.c11_closed_preserved", "IgVerif.closed_remap", "IgVerif.refsRec_remap"]
PARTIAL = [("c11_closed_preserved for databases in which two kinds share an index",
            "c11_closed_preserved assumes that no index is used by entries of two kinds and that 0 is not an index (true of everything "
            "remap_indices itself produced: c11_ranges); hand-made files violating that are covered by the correspondence stream `remap-model` only"),
           ("c11_signature_agrees", "agreement of generated C signatures with the recorded types is a g++ redeclaration check (exploration), not a theorem")]

OPTION_SETS = [
    ["-c", "-fnames"], ["-c", "-fptrs", "-true-names"], ["-c", "-fnames", "-unique-names"], ["-c", "-fptrs", "-unique-names"],
    ["-python", "-fnames"], ["-python-native"], ["-c", "-fnames", "-promiscuous"], ["-c", "-fnames", "-string", "-refcount"],
]


# same-named nested classes that each publish a sequence of the same name; a class with a synthesised `operator []=` (item assignment)
SCENARIO = """
class Inventory {
__published:
  class Slot {
  __published:
    int get_num_items() const;
    int get_item(int n) const;
    __make_seq(%(seq)s, get_num_items, get_item);
  };
  int get_num_slots() const;
  int get_slot(int n) const;
  __make_seq(get_slots, get_num_slots, get_slot);
};
class Toolbar {
__published:
  class Slot {
  __published:
    int get_num_items() const;
    int get_item(int n) const;
    __make_seq(%(seq)s, get_num_items, get_item);
  };
};
class ScEngine {
__published:
  ScEngine();
  int get_power() const;
};
class ScRadio {
__published:
  ScRadio();
  int get_channel() const;
  operator int () const;
};
class ScCar : public ScEngine, public ScRadio {
__published:
  ScCar();
  int get_seats() const;
};
class ScBook {
__published:
  ScBook();
  const char *get_chapter(int n) const;
  int find_chapter(const char *title, bool exact) const;
  const char *rename(const char *from, int which);
  static const char *format_isbn(long long isbn, int width);
};
class Grid {
__published:
  Grid();
  int &operator [] (int i);
  int operator [] (int i) const;
  int size() const;
};
"""


def make_seq_links(lay, data):
    """every sequence a class lists is its own: the getters are methods of that class, and no two classes share a record"""
    db = dbgen.dec_file(lay, data)
    types = dict(db["type"])
    seqs = dict(db["makeSeq"])
    owner = {}
    for ti, t in db["type"]:
        for si in t["_make_seqs"]:
            if si not in seqs:
                return "type %s lists make_seq %d, which does not exist" % (t["_scoped_name"].decode(), si)
            if si in owner and owner[si] != ti:
                return "make_seq %s is listed by both %s and %s" % (seqs[si]["_scoped_name"].decode(), types[owner[si]]["_scoped_name"].decode(), t["_scoped_name"].decode())
            owner[si] = ti
            for g in ("_length_getter", "_element_getter"):
                if seqs[si][g] not in t["_methods"]:
                    return "make_seq %s of %s: its %s is function %d, which is not a method of that class" % (
                        seqs[si]["_scoped_name"].decode(), t["_scoped_name"].decode(), g, seqs[si][g])
    for si, sq in db["makeSeq"]:
        if si not in owner:
            return "make_seq %s belongs to no class" % sq["_scoped_name"].decode()
    return None


def interrogate(bdir, wd, hdr, opts, stem):
    oc, od = wd / (stem + ".cxx"), wd / (stem + ".in")
    cmd = [str(bdir / "bin" / "interrogate"), "-D__cplusplus", "-oc", str(oc), "-od", str(od), "-module", "m", "-library", "l" + stem,
           "-S", str(iglib.REPO / "parser-inc")] + opts + [hdr.name]
    rc, out, err = iglib.sh(cmd, cwd=str(wd), env={"SOURCE_DATE_EPOCH": "1000"}, timeout=120)
    return rc, oc, od, err


def run(ck):
    quick = ck.quick
    rng = ck.rng
    ch, err = dbschema.main()
    ck.oblige("translator dbschema.py parsed members and remap_indices() of all record classes", err is None, err or "")
    ck.lean_obligations("IgVerif.Props.C11", THEOREMS, PARTIAL)
    ck.trusted += ["tools/extract/dbschema.py (member types from the .h files; remap.map_from() calls from remap_indices bodies)",
                   "harness/dbq.cxx `closed`/`links` walk the real maps with a hand-written field list (independent of the translator)",
                   "std::map iteration is ascending (modelled by sorted assoc lists)"]
    exe = iglib.build_harness("dbq", extra_flags=["-fno-access-control"])
    bdir = iglib.build_repo("std")
    lay = dbgen.Layouts()
    wd = workdir(ck)
    ck.rule = ("(a) generated databases (closed and dangling, arbitrary indices) loaded and re-numbered with remap_indices(k) in the real "
               "library and in the model, compared on closure verdict, link verdicts and full query sweeps; (b) databases produced by "
               "interrogate from generated headers x back-end/naming options, checked against the property's oracle "
               "(wrappers 1..n, no dangling index, links, unique names distinct, C signatures by g++ redeclaration)")
    try:
        for n in range(10 if quick else 150):
            closed = n % 3 != 2
            g = dbgen.DbGen(lay, rng, nasty=0.1, max_per_kind=rng.choice([2, 4, 6]), closed=closed)
            db = dbgen.uniquify(g.generate())
            p = wd / ("r%d.in" % n)
            p.write_bytes(dbgen.enc_file(lay, db))
            total = sum(len(db[k]) for k in dbgen.KINDS)
            first = rng.choice([1, 1, 2, 50, 1000])
            idxs = list(range(first - 1, first + total + 2))
            ops = ["reset", "reqfile %s" % p, "closed", "links", "next", "remap %d" % first, "closed", "consec %d" % first, "links", "next",
                   "reset", "reqfile %s" % p, "writehex 7 6c 68 6d", "remap %d" % first, "writehex 7 6c 68 6d",
                   "reset", "reqfile %s" % p, "remap %d" % first]
            ops += dbgen.query_ops(lay, rng, idxs, [0, 1, 2], dbgen.all_names(db), budget=150 if quick else 600)
            ops += ["write 7 6c 68 6d"]
            impl, st, err_, model = run_both(ck, exe, ops)
            diffs = iglib.diff_streams(ops, impl, model)
            if st != "ok":
                diffs.append((len(impl), "<process>", st, "ok"))
            ck.corr_case("remap-model", {"db": p.name, "closed": closed, "entries": total, "first": first}, not diffs, detail=repr(diffs[:3]),
                         feature=["closed" if closed else "dangling", "first=%d" % first])
            ck.search_case("remap-keeps-closure")
            if st == "ok" and len(impl) == len(ops) and closed:
                if impl[2] != "dangling=0 enum=0":
                    ck.violation("load-breaks-closure", "a referentially closed database file has %s once loaded (loading re-numbers it with remap_indices)" % impl[2],
                                 {"db.in": p.read_bytes(), "ops.txt": "\n".join(ops) + "\n"})
                elif impl[6] != "dangling=0 enum=0" or impl[7] != "1":
                    ck.violation("remap-breaks-closure", "remap_indices(%d) on a closed database leaves %s, wrappers consecutive=%s" % (first, impl[6], impl[7]),
                                 {"db.in": p.read_bytes(), "ops.txt": "\n".join(ops) + "\n"})
                if True:
                    before, _ = dbgen.canon(lay, db)
                    after, _ = dbgen.canon(lay, dbgen.dec_file(lay, bytes.fromhex(impl[14])))
                    if before != after:
                        dk = [k for k in before if before[k] != after.get(k)][:2]
                        fields = [f for f in before[dk[0]] if before[dk[0]][f] != after.get(dk[0], {}).get(f)] if dk else []
                        ck.violation("remap-not-iso", "remap_indices(%d) changed which entries are referenced: %r fields %s" % (first, dk, fields),
                                     {"db.in": p.read_bytes(), "ops.txt": "\n".join(ops) + "\n"})

        # ---- databases interrogate produces ------------------------------------------------------
        n_hdr = 6 if quick else 120
        from props.c03 import collision_family
        for n in range(n_hdr + 3):
            hp = wd / ("g%d.h" % n)
            if n >= n_hdr:
                # functions whose signature hashes collide: the names in the database must still be the names the code defines
                fam = collision_family(rng, [2, 3, 6][n - n_hdr])
                hp.write_text("__begin_publish\n" + "".join("int %s(int a);\n" % x for x in fam) + "__end_publish\n")
            else:
                h = hdrgen.gen_header(rng, n_classes=rng.randrange(1, 5))
                hp.write_text(h.text().replace("#endif\n", SCENARIO % {"seq": rng.choice(["get_items", "get_things"])} + "#endif\n"))
            optsets = [OPTION_SETS[0], OPTION_SETS[7]] + rng.sample(OPTION_SETS[1:7], 1) if quick else OPTION_SETS
            if n >= n_hdr:
                optsets = [["-c", "-fnames"], ["-python", "-fnames"]]
            for oi, opts in enumerate(optsets):
                stem = "g%d_%d" % (n, oi)
                rc, oc, od, err_ = interrogate(bdir, wd, hp, opts, stem)
                if rc != 0 or not od.exists():
                    ck.extra.setdefault("interrogate_rejected", []).append([hp.name, " ".join(opts), err_[-200:]])
                    continue
                ops = ["reset", "reqfile %s" % od, "closed", "consec 1", "links", "next"]
                impl, st, err2, model = run_both(ck, exe, ops)
                diffs = iglib.diff_streams(ops, impl, model)
                if st != "ok":
                    diffs.append((len(impl), "<process>", st, "ok"))
                ck.corr_case("real-db-verdicts", {"header": hp.name, "opts": " ".join(opts)}, not diffs, detail=repr(diffs[:3]), feature=" ".join(opts))
                ck.search_case("real-db-closed")
                if st == "ok" and len(impl) == len(ops):
                    bad = []
                    if impl[2] != "dangling=0 enum=0":
                        bad.append("dangling references: " + impl[2])
                    if impl[3] != "1":
                        bad.append("wrapper indices are not 1..n")
                    if impl[4] != "wrapper=1 nesting=1 unique=1 seqs=1 this=1":
                        bad.append("links/unique names: " + impl[4])
                    if bad:
                        ck.violation("real-db:%s" % bad[0].split(":")[0], "interrogate %s on %s wrote a database with %s" % (" ".join(opts), hp.name, "; ".join(bad)),
                                     {hp.name: hp.read_text(), "out.in": od.read_bytes(), "cmd.txt": "interrogate -D__cplusplus -oc x.cxx -od out.in -module m -library l %s %s\n" % (" ".join(opts), hp.name)})
                ck.search_case("make-seq-links")
                ml = make_seq_links(lay, od.read_bytes())
                if ml:
                    ck.violation("real-db:make-seq-links", "interrogate %s on %s: %s" % (" ".join(opts), hp.name, ml),
                                 {hp.name: hp.read_text(), "out.in": od.read_bytes(), "cmd.txt": "interrogate -D__cplusplus -oc x.cxx -od out.in -module m -library l %s %s\n" % (" ".join(opts), hp.name)})
                # ---- generated C code agrees with the database (callable-by-name C wrappers) ----
                if opts[0] == "-c" and "-fnames" in opts:
                    ck.search_case("c-signature-agrees")
                    res = signature_check(ck, exe, wd, hp, oc, od)
                    if res:
                        ck.violation("signature:%s" % res[0], "interrogate %s on %s: %s" % (" ".join(opts), hp.name, res[1]),
                                     {hp.name: hp.read_text(), "out.cxx": oc.read_text(), "out.in": od.read_bytes(), "redecl.cxx": res[2]})
    finally:
        shutil.rmtree(wd, ignore_errors=True)


def signature_check(ck, exe, wd, hp, oc, od):
    """Declare every wrapper the database lists, with the recorded C signature, in front of the
    generated code and let g++ find conflicts / missing definitions."""
    ops = ["reset", "reqfile %s" % od, "consec 1", "next"]
    a, st, _ = iglib.run_harness(exe, ops)
    if st != "ok":
        return ("crash", "harness crashed reading the database", "")
    nxt = int(a[3])
    q = []
    for w in range(1, nxt):
        q += ["q str wrapper %d _name" % w, "q flag wrapper %d is_callable_by_name" % w, "q flag wrapper %d has_return_value" % w,
              "q int wrapper %d _return_type" % w, "q cnt wrapper %d _parameters" % w]
    a2, st, _ = iglib.run_harness(exe, ["reset", "reqfile %s" % od] + q)
    a2 = a2[2:]
    decls = []
    names = []
    follow = []
    for w in range(1, nxt):
        name, callable_, hasret, rty, npar = a2[(w - 1) * 5:(w - 1) * 5 + 5]
        if name == "-" or callable_ != "1":
            continue
        follow.append((w, bytes.fromhex(name).decode(), hasret, int(rty), int(npar)))
    q2 = []
    for w, name, hasret, rty, npar in follow:
        q2.append("q str type %d _true_name" % rty)
        for k in range(npar):
            q2.append("q sub wrapper %d _parameters %d _type" % (w, k))
    a3, st, _ = iglib.run_harness(exe, ["reset", "reqfile %s" % od] + q2)
    a3 = a3[2:]
    pos = 0
    ptypes = []
    for w, name, hasret, rty, npar in follow:
        pos += 1
        ps = [int(x) for x in a3[pos:pos + npar]]
        pos += npar
        ptypes.append((name, rty if hasret == "1" else None, ps))
    alltypes = sorted(set(t for _, _, ps in ptypes for t in ps) | set(r for _, r, _ in ptypes if r is not None))
    a4, st, _ = iglib.run_harness(exe, ["reset", "reqfile %s" % od] + ["q str type %d _true_name" % t for t in alltypes] +
                                  ["q int type %d _atomic_token" % t for t in alltypes])
    tn = dict(zip(alltypes, [bytes.fromhex(x).decode() if x != "-" else "?" for x in a4[2:2 + len(alltypes)]]))
    for t, tok in zip(alltypes, a4[2 + len(alltypes):]):
        if tok == "7":      # AT_string: the database's "atomic string" is passed to a C wrapper as char const *
            tn[t] = "char const *"
    src = oc.read_text()
    redecl = '#include "%s"\n' % hp.name
    for name, ret, ps in ptypes:
        redecl += 'extern "C" %s %s(%s);\n' % ("void" if ret is None else tn[ret], name, ", ".join(tn[t] for t in ps))
        if not re.search(r"^%s\(" % re.escape(name), src, re.M):
            return ("missing", "wrapper %s is listed in the database but not defined in the generated code" % name, redecl)
    rp = wd / "redecl.cxx"
    rp.write_text(redecl + '#include "%s"\n' % oc.name)
    rc, out, err = iglib.sh(["g++", "-std=c++17", "-fsyntax-only", "-w", "-D__published=public", "-D__begin_publish=", "-D__end_publish=", "-D__make_seq(a,b,c)=",
                             "-I", str(wd), "-I", str(iglib.VERIF / "shims"), "-I", str(iglib.REPO / "src/dtoolbase"),
                             "-I", str(iglib.REPO / "src/interrogatedb"), "-I", str(iglib.REPO / "src/dtoolutil"), str(rp)], timeout=120)
    if rc != 0:
        first = [l for l in err.split("\n") if "error" in l][:2]
        return ("conflict", "the C signature recorded in the database conflicts with the generated definition: %s" % " | ".join(first), redecl)
    return None
