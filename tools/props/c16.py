"""C16 — module initialisation registers every library once, base classes first."""
import itertools
import re
import shutil

import iglib
from gen import dbgen
from props.c12 import workdir

THEOREMS = ["IgVerif.C16.c16_each_once", "IgVerif.C16.c16_unbroken_respected", "IgVerif.C16.c16_topological_when_unbroken",
            "IgVerif.C16.c16_terminates", "IgVerif.C16.c16_all_emitted", "IgVerif.C16.c16_broken_on_cycle", "IgVerif.C16.c16_acyclic_unbroken", "IgVerif.MO.run_broken_ok", "IgVerif.MO.findCycle_cycle",
            "IgVerif.MO.inv_run", "IgVerif.MO.findCycle_get", "IgVerif.MO.findCycle_spec", "IgVerif.MO.findCycle_progress",
            "IgVerif.MO.breakFold_lt", "IgVerif.MO.pass_inv", "IgVerif.MO.run_finishes"]
PARTIAL = [("c16_collect (the dependency graph handed to the loop is the one the loaded databases imply)",
            "the model starts from the `std::map` of dependencies; how it is collected from types, derivations and typedefs is tied by correspondence only (databases realising a given graph are given to the real interrogate_module)")]

LIBS = ["liba", "libb", "libc", "libd", "libe", "libf"]


def realise(lay, lib, deps, with_function=True, typedef_edges=()):
    """a database for library `lib` whose global class derives from (or typedefs) the classes of `deps`"""
    ten, fen = lay.enums["type"], lay.enums["function"]
    FD, GL, TD = ten["F_fully_defined"], ten["F_global"], ten["F_typedef"]
    blank = dbgen.DbGen(lay, __import__("random").Random(0), nasty=0.0, max_per_kind=0, canonical=True)

    def mk(kind, **kw):
        r = {}
        for f in lay.out[kind]:
            k, name = f[0], f[1]
            r[name] = b"" if k == "str" else ([] if k in ("strs", "ints", "recs") else (f[4] if k == "intIf" else 0))
        r.update(kw)
        return r
    idx = 1
    db = {"fileId": 0, "lib": lib.encode(), "hash": lib[-4:].encode(), "mod": b"m", "minor": 3}
    for k in dbgen.KINDS:
        db[k] = []
    wrappers = []
    if with_function:
        w = idx
        idx += 1
        f = idx
        idx += 1
        db["wrapper"].append((w, mk("wrapper", _function=f)))
        db["function"].append((f, mk("function", _name=b"fn_" + lib.encode(), _scoped_name=b"fn_" + lib.encode(),
                                     _flags=fen["F_global"], _python_wrappers=[w])))
    own = idx
    idx += 1
    derivs = []
    fwd = {}
    for d in deps:
        fwd[d] = idx
        idx += 1
    for d in deps:
        if d not in typedef_edges:
            derivs.append({"_flags": 0, "_base": fwd[d], "_upcast": 0, "_downcast": 0})
    nm = ("T_" + lib).encode()
    db["type"].append((own, mk("type", _name=nm, _scoped_name=nm, _true_name=nm, _flags=FD | GL | ten["F_class"], _derivations=derivs)))
    for d in deps:
        n2 = ("T_" + d).encode()
        db["type"].append((fwd[d], mk("type", _name=n2, _scoped_name=n2, _true_name=n2, _flags=GL | ten["F_class"])))
    for d in deps:
        if d in typedef_edges:
            n3 = ("TD_%s_%s" % (lib, d)).encode()
            db["type"].append((idx, mk("type", _name=n3, _scoped_name=n3, _true_name=n3, _flags=FD | GL | TD, _wrapped_type=fwd[d])))
            idx += 1
    db["type"].sort(key=lambda p: p[0])
    return db


def has_cycle_through(graph, a, b):
    """is edge a->b on a cycle of graph (dict lib -> set of deps)? i.e. is a reachable from b"""
    seen, stack = set(), [b]
    while stack:
        x = stack.pop()
        if x == a:
            return True
        if x in seen:
            continue
        seen.add(x)
        stack += list(graph.get(x, ()))
    return False


def run(ck):
    quick = ck.quick
    rng = ck.rng
    ck.lean_obligations("IgVerif.Props.C16", THEOREMS, PARTIAL)
    ck.trusted += ["tools/props/c16.py realise(): databases that make interrogate_module see a given dependency graph; the parser of the emitted module file",
                   "the `collect` step (deriving the graph from the loaded databases) is not modelled: the intended graph is handed to the model"]
    ck.trusted += ["Model/ModuleOrder.lean is a hand-written model of the ordering loop and find_dependency_cycle, tied to the code by the graph stream only"]
    bdir = iglib.build_repo("std")
    lay = dbgen.Layouts()
    wd = workdir(ck)
    ck.rule = ("directed graphs on up to k libraries (all digraphs on 3 libraries quick; all on 4 thorough; random on <= 6), acyclic and cyclic, "
               "realised as database files (derivation and typedef edges) and given to the real interrogate_module in several command-line orders; "
               "the emitted RegisterTypes/BuildInstants/LibraryDef sequences and the reported broken edges are compared with the Lean model and "
               "with the property's oracle; distinct = distinct (graph, order)")
    try:
        graphs = []
        libs3 = LIBS[:3]
        edges3 = [(a, b) for a in libs3 for b in libs3 if a != b]
        all3 = list(itertools.product([0, 1], repeat=len(edges3)))
        pick = all3 if not quick else rng.sample(all3, 24)
        for bits in pick:
            graphs.append((libs3, [e for e, b in zip(edges3, bits) if b]))
        if not quick:
            libs4 = LIBS[:4]
            edges4 = [(a, b) for a in libs4 for b in libs4 if a != b]
            for bits in rng.sample(list(itertools.product([0, 1], repeat=len(edges4))), 1500):
                graphs.append((libs4, [e for e, b in zip(edges4, bits) if b]))
        for _ in range(10 if quick else 300):
            k = rng.randrange(2, 7)
            ls = LIBS[:k]
            es = [(a, b) for a in ls for b in ls if a != b and rng.random() < rng.choice([0.15, 0.3, 0.5])]
            graphs.append((ls, es))
        # the example from a past report: a library off the cycle that depends on two cycle members
        graphs.append((LIBS[:4], [("liba", "libb"), ("liba", "libc"), ("libb", "libc"), ("libc", "libd"), ("libd", "libb")]))
        # many libraries, densely layered (library i uses most libraries below it), with a few circular
        # dependencies: a search that walks every path of such a graph needs 2^n steps and never returns
        for n, nback in ([(34, 1), (40, 3)] if quick else [(34, 1), (40, 3), (48, 2), (60, 5), (36, 0)]):
            ls = ["lib%02d" % i for i in range(n)]
            es = [(ls[i], ls[j]) for i in range(2, n) for j in range(i) if rng.random() < 0.9]
            es += [(ls[0], ls[1]), (ls[1], ls[0])][:2 if nback else 0]
            for _ in range(max(0, nback - 1)):
                j = rng.randrange(2, n - 1)
                i = rng.randrange(j + 1, n)
                es.append((ls[j], ls[i]))
            graphs.append((ls, sorted(set(es))))
        for gi, (ls, es) in enumerate(graphs):
            graph = dict((l, set()) for l in ls)
            for a, b in es:
                graph[a].add(b)
            td = set(e for e in es if rng.random() < 0.3)
            paths = {}
            for l in ls:
                db = realise(lay, l, sorted(graph[l]), typedef_edges=set(b for a, b in td if a == l))
                p = wd / ("%s_g%d.in" % (l, gi))
                p.write_bytes(dbgen.enc_file(lay, db))
                paths[l] = p
            spec = ";".join("%s:%s" % (l, ",".join(sorted(graph[l]))) for l in ls)
            model = iglib.run_driver("order", ["order " + spec])[0]
            orders = [list(ls), list(reversed(ls))]
            if len(ls) > 2:
                o3 = list(ls)
                rng.shuffle(o3)
                orders.append(o3)
            for order in orders:
                out = wd / ("mod%d.cxx" % gi)
                if out.exists():
                    out.unlink()
                cmd = [str(bdir / "bin" / "interrogate_module"), "-oc", str(out), "-module", "m", "-library", "l", "-python-native"] + [str(paths[l]) for l in order]
                try:
                    rc, so, se = iglib.sh(cmd, timeout=30)
                except Exception as e:
                    rc, so, se = -999, "", "timeout: %s" % e
                files = dict((p.name, p.read_bytes()) for p in paths.values())
                files["cmd.txt"] = " ".join(cmd) + "\n"
                ck.search_case("order-oracle")
                if rc != 0 or not out.exists():
                    ck.corr_case("module-order", {"graph": spec, "order": order}, False, detail="interrogate_module rc=%s %s" % (rc, se[-300:]))
                    ck.violation("module-fails", "interrogate_module failed or hung (rc=%s) on dependency graph %s" % (rc, spec), files, se[-2000:])
                    continue
                text = out.read_text(errors="replace")
                reg = re.findall(r"^  Dtool_(\w+)_RegisterTypes\(\);", text, re.M)
                half = len(reg) // 2   # emitted once for Python 3 and once for Python 2
                reg3, reg2 = reg[:half], reg[half:]
                inst = re.findall(r"^    Dtool_(\w+)_BuildInstants\(module\);", text, re.M)[:half]
                defs = re.search(r"const LibraryDef \*defs\[\] = \{([^}]*)\}", text).group(1)
                defl = [x.strip()[1:-7] for x in defs.split(",") if x.strip().startswith("&")]
                decl = re.findall(r"^extern void Dtool_(\w+)_RegisterTypes\(\);", text, re.M)
                cycles = re.findall(r"^  (\w+(?: -> \w+)+)$", se, re.M)
                broken = [tuple(c.split(" -> ")[:2]) for c in cycles]
                impl = "libs=%s broken=%s finished=1" % (",".join(reg3), ",".join("%s>%s" % b for b in broken))
                ck.corr_case("module-order", {"graph": spec, "order": order}, impl == model, detail="impl %s | model %s" % (impl, model),
                             feature=["cyclic" if broken else "acyclic-or-unbroken", "n=%d" % len(ls) if len(ls) <= 6 else "n>=34"])
                problem = None
                if not (reg3 == reg2 == inst == defl == decl):
                    problem = "the RegisterTypes / BuildInstants / LibraryDef / extern sequences differ: %s %s %s %s %s" % (reg3, reg2, inst, defl, decl)
                elif sorted(reg3) != sorted(ls):
                    problem = "libraries referenced %s, contributing libraries %s (each must appear exactly once)" % (reg3, sorted(ls))
                else:
                    pos = dict((l, i) for i, l in enumerate(reg3))
                    for a, b in es:
                        if (a, b) in broken:
                            if not has_cycle_through(graph, a, b):
                                problem = "dependency %s -> %s was broken although it lies on no cycle" % (a, b)
                                break
                            continue
                        if pos[b] > pos[a]:
                            problem = "library %s is initialised before %s although %s's classes derive from / typedef classes of %s (edge not reported broken)" % (a, b, a, b)
                            break
                if problem:
                    ck.violation("order:" + problem.split(" ")[0], "graph %s, files in order %s: %s" % (spec, order, problem), files, se[-1500:])

        # ---- a library that contributes only a published enum, which another library's database also records (fully defined, not global) ----
        ten = lay.enums["type"]
        FDm, GLm, ENm = ten["F_fully_defined"], ten["F_global"], ten["F_enum"]
        dbm = realise(lay, "libmodes", [], with_function=False)
        dbm["type"] = [(i, dict(r, _name=b"Mode", _scoped_name=b"Mode", _true_name=b"Mode", _flags=FDm | GLm | ENm)) for i, r in dbm["type"]]
        dbs = realise(lay, "libshapes", [])
        nxt = max(i for k in dbgen.KINDS for i, _ in dbs[k]) + 1
        dbs["type"].append((nxt, dict(dbm["type"][0][1], _flags=FDm | ENm)))
        pm, ps = wd / "libmodes.in", wd / "libshapes.in"
        pm.write_bytes(dbgen.enc_file(lay, dbm))
        ps.write_bytes(dbgen.enc_file(lay, dbs))
        for order in ([pm, ps], [ps, pm]):
            out = wd / "modenum.cxx"
            if out.exists():
                out.unlink()
            rc, so, se = iglib.sh([str(bdir / "bin" / "interrogate_module"), "-oc", str(out), "-module", "m", "-library", "l", "-python-native"] + [str(x) for x in order], timeout=30)
            ck.search_case("order-oracle")
            text = out.read_text(errors="replace") if out.exists() else ""
            decl = sorted(re.findall(r"^extern void Dtool_(\w+)_RegisterTypes\(\);", text, re.M))
            if rc != 0 or decl != ["libmodes", "libshapes"]:
                ck.violation("order:enum-only-library", "files in order %s: libraries referenced %s (exit %s); libmodes contributes the published enum Mode and libshapes a class, each must be referenced exactly once" % (
                             [x.name for x in order], decl, rc), {"libmodes.in": pm.read_bytes(), "libshapes.in": ps.read_bytes(),
                             "cmd.txt": "interrogate_module -oc mod.cxx -module m -library l -python-native %s\n" % " ".join(x.name for x in order)}, se[-1500:])

        # ---- a library that contributes only free functions (no class, no other global type) ------------------------------------------
        dbf = realise(lay, "libutil", [], with_function=True)
        dbf["type"] = []
        pf = wd / "libutil.in"
        pf.write_bytes(dbgen.enc_file(lay, dbf))
        for order in ([pf, ps], [ps, pf], [pm, pf, ps], [pf]):
            out = wd / "modfun.cxx"
            if out.exists():
                out.unlink()
            rc, so, se = iglib.sh([str(bdir / "bin" / "interrogate_module"), "-oc", str(out), "-module", "m", "-library", "l", "-python-native"] + [str(x) for x in order], timeout=30)
            ck.search_case("order-oracle")
            text = out.read_text(errors="replace") if out.exists() else ""
            decl = sorted(re.findall(r"^extern void Dtool_(\w+)_RegisterTypes\(\);", text, re.M))
            want = sorted(x.name[:-3] for x in order)
            if rc != 0 or decl != want:
                ck.violation("order:functions-only-library", "files in order %s: libraries referenced %s (exit %s), expected %s; libutil contributes only a free function and must be referenced exactly once" % (
                             [x.name for x in order], decl, rc, want), dict([(x.name, x.read_bytes()) for x in order] +
                             [("cmd.txt", "interrogate_module -oc mod.cxx -module m -library l -python-native %s\n" % " ".join(x.name for x in order))]), se[-1500:])

        # ---- a database that fails to load: non-zero exit, no output file ------------------------
        for kind in ("missing", "truncated", "newer"):
            good = wd / "good.in"
            good.write_bytes(dbgen.enc_file(lay, realise(lay, "liba", [])))
            bad = wd / ("bad_%s.in" % kind)
            data = dbgen.enc_file(lay, realise(lay, "libb", ["liba"]))
            if kind == "truncated":
                bad.write_bytes(data[:len(data) // 2])
            elif kind == "newer":
                bad.write_bytes(data.replace(b"\n3 3\n", b"\n3 7\n", 1))
            out = wd / "fail.cxx"
            if out.exists():
                out.unlink()
            good2 = wd / "good2.in"
            good2.write_bytes(dbgen.enc_file(lay, realise(lay, "libc", [])))
            for vi, files_in in enumerate(([good, bad], [bad, good], [good, bad, good2], [bad, good, good2], [bad], [good, bad], [bad])):
                if out.exists():
                    out.unlink()
                if vi >= 5:
                    # the output path already holds the result of an earlier, successful run: a failed run must not leave it there as if it were its own
                    iglib.sh([str(bdir / "bin" / "interrogate_module"), "-oc", str(out), "-module", "m", "-library", "l", "-python-native", str(good)], timeout=30)
                ck.search_case("load-failure")
                rc, so, se = iglib.sh([str(bdir / "bin" / "interrogate_module"), "-oc", str(out), "-module", "m", "-library", "l", "-python-native"] + [str(f) for f in files_in], timeout=30)
                if rc == 0 or out.exists():
                    ck.violation("load-failure:" + kind, "a %s database given as %s: interrogate_module exit status %d, output file %s" % (
                                 kind, " ".join(f.name for f in files_in), rc, "left behind" if out.exists() else "absent"),
                                 {"good.in": good.read_bytes(), "good2.in": good2.read_bytes(), "bad.in": bad.read_bytes() if bad.exists() else b"",
                                  "cmd.txt": "interrogate_module -oc fail.cxx -module m -library l -python-native %s\n" % " ".join(f.name for f in files_in)}, se[-1500:])
                    break
    finally:
        shutil.rmtree(wd, ignore_errors=True)
