"""C06 — valid C++ is accepted and every printed type is the type that was written."""
import re
import shutil

import iglib
from gen import typegen, scopegen
from props.c12 import workdir

THEOREMS = ["IgVerif.C06.c06_print_denotes", "IgVerif.C06.c06_unroll", "IgVerif.C06.c06_parse_print", "IgVerif.C06.c06_params",
            "IgVerif.C06.c06_lookup_innermost", "IgVerif.C06.c06_lookup_skip", "IgVerif.C06.c06_lookup_own", "IgVerif.C06.c06_lookup_sound",
            "IgVerif.CT.oi_denotes", "IgVerif.CT.unroll_mods"]
PARTIAL = [("c06_grammar_unambiguous (a token string derives at most one type)",
            "the derivation rules are the ISO declarator grammar, whose unambiguity is assumed, not proved; per run g++ judges every printed text with std::is_same"),
           ("c06_bison_accepts (every translation unit of the subset parses with zero errors)",
            "the bison grammar and the lexer's TYPENAME/IDENTIFIER decision are not modelled; acceptance is measured per run on generated declarations, "
            "generated scope/template programs and the parser-inc stub headers that g++ accepts"),
           ("c06_template_args_preserved", "CPPStructType::instantiate / substitute_decl are covered by the g++ oracle on generated templates only"),
           ("volatile / restrict / attributes / pointers to members / trailing return types", "outside the modelled printer; volatile is dropped by the parser (known finding)")]


def norm(s):
    return re.sub(r"\s+", "", s)


def gxx(wd, text, name="chk.cpp", extra=()):
    p = wd / name
    p.write_text(text)
    rc, out, err = iglib.sh(["g++", "-std=c++17", "-fsyntax-only", "-w", "-D__published=public", "-D__begin_publish=", "-D__end_publish=", "-I", str(wd)] + list(extra) + [str(p)], timeout=300)
    return rc, err


def rename(text, name, new):
    return re.sub(r"\b%s\b" % re.escape(name), new, text)


STRUCTS = ["S0", "S1", "Node"]
PRELUDE = "".join("struct %s { int v; };\n" % s for s in STRUCTS)


def run_declarators(ck, wd, bdir, n, depth, tag):
    rng = ck.rng
    decls = []
    for i in range(n):
        kind = rng.choice(["var", "var", "typedef", "func"])
        name = {"var": "v%d", "typedef": "T%d", "func": "f%d"}[kind] % i
        t = typegen.gen_top(rng, rng.randrange(1, depth + 1), STRUCTS, kind)
        b, cd = typegen.to_decl(rng, t, name, paren_p=rng.choice([0.0, 0.15, 0.4]))
        if typegen.decl_text(rng, cd).startswith("(") and (b[1] if b[0] == "B" else b[1][1]) in STRUCTS:
            # known finding (see run_known): at the start of a declaration `ClassName (` is only understood for `(*id)(`;
            # write these with a built-in element type instead
            t = typegen.rebase(t, "int")
            b = typegen.rebase(b, "int")
        text = (typegen.base_text(rng, b) + " " + typegen.decl_text(rng, cd)).strip()
        written = {"var": "extern %s;", "typedef": "typedef %s;", "func": "%s;"}[kind] % text
        decls.append({"i": i, "kind": kind, "name": name, "type": t, "base": b, "cd": cd, "written": written})
    # the generator must only produce valid C++: g++ filters (a rejected declaration is a generator artefact, counted in the evidence)
    rc, err = gxx(wd, PRELUDE + "\n".join(d["written"] for d in decls) + "\n")
    if rc != 0:
        keep = []
        for d in decls:
            rc1, _ = gxx(wd, PRELUDE + d["written"] + "\n")
            if rc1 == 0:
                keep.append(d)
            else:
                ck.extra["generator_rejected_by_gxx"] = ck.extra.get("generator_rejected_by_gxx", 0) + 1
                ck.extra.setdefault("generator_rejected_examples", [])[:] = (ck.extra.get("generator_rejected_examples", []) + [d["written"]])[:5]
        decls = keep
    hdr = PRELUDE + "".join("// CHECK: x\n%s\n" % d["written"] for d in decls)
    hp = wd / ("decl_%s.h" % tag)
    hp.write_text(hdr)
    rc, so, se = iglib.sh([str(bdir / "bin" / "parse_file"), "-T", hp.name], cwd=str(wd), timeout=300)
    ck.search_case("accepts-valid-declarations")
    if "Error in parsing" in se or rc not in (0, 1) or re.search(r"\berror\b", se.split("Finished parsing")[0] if "Finished parsing" in se else se):
        # find the declarations it rejects
        bad = []
        for d in decls:
            (wd / "one.h").write_text(PRELUDE + d["written"] + "\n")
            rc1, so1, se1 = iglib.sh([str(bdir / "bin" / "parse_file"), "one.h"], cwd=str(wd), timeout=60)
            if rc1 != 0 or "error" in se1.lower():
                bad.append(d)
                if len(bad) >= 3:
                    break
        for d in bad:
            ck.violation("rejects-valid:" + norm(d["written"])[:60], "parse_file reports an error on the valid declaration `%s`" % d["written"],
                         {"decl.h": PRELUDE + d["written"] + "\n"}, se[-2000:])
        decls = [d for d in decls if d not in bad]
        hdr = PRELUDE + "".join("// CHECK: x\n%s\n" % d["written"] for d in decls)
        hp.write_text(hdr)
        rc, so, se = iglib.sh([str(bdir / "bin" / "parse_file"), "-T", hp.name], cwd=str(wd), timeout=300)
    # parse_file -T prints with complete=true: a directly used class appears with its body; fold it back to its name
    actual = [re.sub(r"\b(?:struct|class) (\w+) \{[^}]*\}", r"\1", a) for a in re.findall(r"^actual: (.*)$", se, re.M)]
    if len(actual) != len(decls):
        ck.violation("parse-file-T-count", "parse_file -T printed %d declarations for %d written" % (len(actual), len(decls)), {hp.name: hdr}, se[-3000:])
        return
    ops = ["decl %s %s %s %s" % (typegen.hx(d["name"]), typegen.enc_type(d["base"]), typegen.enc_decl(d["cd"]), typegen.enc_type(d["type"])) for d in decls]
    model = iglib.run_driver("ctype", ops, timeout=600)
    chk = ["#include <type_traits>", PRELUDE]
    for d, a, m in zip(decls, actual, model):
        prefix = {"var": "extern ", "typedef": "typedef ", "func": ""}[d["kind"]]
        mm = re.match(r"wf=(\w+) same=(\w+) (.*)$", m)
        ok_model = bool(mm) and mm.group(1) == "true" and mm.group(2) == "true"
        if not ok_model:
            ck.oblige("model self-check on generated declaration (well-formed, unroll = written type)", False, "%s -> %s" % (d["written"], m))
            continue
        ck.corr_case("printed-declaration-vs-model", d["written"], norm(a) == norm(prefix + mm.group(3)),
                     detail="parse_file printed `%s`, the model prints `%s%s`" % (a, prefix, mm.group(3)),
                     nontrivial=typegen.depth_of(d["type"]) >= 2, feature=typegen.shape_of(d["type"]) + ["depth%d" % min(typegen.depth_of(d["type"]), 6), d["kind"]])
        d["actual"] = a
        pn = d["name"] + "_p"
        chk.append(d["written"])
        chk.append(rename(a, d["name"], pn) + ";")
        if d["kind"] == "typedef":
            chk.append('static_assert(std::is_same<%s, %s>::value, "%s");' % (d["name"], pn, d["name"]))
        else:
            chk.append('static_assert(std::is_same<decltype(%s), decltype(%s)>::value, "%s");' % (d["name"], pn, d["name"]))
    rc, err = gxx(wd, "\n".join(chk) + "\n")
    for d in decls:
        ck.search_case("printed-type-is-written-type")
    if rc != 0:
        nbad = 0
        for d in decls:
            if "actual" not in d:
                continue
            pn = d["name"] + "_p"
            one = "#include <type_traits>\n" + PRELUDE + d["written"] + "\n" + rename(d["actual"], d["name"], pn) + ";\n"
            one += ('static_assert(std::is_same<%s, %s>::value, "");\n' % (d["name"], pn)) if d["kind"] == "typedef" else \
                   ('static_assert(std::is_same<decltype(%s), decltype(%s)>::value, "");\n' % (d["name"], pn))
            rc1, err1 = gxx(wd, one, "one.cpp")
            if rc1 != 0:
                nbad += 1
                if nbad <= 3:
                    ck.violation("printed-differs:" + "+".join(typegen.shape_of(d["type"])), "`%s` is printed as `%s`, which g++ does not accept as the same type" % (d["written"], d["actual"]),
                                 {"decl.h": PRELUDE + "// CHECK: x\n" + d["written"] + "\n", "check.cpp": one}, err1[-2000:])


XPRELUDE = PRELUDE + ("template<class T> struct Box { T *p; };\ntemplate<class A, class B> struct Pair { A *a; B *b; };\n"
                      "template<int N, class T> struct Ring { T *items[N + 1]; };\n")
XSCAL = ["int", "double", "char", "float", "bool", "unsigned int"]


# constant expressions over the same operands that differ only in an operator: each is its own type argument / array bound
XEXPR = ["4 + 2", "4 * 2", "4 - 2", "4 << 2", "4 | 2", "-2 + 8", "~2 + 8", "(4 > 2 ? 3 : 5)", "(4 < 2 ? 3 : 5)", "(4 > 2 ? 3 : 7)", "4 / 2", "4 % 3"]


def x_base(rng, depth):
    """a named type: scalar, class, or a template-id whose arguments are themselves type-ids (function types, member pointers, template-ids)"""
    r = rng.random()
    if depth <= 0 or r < 0.35:
        return rng.choice(XSCAL + STRUCTS)
    if r < 0.6:
        return "Box<%s >" % x_tid(rng, depth - 1, arg=True).replace("@", "").strip()
    if r < 0.8:
        return "Pair<%s, %s >" % (x_tid(rng, depth - 1, arg=True).replace("@", "").strip(), x_tid(rng, depth - 1, arg=True).replace("@", "").strip())
    n = rng.choice(["3", "1 + 2", "sizeof(Box<%s >)" % rng.choice(XSCAL), "(sizeof(Box<%s >) > 1)" % rng.choice(XSCAL), "(2 > 1)", "(4 >> 1)"] + XEXPR)
    return "Ring<%s, %s >" % (n, x_tid(rng, depth - 1, arg=True).replace("@", "").strip())


def x_params(rng, depth):
    ps = rng.choice([[], ["int"], ["int"], ["int", "double"], None, None])
    if ps is None:
        ps = [x_tid(rng, depth - 1, param=True).replace("@", "").strip() for _ in range(rng.choice([1, 2, 3]))]
    return ", ".join(ps)


def x_tid(rng, depth, arg=False, param=False, top=False):
    """a type-id with `@` where the declared name goes; arg: usable as a template type argument; param: as a parameter type"""
    r = rng.random()
    # (known findings, probed in run_extended_known and kept out of the generated stream: inside a template argument the abstract declarators
    #  `T *(*)(..)` and `R (C::*)(..)` are not understood; a pointer to a data member `T C::*` is recorded as a plain pointer)
    ret = rng.choice(["int", "void", "double", "bool"]) if rng.random() < 0.6 or depth <= 0 else x_base(rng, depth - 1) + ("" if arg else " *")
    if ret in STRUCTS:
        ret = "int"       # `ClassName (` at the start of a declaration: known finding classname-paren-declarator
    if arg and 0.7 <= r < 0.92:
        r = rng.choice([0.1, 0.4, 0.6, 0.95])
    if 0.85 <= r < 0.92:
        r = 0.8
    if r < 0.08 and not arg:      # (in a template argument `T (*)[N]` falls under the known finding about abstract declarators)
        return "%s (*@)[%s]" % (rng.choice(XSCAL), rng.choice(XEXPR))          # pointer to an array whose bound is an expression
    if r < 0.3:
        return "%s @" % x_base(rng, depth)
    if r < 0.45:
        return "%s *@" % x_base(rng, depth)
    if r < 0.55 and (param or top):
        return "const %s &@" % x_base(rng, depth)
    if r < 0.7:
        return "%s (*@)(%s)" % (ret, x_params(rng, depth))
    if r < 0.85:
        # pointers to member functions of different classes with the same signature are different types
        return "%s (%s::*@)(%s)%s" % (ret, rng.choice(STRUCTS), x_params(rng, depth), rng.choice(["", "", " const"]))
    if r < 0.92:
        return "%s %s::*@" % (rng.choice(XSCAL), rng.choice(STRUCTS))
    if arg:
        return "%s @(%s)" % (ret, x_params(rng, depth))       # a function type as a template argument
    return "%s *@" % x_base(rng, depth)


def run_extended(ck, wd, bdir, n, tag):
    """template-ids with type-id arguments, pointers to members: printed text against the written one under g++ (no Lean model: see PARTIAL)"""
    rng = ck.rng
    decls = []
    for i in range(n):
        kind = rng.choice(["var", "typedef", "func"])
        name = {"var": "xv%d", "typedef": "XT%d", "func": "xf%d"}[kind] % i
        if kind == "func":
            ret = rng.choice(["void", "int", x_base(rng, 2), x_base(rng, 2) + " *"])
            ps = [x_tid(rng, 2, param=True).replace("@", rng.choice(["", "a%d" % k])).strip() for k in range(rng.choice([1, 1, 2, 3]))]
            written = "%s %s(%s);" % (ret, name, ", ".join(ps))
        else:
            written = {"var": "extern %s;", "typedef": "typedef %s;"}[kind] % x_tid(rng, 3, top=True).replace("@", name)
        decls.append({"kind": kind, "name": name, "written": written})
    keep = []
    rc, err = gxx(wd, XPRELUDE + "\n".join(d["written"] for d in decls) + "\n")
    for d in decls:
        if rc == 0 or gxx(wd, XPRELUDE + d["written"] + "\n")[0] == 0:
            keep.append(d)
        else:
            ck.extra["extended_rejected_by_gxx"] = ck.extra.get("extended_rejected_by_gxx", 0) + 1
    decls = keep
    hdr = XPRELUDE + "".join("// CHECK: x\n%s\n" % d["written"] for d in decls)
    hp = wd / ("xdecl_%s.h" % tag)
    hp.write_text(hdr)
    rc, so, se = iglib.sh([str(bdir / "bin" / "parse_file"), "-T", hp.name], cwd=str(wd), timeout=300)
    head = se.split("Finished parsing")[0] if "Finished parsing" in se else se
    ck.search_case("accepts-valid-declarations")
    if "Error in parsing" in se or rc not in (0, 1) or re.search(r"\b(error|warning)\b", head):
        bad = []
        for d in decls:
            (wd / "one.h").write_text(XPRELUDE + d["written"] + "\n")
            rc1, so1, se1 = iglib.sh([str(bdir / "bin" / "parse_file"), "one.h"], cwd=str(wd), timeout=60)
            if rc1 != 0 or re.search(r"\b(error|warning)\b", se1.split("Finished parsing")[0]):
                bad.append(d)
                ck.violation("rejects-valid:extended", "parse_file reports an error or warning on the valid declaration `%s`" % d["written"],
                             {"decl.h": XPRELUDE + d["written"] + "\n"}, se1[-2000:])
                if len(bad) >= 3:
                    break
        decls = [d for d in decls if d not in bad]
        hdr = XPRELUDE + "".join("// CHECK: x\n%s\n" % d["written"] for d in decls)
        hp.write_text(hdr)
        rc, so, se = iglib.sh([str(bdir / "bin" / "parse_file"), "-T", hp.name], cwd=str(wd), timeout=300)
    actual = [re.sub(r"\b(?:struct|class) (\w+(?:< .*? >)?) \{[^{}]*\}", r"\1", a) for a in re.findall(r"^actual: (.*)$", se, re.M)]
    if len(actual) != len(decls):
        ck.violation("parse-file-T-count", "parse_file -T printed %d declarations for %d written" % (len(actual), len(decls)), {hp.name: hdr}, se[-3000:])
        return

    def probe(d, a):
        pn = d["name"] + "_p"
        one = d["written"] + "\n" + rename(a, d["name"], pn) + ";\n"
        if d["kind"] == "typedef":
            return one + 'static_assert(std::is_same<%s, %s>::value, "%s");\n' % (d["name"], pn, d["name"])
        return one + 'static_assert(std::is_same<decltype(%s), decltype(%s)>::value, "%s");\n' % (d["name"], pn, d["name"])
    rc, err = gxx(wd, "#include <type_traits>\n" + XPRELUDE + "".join(probe(d, a) for d, a in zip(decls, actual)))
    nbad = 0
    for d, a in zip(decls, actual):
        ck.search_case("printed-type-is-written-type")
        feats = [f for f, pat in (("member-pointer", "::*"), ("template-id", "<"), ("function-type-argument", "> (")) if pat in d["written"]] or ["plain"]
        ok = rc == 0 or gxx(wd, "#include <type_traits>\n" + XPRELUDE + probe(d, a), "one.cpp")[0] == 0
        ck.corr_case("extended-printed-vs-written (g++ is_same)", d["written"], ok, detail="`%s` is printed as `%s`" % (d["written"], a), nontrivial=True, feature=feats)
        if not ok:
            nbad += 1
            if nbad <= 3:
                ck.violation("printed-differs:extended", "`%s` is printed as `%s`, which g++ does not accept as the same type" % (d["written"], a),
                             {"decl.h": XPRELUDE + "// CHECK: x\n" + d["written"] + "\n", "check.cpp": "#include <type_traits>\n" + XPRELUDE + probe(d, a)}, "")


def run_extended_known(ck, wd, bdir):
    probes = [("known:data-member-pointer", "void f1(bool S0::*a);\n", r"S0::\*",
               "a pointer to a data member loses its class: `void f1(bool S0::*a);` is printed `%s` (r_unroll_type turns IIT_scoped_pointer into a plain "
               "CPPPointerType unless the pointee is a function type; there is no type node for pointers to data members)"),
              ("known:abstract-declarator-template-argument", "extern Box<void (S0::*)() > v3;\nextern Box<char * (*)(int) > v6;\n", r"S0::\*\)\(void\) >",
               "inside a template argument the abstract declarators `R (C::*)(..)` and `T *(*)(..)` are not understood ('invalid type' warning; the argument "
               "becomes `unknown`): `extern Box<void (S0::*)() > v3;` is printed `%s` (empty_instance_identifier in cppBison.yxx has no production for them; "
               "repairing it means changing the grammar and regenerating the prebuilt parser)")]
    probes += [("known:literal-suffix-dropped", "template<long long N> struct LL { };\nextern LL<(1LL << 40)> v4;\n", r"1LL",
                "the suffix of an integer literal is not recorded: `extern LL<(1LL << 40)> v4;` is printed `%s`, whose `1 << 40` is an `int` shift (the expression "
                "node keeps the value only; a repair adds the literal's type to T_integer nodes and to every place that folds them)")]
    for key, src, must, what in probes:
        text = XPRELUDE + "".join("// CHECK: x\n%s\n" % l for l in src.strip().split("\n"))
        (wd / "known.h").write_text(text)
        rc, so, se = iglib.sh([str(bdir / "bin" / "parse_file"), "-T", "known.h"], cwd=str(wd), timeout=60)
        actual = [re.sub(r"\b(?:struct|class) (\w+(?:< .*? >)?) \{[^{}]*\}", r"\1", a) for a in re.findall(r"^actual: (.*)$", se, re.M)]
        ck.search_case("known-limit-probe")
        if actual and not re.search(must, actual[-1] if key.endswith("suffix-dropped") else actual[0]):
            ck.violation(key, what % (actual[-1] if key.endswith("suffix-dropped") else actual[0]), {"known.h": text}, se[-1500:])
    # `<::` is `<` followed by `::` unless `:` or `>` comes next ([lex.pptoken]); the lexer has one character of look-ahead and takes `<:` for `[`
    text = XPRELUDE + "namespace nsq { struct H { int v; }; }\n// CHECK: x\nextern Box<::nsq::H> vq;\n"
    (wd / "known.h").write_text(text)
    rc, so, se = iglib.sh([str(bdir / "bin" / "parse_file"), "-T", "known.h"], cwd=str(wd), timeout=60)
    ck.search_case("known-limit-probe")
    if "error" in se.split("Finished parsing")[0] or not re.search(r"^actual: .*nsq::H", se, re.M):
        ck.violation("known:less-colon-colon", "`extern Box<::nsq::H> vq;` is a syntax error: `<:` is taken for the digraph `[` although `<::` not followed by `:` or `>` is `<` `::` "
                     "([lex.pptoken]/3); the lexer looks one character ahead (check_digraph), the rule needs three", {"known.h": text}, se[-1500:])


def run_typedef_redeclarations(ck, wd, bdir, n):
    """[dcl.typedef]/3: a typedef-name may be declared again in its scope to refer to the type it already refers to — however that
    type is spelled (directly, through another alias, behind a pointer / const / array, with an alias-declaration, with a class-key)"""
    rng = ck.rng
    for k in range(n):
        base = rng.choice(["int", "double", "unsigned char", "long long", "signed char"])
        lines = ["typedef %s b0_t;" % base, "typedef b0_t b1_t;", "using b2_t = b1_t;", "struct TS { int m; };", "typedef TS ts_t;"]
        spell = lambda: rng.choice([base, "b0_t", "b1_t", "b2_t"])
        for j in range(rng.randrange(3, 8)):
            form = rng.choice(["plain", "ptr", "cptr", "arr", "ref", "ns", "struct"])      # (function types: known finding, probed below)
            nm = "r%d_t" % j
            two = [spell(), spell()]
            if form == "plain":
                decl = ["typedef %s %s;" % (x, nm) for x in two]
            elif form == "ptr":
                decl = ["typedef %s *%s;" % (x, nm) for x in two]
            elif form == "cptr":
                decl = ["typedef const %s *%s;" % (two[0], nm), "typedef %s const *%s;" % (two[1], nm)]
            elif form == "arr":
                decl = ["typedef %s %s[3];" % (x, nm) for x in two]
            elif form == "ref":
                decl = ["typedef %s &%s;" % (two[0], nm), "using %s = %s &;" % (nm, two[1])]
            elif form == "fnptr":
                decl = ["typedef %s (*%s)(%s);" % (two[0], nm, two[1]), "typedef %s (*%s)(%s);" % (two[1], nm, two[0])]
            elif form == "struct":
                decl = ["typedef TS %s;" % nm, rng.choice(["typedef struct TS %s;", "typedef ts_t %s;"]) % nm]
            else:
                decl = ["namespace ns%d { typedef %s h_t; %s }" % (j, two[0], rng.choice(["typedef %s h_t;" % two[1], "using h_t = %s;" % two[1]]))]
            lines += decl
            lines.append("extern %s use%d;" % ("ns%d::h_t" % j if form == "ns" else nm, j) if form != "ref" else "extern %s use%d;" % (nm, j))
        text = "\n".join(lines) + "\n"
        (wd / "tdr.h").write_text(text)
        rc, so, se = iglib.sh(["g++", "-std=c++17", "-fsyntax-only", "-x", "c++", "tdr.h"], cwd=str(wd), timeout=60)
        if rc != 0:
            ck.extra["typedef_redeclarations_rejected_by_gxx"] = ck.extra.get("typedef_redeclarations_rejected_by_gxx", 0) + 1
            continue
        rc, so, se = iglib.sh([str(bdir / "bin" / "parse_file"), "tdr.h"], cwd=str(wd), timeout=60)
        ck.search_case("typedef-redeclaration-accepted")
        if rc != 0 or re.search(r"\berror\b|conflicting", se):
            ck.violation("rejects-typedef-redeclaration", "parse_file rejects a header in which typedef-names are declared twice with the same type spelled differently (g++ accepts it)",
                         {"tdr.h": text}, se[-2000:])
            break


def run_typedef_known(ck, wd, bdir):
    """function types have no is_equivalent of their own: a function-pointer typedef declared again with an alias in its signature is rejected"""
    text = "typedef unsigned char b_t;\ntypedef unsigned char (*fp_t)(b_t);\ntypedef b_t (*fp_t)(unsigned char);\nextern fp_t use;\n"
    (wd / "tdk.h").write_text(text)
    rc, so, se = iglib.sh([str(bdir / "bin" / "parse_file"), "tdk.h"], cwd=str(wd), timeout=60)
    ck.search_case("known-limit-probe")
    if rc != 0 or "conflicting" in se:
        ck.violation("known:typedef-redeclaration-function-type", "`typedef unsigned char (*fp_t)(b_t); typedef b_t (*fp_t)(unsigned char);` (b_t an alias of unsigned char) is rejected as a "
                     "conflicting declaration: CPPFunctionType has no is_equivalent(), so signatures are compared structurally", {"tdk.h": text}, se[-1500:])


def run_stub_headers(ck, bdir):
    """every shipped parser-inc stub header that g++ accepts must parse with zero errors"""
    inc = iglib.REPO / "parser-inc"
    if not inc.is_dir():
        return
    accepted = 0
    for f in sorted(inc.iterdir()):
        if not f.is_file() or f.name == "README":
            continue
        rc, so, se = iglib.sh(["g++", "-std=c++17", "-fsyntax-only", "-nostdinc", "-nostdinc++", "-I", ".", "-x", "c++", f.name], cwd=str(inc), timeout=60)
        if rc != 0:
            continue
        accepted += 1
        rc, so, se = iglib.sh([str(bdir / "bin" / "parse_file"), "-S", ".", f.name], cwd=str(inc), timeout=60)
        ck.search_case("stub-header-accepted")
        if rc != 0 or re.search(r"\berror\b", se):
            ck.violation("rejects-stub-header:" + f.name, "parse_file reports an error on parser-inc/%s, which g++ accepts" % f.name, {"cmd.txt": "cd /repo/parser-inc && parse_file -S . %s\n" % f.name}, se[-2000:])
    ck.extra["stub_headers_accepted_by_gxx"] = accepted


def run(ck):
    quick = ck.quick
    ck.lean_obligations("IgVerif.Props.C06", THEOREMS, PARTIAL)
    ck.trusted += ["g++ 12 (-fsyntax-only, std::is_same / out-of-class definitions) as the judge of 'denotes the same type'",
                   "tools/gen/typegen.py, tools/gen/scopegen.py (generators; what g++ rejects is dropped and counted)",
                   "parse_file -T and interrogate -oh as the channels through which printed text is observed"]
    bdir = iglib.build_repo("std")
    wd = workdir(ck)
    ck.rule = ("(declarators) valid types from a grammar of pointers/references/arrays/functions/const to depth 5, written with random redundant "
               "parentheses and east/west const as extern variables, typedefs and functions: parse_file's printed declaration against the Lean "
               "unroll+printer, and against the written one under g++ std::is_same; (lookup) generated namespace/class/base/typedef programs with "
               "shadowed names: the entity each unqualified name resolves to against the Lean findType model and against g++ (out-of-class "
               "definitions, static_assert on typedef targets and member types); (templates) class templates with type and non-type arguments, "
               "instantiated: printed member types and prototypes against g++; (extended) template-ids whose arguments are type-ids (function types, member pointers, nested template-ids, constant expressions with '>' and sizeof) and pointers to data/function members of several classes: printed text against g++ only; (acceptance) parser-inc stub headers accepted by g++ must parse. "
               "distinct = distinct declaration text / program")
    try:
        for r in range(2 if quick else 30):
            run_declarators(ck, wd, bdir, 150 if quick else 400, 4 if quick else 6, "r%d" % r)
        for r in range(2 if quick else 40):
            run_extended(ck, wd, bdir, 60 if quick else 150, "x%d" % r)
        scopegen.run_scopes(ck, wd, bdir, 12 if quick else 200)
        scopegen.run_templates(ck, wd, bdir, 8 if quick else 120)
        scopegen.run_known(ck, wd, bdir)
        run_extended_known(ck, wd, bdir)
        run_stub_headers(ck, bdir)
        run_typedef_redeclarations(ck, wd, bdir, 12 if quick else 300)
        run_typedef_known(ck, wd, bdir)
    finally:
        shutil.rmtree(wd, ignore_errors=True)
