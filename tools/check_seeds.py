#!/usr/bin/env python3
"""check_seeds.py [ids...]: apply every seeded change to /repo in turn, run the quick check of its property, undo it, and report whether the
check alarmed.  (C19_1 is the harmless control: no alarm expected.)  /repo must be clean; it is left clean."""
import json, os, subprocess, sys
HERE = os.path.dirname(os.path.dirname(os.path.abspath(__file__)))
REPO = "/repo"


def sh(cmd, **kw):
    return subprocess.run(cmd, stdout=subprocess.PIPE, stderr=subprocess.STDOUT, text=True, **kw)


def main():
    ids = sys.argv[1:] or sorted(os.listdir(os.path.join(HERE, "seeded")))
    if sh(["git", "-C", REPO, "status", "--porcelain", "--untracked-files=no"]).stdout.strip():
        print("refusing: /repo has local changes")
        return 2
    rows = []
    for sid in ids:
        d = os.path.join(HERE, "seeded", sid)
        patch = os.path.join(d, "patch.diff")
        prop = sid.split("_")[0]
        r = sh(["git", "-C", REPO, "apply", "--check", patch])
        if r.returncode != 0:
            rows.append((sid, "patch-does-not-apply", ""))
            print(sid, "patch does not apply to the current tree")
            continue
        sh(["git", "-C", REPO, "apply", patch])
        try:
            r = sh([sys.executable, os.path.join(HERE, "tools", "verif.py"), "check", prop, "--tier", "quick"], cwd=HERE)
        finally:
            sh(["git", "-C", REPO, "reset", "-q", "--hard", "HEAD"])
        viol = [l for l in r.stdout.split("\n") if l.startswith("VIOLATION")]
        rows.append((sid, "ALARM" if r.returncode != 0 else "quiet", viol[0][:120] if viol else ""))
        print(sid, rows[-1][1], rows[-1][2], flush=True)
    sh([sys.executable, os.path.join(HERE, "tools", "verif.py"), "setup"], cwd=HERE)      # regenerate the facts from the clean tree again
    json.dump(rows, open("/var/tmp/igverif/seed_matrix.json", "w"), indent=1)
    missed = [r for r in rows if (r[1] != "ALARM") != (r[0] == "C19_1") and r[1] != "patch-does-not-apply"]
    print("missed/unexpected:", missed)
    return 0


if __name__ == "__main__":
    sys.exit(main())
