#!/usr/bin/env python3
"""Entry point:  tools/verif.py check C07 [--tier quick|thorough] [--seed N]
               tools/verif.py setup
Exit 0 = property held on everything explored; exit 1 + VIOLATION line otherwise."""
import argparse
import importlib
import os
import sys
import traceback

sys.path.insert(0, os.path.dirname(os.path.abspath(__file__)))
import iglib


def main():
    ap = argparse.ArgumentParser()
    sub = ap.add_subparsers(dest="cmd", required=True)
    c = sub.add_parser("check")
    c.add_argument("pid")
    c.add_argument("--tier", default=os.environ.get("VERIF_TIER", "quick"))
    c.add_argument("--seed", type=int, default=int(os.environ.get("VERIF_SEED", "1")))
    sub.add_parser("setup")
    a = ap.parse_args()
    if a.cmd == "setup":
        ok, out = iglib.lake_build(["IgVerif", "igdriver"])
        print(out[-3000:])
        if not ok:
            sys.exit(2)
        iglib.build_repo("std")
        sys.exit(0)
    tier = a.tier if a.tier in ("quick", "thorough") else "quick"
    ck = iglib.Check(a.pid, tier, a.seed)
    try:
        mod = importlib.import_module("props." + a.pid.lower())
        mod.run(ck)
    except Exception as e:
        traceback.print_exc()
        ck.oblige("check machinery ran to completion", False, "%s: %s" % (type(e).__name__, str(e)[:1500]))
    sys.exit(ck.finish())


if __name__ == "__main__":
    main()
