#!/usr/bin/env python3
"""Entry point:  tools/verif.py check C07 [--tier quick|thorough] [--seed N]
               tools/verif.py setup
Exit 0 = property held on everything explored; exit 1 + VIOLATION line otherwise."""
import argparse
import importlib
import os
import sys
import traceback

sys.path.insert(0, os.path.dirname(os.path.abspath(__file__)))
import iglib


def main():
    ap = argparse.ArgumentParser()
    sub = ap.add_subparsers(dest="cmd", required=True)
    c = sub.add_parser("check")
    c.add_argument("pid")
    c.add_argument("--tier", default=os.environ.get("VERIF_TIER", "quick"))
    c.add_argument("--seed", type=int, default=int(os.environ.get("VERIF_SEED", "1")))
    sub.add_parser("setup")
    a = ap.parse_args()
    if a.cmd == "setup":
        # bring the regenerated facts in line with the current tree first (every check does this again for its own facts)
        for name in ("dbschema", "c20_guards", "c19_proto", "c07_tables", "c09_cmds", "c18_powers", "c14_facts", "c04_gates", "c02_keywords"):
            try:
                importlib.import_module("extract." + name).main()
            except Exception as e:
                print("translator %s: %s" % (name, e))
        ok, out = iglib.lake_build(["igdriver"])
        print(out[-3000:])
        if not ok:
            sys.exit(2)
        ok2, out2 = iglib.lake_build(["IgVerif"])
        if not ok2:
            # a theorem that no longer checks is reported by the check of its property, not by the setup
            print("note: the library does not build completely on this tree:\n" + out2[-1500:])
        iglib.build_repo("std")
        sys.exit(0)
    tier = a.tier if a.tier in ("quick", "thorough") else "quick"
    ck = iglib.Check(a.pid, tier, a.seed)
    try:
        mod = importlib.import_module("props." + a.pid.lower())
        mod.run(ck)
    except Exception as e:
        traceback.print_exc()
        ck.oblige("check machinery ran to completion", False, "%s: %s" % (type(e).__name__, str(e)[:1500]))
    sys.exit(ck.finish())


if __name__ == "__main__":
    main()
