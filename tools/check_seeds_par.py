#!/usr/bin/env python3
"""check_seeds_par.py K [ids...]: like check_seeds.py, but K workers in parallel, each on its own copy of /verif, its own git worktree of
/repo and its own scratch directory (all under $IGVERIF_SCRATCH/par, removed at the end).  /repo and /verif are not touched."""
import json, os, queue, shutil, subprocess, sys, threading
HERE = os.path.dirname(os.path.dirname(os.path.abspath(__file__)))
REPO = os.environ.get("IGVERIF_REPO", "/repo")
BASE = os.path.join(os.environ.get("IGVERIF_SCRATCH", "/var/tmp/igverif"), "par")


def sh(cmd, **kw):
    return subprocess.run(cmd, stdout=subprocess.PIPE, stderr=subprocess.STDOUT, text=True, **kw)


def worker(k, q, rows, lock):
    root = os.path.join(BASE, "w%d" % k)
    shutil.rmtree(root, ignore_errors=True)
    os.makedirs(root)
    verif, repo, scratch = os.path.join(root, "verif"), os.path.join(root, "repo"), os.path.join(root, "scratch")
    sh(["rsync", "-a", "--exclude", ".git", "--exclude", "replays", "--exclude", "seeded", HERE + "/", verif + "/"])
    sh(["git", "-C", REPO, "worktree", "add", "--detach", repo, "HEAD"])
    env = dict(os.environ, IGVERIF_REPO=repo, IGVERIF_SCRATCH=scratch)
    try:
        sh([sys.executable, os.path.join(verif, "tools", "verif.py"), "setup"], cwd=verif, env=env)
        while True:
            try:
                sid = q.get_nowait()
            except queue.Empty:
                break
            patch = os.path.join(HERE, "seeded", sid, "patch.diff")
            prop = sid.split("_")[0]
            if sh(["git", "-C", repo, "apply", "--check", patch]).returncode != 0:
                row = (sid, "patch-does-not-apply", "")
            else:
                sh(["git", "-C", repo, "apply", patch])
                try:
                    r = sh([sys.executable, os.path.join(verif, "tools", "verif.py"), "check", prop, "--tier", "quick"], cwd=verif, env=env)
                finally:
                    sh(["git", "-C", repo, "reset", "-q", "--hard", "HEAD"])
                viol = [l for l in r.stdout.split("\n") if l.startswith("VIOLATION")]
                row = (sid, "ALARM" if r.returncode != 0 else "quiet", viol[0][:140].replace(verif, "") if viol else "")
            with lock:
                rows.append(row)
                print(*row, flush=True)
    finally:
        sh(["git", "-C", REPO, "worktree", "remove", "--force", repo])
        shutil.rmtree(root, ignore_errors=True)


def main():
    k = int(sys.argv[1])
    ids = sys.argv[2:] or sorted(os.listdir(os.path.join(HERE, "seeded")))
    # slow properties first so that the tail is short
    cost = {"C15": 9, "C03": 5, "C14": 4, "C01": 4, "C02": 4, "C11": 3, "C06": 3}
    ids.sort(key=lambda s: -cost.get(s.split("_")[0], 1))
    q = queue.Queue()
    for s in ids:
        q.put(s)
    rows, lock = [], threading.Lock()
    ts = [threading.Thread(target=worker, args=(i, q, rows, lock)) for i in range(k)]
    for t in ts:
        t.start()
    for t in ts:
        t.join()
    sh(["git", "-C", REPO, "worktree", "prune"])
    shutil.rmtree(BASE, ignore_errors=True)
    rows.sort()
    json.dump(rows, open(os.path.join(os.environ.get("IGVERIF_SCRATCH", "/var/tmp/igverif"), "seed_matrix.json"), "w"), indent=1)
    missed = [r for r in rows if (r[1] != "ALARM") != (r[0] == "C19_1") and r[1] != "patch-does-not-apply"]
    print("missed/unexpected:", missed)
    return 0


if __name__ == "__main__":
    sys.exit(main())
