"""Translator: the output sections of interrogate.cxx main() and interrogate_module.cxx main()
-> lean/IgVerif/Gen/C19Proto.lean (lists of stream statements, see Model/OutProto.lean).

Everything that touches an output file stream or the exit status must be
recognised; an unrecognised statement makes the extraction fail (reported as a
broken obligation), never silently skipped.
"""
import os
import re
import sys

sys.path.insert(0, os.path.dirname(os.path.dirname(os.path.abspath(__file__))))
import iglib
from iglib import strip_c_comments, lean_str, LEAN, write_if_changed


class ProtoError(Exception):
    pass


def parse_block(s, i=0):
    """parse statements of s starting at i until the matching '}' or end.
    returns (list, next_index); statements: ('stmt', text) | ('if', cond, then, else|None) | ('loop', head, body) | ('block', body)"""
    out = []
    n = len(s)
    while i < n:
        while i < n and s[i].isspace():
            i += 1
        if i >= n:
            break
        if s[i] == "}":
            return out, i + 1
        if s[i] == "{":
            body, i = parse_block(s, i + 1)
            out.append(("block", body))
            continue
        m = re.match(r"(if|for|while)\s*\(", s[i:])
        if m:
            kw = m.group(1)
            j = i + m.end() - 1
            depth = 0
            k = j
            while True:
                if s[k] == "(":
                    depth += 1
                elif s[k] == ")":
                    depth -= 1
                    if depth == 0:
                        break
                k += 1
            cond = " ".join(s[j + 1:k].split())
            k += 1
            while s[k].isspace():
                k += 1
            if s[k] == "{":
                body, k = parse_block(s, k + 1)
            else:
                e = s.find(";", k)
                body, k = [("stmt", s[k:e].strip())], e + 1
            if kw == "if":
                els = None
                m2 = re.match(r"\s*else\b\s*", s[k:])
                if m2:
                    k2 = k + m2.end()
                    if s[k2] == "{":
                        els, k = parse_block(s, k2 + 1)
                    elif s[k2:k2 + 2] == "if":
                        sub, k = parse_block_one(s, k2)
                        els = sub
                    else:
                        e = s.find(";", k2)
                        els, k = [("stmt", s[k2:e].strip())], e + 1
                out.append(("if", cond, body, els))
            else:
                out.append(("loop", cond, body))
            i = k
            continue
        # preprocessor lines
        if s[i] == "#":
            e = s.find("\n", i)
            i = n if e < 0 else e + 1
            continue
        e = i
        depth = 0
        while e < n and not (s[e] == ";" and depth == 0):
            if s[e] in "([":
                depth += 1
            elif s[e] in ")]":
                depth -= 1
            e += 1
        out.append(("stmt", " ".join(s[i:e].split())))
        i = e + 1
    return out, i


def parse_block_one(s, i):
    stmts, j = parse_block(s + "}", i)
    return stmts[:1], j


class Ctx:
    def __init__(self, streams):
        self.streams = streams  # name -> channel id

    def stream_in(self, text):
        for name, ch in self.streams.items():
            if re.search(r"\b" + name + r"\b", text):
                return name, ch
        return None


def mentions_status(text):
    return re.search(r"\bstatus\b", text) is not None


def only_diagnostics(stmts, ctx):
    """then-branch of a failure test: only `nout << …`, `status = <non-zero constant>`; returns whether it sets the status"""
    sets = False
    for st in stmts:
        if st[0] != "stmt":
            raise ProtoError("unexpected control flow in a failure branch: %r" % (st,))
        t = st[1]
        if re.match(r"^(nout|std::cerr|cerr)\s*<<", t):
            continue
        m = re.match(r"^status\s*=\s*\(?\s*(-?\d+)\s*\)?$", t)
        if m and int(m.group(1)) != 0:
            sets = True
            continue
        raise ProtoError("unrecognised statement in a failure branch: " + t)
    return sets


def simples(stmts, ctx, conditional=False):
    """statements of an else-branch (or of a harmless conditional): -> list of Simple tuples"""
    out = []
    for st in stmts:
        if st[0] == "stmt":
            t = st[1]
            if not t:
                continue
            if mentions_status(t):
                raise ProtoError("assignment to / use of status outside a recognised failure test: " + t)
            hit = ctx.stream_in(t)
            if hit is None:
                continue   # touches no output file stream
            name, ch = hit
            if re.match(r"^" + name + r"\.close\(\)$", t):
                if conditional:
                    raise ProtoError("conditional close of " + name)
                out.append(("close", ch))
            elif re.match(r"^[\w.]+\.open_write\(" + name + r"\)$", t):
                if conditional:
                    raise ProtoError("conditional open of " + name)
                out.append(("open", ch))
            elif re.match(r"^std::ofstream\s+" + name + r"$", t):
                continue
            elif re.match(r"^" + name + r"\s*<<", t) or re.search(r"\(\s*(?:[\w>\-.*&]+\s*,\s*)*" + name + r"\s*[,)]", t):
                out.append(("write", ch))
            else:
                raise ProtoError("unrecognised use of stream %s: %s" % (name, t))
        elif st[0] == "if":
            cond, then, els = st[1], st[2], st[3]
            hit = ctx.stream_in(cond)
            if hit and re.match(r"^" + hit[0] + r"\.fail\(\)$", cond) and els is None and not conditional:
                if only_diagnostics(then, ctx):
                    out.append(("setIfFail", hit[1]))
                # a failure test that sets nothing contributes nothing
            elif hit or mentions_status(cond):
                raise ProtoError("unrecognised stream/status condition inside a branch: " + cond)
            else:
                if re.search(r"the_output_include", cond):
                    continue   # the (disabled) -oi include-file channel; never opened (`if (1==2 && …)`)
                out += simples(then, ctx, conditional=True)
                if els:
                    out += simples(els, ctx, conditional=True)
        elif st[0] == "loop":
            out += simples(st[2], ctx, conditional=True)
        elif st[0] == "block":
            out += simples(st[1], ctx, conditional)
    return out


def top_level(stmts, ctx):
    out = []
    for st in stmts:
        if st[0] == "if":
            cond, then, els = st[1], st[2], st[3]
            hit = ctx.stream_in(cond)
            m_open = re.match(r"^!\s*[\w.]+\.open_write\((\w+)\)$", cond)
            if hit and re.match(r"^" + hit[0] + r"\.fail\(\)$", cond):
                sets = only_diagnostics(then, ctx)
                out.append(("ifFailElse", hit[1], sets, simples(els or [], ctx)))
            elif m_open and m_open.group(1) in ctx.streams:
                ch = ctx.streams[m_open.group(1)]
                sets = only_diagnostics(then, ctx)
                out.append(("s", ("open", ch)))
                out.append(("ifFailElse", ch, sets, simples(els or [], ctx)))
            elif hit or mentions_status(cond):
                raise ProtoError("unrecognised stream/status condition: " + cond)
            elif re.search(r"_filename\.empty\(\)", cond) and els is None:
                out += top_level(then, ctx)       # the channel was requested on the command line
            elif re.search(r"the_output_include|1\s*==\s*2", cond):
                continue
            elif re.search(r"interrogate_error_flag\(\)", cond):
                continue   # exit(1) after unlinking the output: handled by C16
            else:
                for x in simples([st], ctx):
                    out.append(("s", x))
        elif st[0] == "block":
            out += top_level(st[1], ctx)
        else:
            for x in simples([st], ctx):
                out.append(("s", x))
    return out


def extract_main(rel, start_regex, streams):
    text = strip_c_comments(iglib.read_src(rel))
    m = re.search(start_regex, text)
    if not m:
        raise ProtoError("start of the output section not found in " + rel)
    # up to the end of main: the last `return …;` of the file
    tail = text[m.start():]
    rets = list(re.finditer(r"\breturn\s*\(?\s*(\w+)\s*\)?\s*;", tail))
    if not rets:
        raise ProtoError("no return statement in " + rel)
    last = rets[-1]
    body = tail[:last.start()]
    ret = last.group(1)
    if ret == "status":
        returns_status = True
    elif ret == "0":
        returns_status = False
    else:
        raise ProtoError("unrecognised return expression: " + ret)
    stmts, _ = parse_block(body)
    ctx = Ctx(streams)
    # the declaration `int status = 0;` is the start marker
    stmts = [st for st in stmts if not (st[0] == "stmt" and re.match(r"^int\s+status\s*=\s*0$", st[1]))]
    return top_level(stmts, ctx), returns_status


def lean_simple(x):
    return ".%s %d" % (x[0] if x[0] != "open" else "open", x[1])


def lean_stmt(st):
    if st[0] == "s":
        return ".s (%s)" % lean_simple(st[1])
    return ".ifFailElse %d %s [%s]" % (st[1], "true" if st[2] else "false", ", ".join(lean_simple(x) for x in st[3]))


def render():
    lines = ["import IgVerif.Model.OutProto",
             "/-! REGENERATED on every run by tools/extract/c19_proto.py from interrogate.cxx / interrogate_module.cxx. -/",
             "namespace IgVerif.Gen", "open IgVerif.OP", ""]
    failed = None
    protos = {}
    for key, rel, start, streams in (
            ("interrogateProto", "src/interrogate/interrogate.cxx", r"int\s+status\s*=\s*0\s*;", {"output_code": 0, "output_data": 1, "output_text": 2}),
            ("moduleProto", "src/interrogate/interrogate_module.cxx", r"(?:int\s+status\s*=\s*0\s*;\s*)?// Now output the table\.|if\s*\(\s*!output_code_filename\.empty\(\)\s*\)", {"output_code": 0})):
        try:
            protos[key] = extract_main(rel, start, streams)
        except Exception as e:
            failed = (failed + " | " if failed else "") + "%s: %s: %s" % (key, type(e).__name__, e)
            protos[key] = ([], False)
    lines.append("def protoExtractionFailed : Bool := %s" % ("true" if failed else "false"))
    lines.append("def protoExtractionError : String := %s" % lean_str(failed or ""))
    for key, (body, rs) in protos.items():
        lines.append("def %s : Proto := { returnsStatus := %s, body := [" % (key, "true" if rs else "false"))
        lines.append(",\n".join("  " + lean_stmt(st) for st in body))
        lines.append("] }")
    lines += ["", "end IgVerif.Gen", ""]
    return "\n".join(lines), failed


def main():
    text, err = render()
    return write_if_changed(LEAN / "IgVerif" / "Gen" / "C19Proto.lean", text), err


if __name__ == "__main__":
    print(main())
