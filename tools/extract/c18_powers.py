"""Translator for C18: the cached powers-of-ten table of pdtoa.cxx -> lean/IgVerif/Gen/C18Powers.lean"""
import os
import re
import sys

sys.path.insert(0, os.path.dirname(os.path.dirname(os.path.abspath(__file__))))
import iglib
from iglib import strip_c_comments, lean_str, LEAN, write_if_changed


def extract():
    t = strip_c_comments(iglib.read_src("src/dtoolbase/pdtoa.cxx"))
    mf = re.search(r"kCachedPowers_F\[\]\s*=\s*\{(.*?)\};", t, re.S)
    me = re.search(r"kCachedPowers_E\[\]\s*=\s*\{(.*?)\};", t, re.S)
    if not mf or not me:
        raise RuntimeError("cached power tables not found")
    fs = [(int(a, 16) << 32) | int(b, 16) for a, b in re.findall(r"UINT64_C2\((0x[0-9a-fA-F]+),\s*(0x[0-9a-fA-F]+)\)", mf.group(1))]
    es = [int(x) for x in re.findall(r"-?\d+", me.group(1))]
    if len(fs) != len(es) or len(fs) < 80:
        raise RuntimeError("table sizes differ: %d vs %d" % (len(fs), len(es)))
    m0 = re.search(r"\*K\s*=\s*-\(\s*(-?\d+)\s*\+\s*static_cast<int>\(index\s*<<\s*3\)\)", t)
    if not m0:
        raise RuntimeError("decimal exponent formula not found")
    return fs, es, int(m0.group(1))


def render():
    lines = ["/-! REGENERATED on every run by tools/extract/c18_powers.py from pdtoa.cxx. -/", "namespace IgVerif.Gen", ""]
    failed = None
    try:
        fs, es, base = extract()
    except Exception as e:
        failed = "%s: %s" % (type(e).__name__, e)
        fs, es, base = [], [], 0
    lines.append("def c18ExtractionFailed : Bool := %s" % ("true" if failed else "false"))
    lines.append("def c18ExtractionError : String := %s" % lean_str(failed or ""))
    lines.append("/-- entry i is (f, e) with f·2^e ≈ 10^(powerBase + 8 i) -/")
    lines.append("def powerBase : Int := %d" % base)
    lines.append("def cachedPowers : List (Nat × Int) := [")
    lines.append(",\n".join("  (%d, %d)" % (f, e) for f, e in zip(fs, es)))
    lines.append("]")
    lines += ["", "end IgVerif.Gen", ""]
    return "\n".join(lines), failed


def main():
    text, err = render()
    return write_if_changed(LEAN / "IgVerif" / "Gen" / "C18Powers.lean", text), err


if __name__ == "__main__":
    print(main())
