"""Translator for C02: the pythonKeywords table and the get_type_sort ranks of interfaceMakerPythonNative.cxx
-> lean/IgVerif/Gen/C02Keywords.lean"""
import os
import re
import sys

sys.path.insert(0, os.path.dirname(os.path.dirname(os.path.abspath(__file__))))
import iglib
from iglib import strip_c_comments, lean_str, LEAN, write_if_changed


def extract():
    t = strip_c_comments(iglib.read_src("src/interrogate/interfaceMakerPythonNative.cxx"))
    m = re.search(r"const char \*pythonKeywords\[\]\s*=\s*\{(.*?)\};", t, re.S)
    if not m:
        raise RuntimeError("pythonKeywords[] not found")
    kws = re.findall(r'"([^"]*)"', m.group(1))
    if not re.search(r"nullptr\s*$", m.group(1).strip().rstrip(",")):
        raise RuntimeError("pythonKeywords[] is not nullptr-terminated")
    body = iglib.function_body(t, r"\nint get_type_sort\(CPPType \*type\)")
    if body is None:
        raise RuntimeError("get_type_sort not found")
    ranks = []
    for cond, val in re.findall(r"if \((.*?)\) \{\s*return (\d+);", body, re.S):
        c = re.sub(r"\s+", "", cond)
        name = {"TypeManager::is_string(type)": "string", "TypeManager::is_char_pointer(type)": "char_pointer", "TypeManager::is_unsigned_longlong(type)": "unsigned_longlong",
                "TypeManager::is_longlong(type)": "longlong", "TypeManager::is_integer(type)&&!TypeManager::is_bool(type)": "integer", "TypeManager::is_double(type)": "double",
                "TypeManager::is_float(type)": "float", "TypeManager::is_bool(type)": "bool"}.get(c)
        if name:
            ranks.append((name, int(val)))
    vals = [int(v) for v in re.findall(r"answer\s*=\s*(\d+);", body)]
    if vals:
        ranks.append(("class", max(vals)))
    return kws, ranks


def render():
    failed = None
    try:
        kws, ranks = extract()
    except Exception as e:
        failed = "%s: %s" % (type(e).__name__, e)
        kws, ranks = [], []
    lines = ["/-! REGENERATED on every run by tools/extract/c02_keywords.py from interfaceMakerPythonNative.cxx. -/", "namespace IgVerif.Gen", ""]
    lines.append("def c02ExtractionFailed : Bool := %s" % ("true" if failed else "false"))
    lines.append("def c02ExtractionError : String := %s" % lean_str(failed or ""))
    lines.append("/-- names that `checkKeyword` prefixes with `_` -/")
    lines.append("def c02PythonKeywords : List String := [%s]" % ", ".join(lean_str(k) for k in kws))
    lines.append("/-- `get_type_sort`: the rank that decides which overload is tried first -/")
    lines.append("def c02TypeRanks : List (String × Nat) := [%s]" % ", ".join("(%s, %d)" % (lean_str(n), v) for n, v in ranks))
    lines += ["", "end IgVerif.Gen", ""]
    return "\n".join(lines), failed


def main():
    text, err = render()
    return write_if_changed(LEAN / "IgVerif" / "Gen" / "C02Keywords.lean", text), err


if __name__ == "__main__":
    print(render()[0])
