"""Translator for C07: operator facts of the constant-expression machinery
 -> lean/IgVerif/Gen/C07Tables.lean

 * precedence/associativity declarations of cppBison.yxx (the %left/%right block)
 * for each of the three expression nonterminals, which operator token builds which CPPExpression operator
 * for each `case` of the operator switch in CPPExpression::evaluate(), the integer-branch return expression
"""
import os
import re
import sys

sys.path.insert(0, os.path.dirname(os.path.dirname(os.path.abspath(__file__))))
import iglib
from iglib import strip_c_comments, lean_str, LEAN, write_if_changed, function_body

YXX = "src/cppparser/cppBison.yxx"
EXPR = "src/cppparser/cppExpression.cxx"
OPS = ["'?'", "OROR", "ANDAND", "'|'", "'^'", "'&'", "EQCOMPARE", "NECOMPARE", "LECOMPARE", "GECOMPARE", "'<'", "'>'",
       "SPACESHIP", "LSHIFT", "RSHIFT", "'+'", "'-'", "'*'", "'/'", "'%'"]


def fnv(text):
    h = 14695981039346656037
    for c in text.encode():
        h = ((h ^ c) * 1099511628211) % (1 << 64)
    return h


def squeeze(t):
    return " ".join(t.split())


def extract():
    y = iglib.read_src(YXX)
    prec = []
    for m in re.finditer(r"^%(left|right|nonassoc)\s+(.*)$", y, re.M):
        toks = m.group(2).split()
        keep = [t for t in toks if t in OPS]
        if keep:
            prec.append((m.group(1), keep))
    prods = []
    for nt in ("const_expr", "no_angle_bracket_const_expr", "formal_const_expr"):
        m = re.search(r"^" + nt + r":\n(.*?)^\s*;\s*$", y, re.M | re.S)
        if not m:
            raise RuntimeError("nonterminal %s not found" % nt)
        body = m.group(1)
        for pm in re.finditer(r"\|\s*(\w+)\s+('.'|[A-Z]+)\s+(\w+)\s*\n\{\s*\$\$ = new CPPExpression\(([^,]+),\s*\$1,\s*\$3\);", body):
            if pm.group(2) in OPS:
                prods.append((nt, pm.group(1), pm.group(2), pm.group(3), pm.group(4).strip()))
        tm = re.search(r"\|\s*(\w+)\s+'\?'\s+(\w+)\s+':'\s+(\w+)\s*\n\{\s*\$\$ = new CPPExpression\('\?',\s*\$1,\s*\$3,\s*\$5\);", body)
        prods.append((nt, tm.group(1) if tm else "MISSING", "'?'", tm.group(3) if tm else "MISSING", "'?'" if tm else "MISSING"))
        for um in re.finditer(r"\|\s*('.')\s+(\w+)\s+%prec UNARY\s*\n\{\s*\$\$ = new CPPExpression\((\w+),\s*\$2\);", body):
            prods.append((nt, "-", "unary" + um.group(1), um.group(2), um.group(3)))
    e = strip_c_comments(iglib.read_src(EXPR))
    ev = function_body(e, r"CPPExpression::Result CPPExpression::\s*evaluate\(\)\s*const")
    sw = re.search(r"switch \(_u\._op\._operator\) \{", ev)
    if not sw:
        raise RuntimeError("operator switch not found in evaluate()")
    # end of that switch: the matching brace
    i = sw.end() - 1
    depth = 0
    j = i
    while True:
        if ev[j] == "{":
            depth += 1
        elif ev[j] == "}":
            depth -= 1
            if depth == 0:
                break
        j += 1
    swbody = ev[i + 1:j]
    cases = []
    # split on case labels at depth 0
    parts = re.split(r"\n    (?=case |default:)", "\n" + swbody)
    pending = []
    for part in parts:
        part = part.strip()
        if not part:
            continue
        m = re.match(r"^((?:case [^:]+:\s*|default:\s*)+)(.*)$", part, re.S)
        if not m:
            continue
        labels = re.findall(r"case ([^:]+):|default:", m.group(1))
        labels = [l if l else "default" for l in labels]
        code = squeeze(m.group(2))
        # the integer branch of `if (real) {return A;} else {return B;}`
        im = re.match(r"^if \(r1\._type == RT_real \|\| r2\._type == RT_real\) \{ return .*?; \} else \{ (.*) \}$", code)
        if im:
            code = im.group(1)
        for l in labels:
            cases.append((l.strip(), code))
    # `case A:` immediately followed by `case B:` shares B's code
    for k in range(len(cases) - 2, -1, -1):
        if cases[k][1] == "":
            cases[k] = (cases[k][0], cases[k + 1][1])
    return prec, prods, cases


def render():
    lines = ["/-! REGENERATED on every run by tools/extract/c07_tables.py from cppBison.yxx / cppExpression.cxx. -/",
             "namespace IgVerif.Gen", ""]
    failed = None
    try:
        prec, prods, cases = extract()
    except Exception as e:
        failed = "%s: %s" % (type(e).__name__, e)
        prec, prods, cases = [], [], []
    lines.append("def c07ExtractionFailed : Bool := %s" % ("true" if failed else "false"))
    lines.append("def c07ExtractionError : String := %s" % lean_str(failed or ""))
    lines.append("/-- %left / %right declarations, lowest precedence first, restricted to the expression operators -/")
    lines.append("def precTable : List (String × List String) := [")
    lines.append(",\n".join("  (%s, [%s])" % (lean_str(a), ", ".join(lean_str(t) for t in ts)) for a, ts in prec))
    lines.append("]")
    lines.append("/-- (nonterminal, left operand nonterminal, operator token, right operand nonterminal, operator handed to CPPExpression) -/")
    lines.append("def prodTable : List (String × String × String × String × String) := [")
    lines.append(",\n".join("  (%s, %s, %s, %s, %s)" % tuple(lean_str(x) for x in p) for p in prods))
    lines.append("]")
    lines.append("/-- (case label of the operator switch in evaluate(), integer-branch code, hash);: FNV-1a (64 bit) of the code text, so that the kernel compares numbers instead of long strings -/")
    lines.append("def evalTable : List (String × String × Nat) := [")
    lines.append(",\n".join("  (%s, %s, %d)" % (lean_str(a), lean_str(b), fnv(b)) for a, b in cases))
    lines.append("]")
    lines += ["", "end IgVerif.Gen", ""]
    return "\n".join(lines), failed


def main():
    text, err = render()
    return write_if_changed(LEAN / "IgVerif" / "Gen" / "C07Tables.lean", text), err


if __name__ == "__main__":
    print(main())
