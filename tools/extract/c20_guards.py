"""Translator: positional accessors of the query interface -> Gen/C20Guards.lean

For every function in src/interrogatedb/*.I and interrogateDatabase.cxx that
indexes a container with one of its own parameters (or, in get_fptr, with the
derived module_index), report whether the indexing expression sits inside
`if (idx >= 0 && idx < <bound>)`.  Also extracts the LT_* lookup-freshness bits.
"""
import os
import re
import sys

sys.path.insert(0, os.path.dirname(os.path.dirname(os.path.abspath(__file__))))
import iglib
from iglib import strip_c_comments, lean_str, LEAN, write_if_changed, REPO

DB = "src/interrogatedb/"


def functions(text):
    """yield (name, params, body) for each function definition `Ret Class::\\nname(params) ... {body}`"""
    for m in re.finditer(r"([\w:~]+)::\s*\n?\s*(\w+)\s*\(([^)]*)\)\s*(?:const)?\s*\{", text):
        i = m.end() - 1
        depth = 0
        j = i
        while j < len(text):
            if text[j] == "{":
                depth += 1
            elif text[j] == "}":
                depth -= 1
                if depth == 0:
                    break
            j += 1
        yield m.group(1) + "::" + m.group(2), m.group(3), text[i:j + 1]


def guarded(body, pos, idx):
    """is body[pos] inside a block opened by `if (idx >= 0 && idx < ...) {` ?"""
    best = None
    for m in re.finditer(r"if\s*\(([^{;]*)\)\s*\{", body[:pos]):
        cond = m.group(1)
        if re.search(r"\b" + idx + r"\s*>=\s*0\b", cond) and re.search(r"\b" + idx + r"\s*<\s*[\w(]", cond) and "||" not in cond:
            # block still open at pos?
            depth = 0
            for ch in body[m.end() - 1:pos]:
                if ch == "{":
                    depth += 1
                elif ch == "}":
                    depth -= 1
            if depth > 0:
                best = cond
    return best is not None


def extract():
    rows = []
    files = sorted(p.name for p in (REPO / DB).glob("interrogate*.I")) + ["interrogateDatabase.cxx"]
    for fn in files:
        text = strip_c_comments(iglib.read_src(DB + fn))
        for name, params, body in functions(text):
            pnames = set(re.findall(r"\b(\w+)\s*(?:,|$)", params.replace("&", " ").replace("*", " ")))
            extra = {"module_index"} if name.endswith("::get_fptr") else set()
            for m in re.finditer(r"([\w>\-]+)\s*\[\s*(\w+)\s*\]", body):
                vec, idx = m.group(1), m.group(2)
                if idx.isdigit():
                    continue
                if idx not in pnames and idx not in extra:
                    continue
                if re.match(r"^(char|int|new)$", vec):
                    continue
                if vec.endswith("_map"):
                    continue  # std::map::operator[] is total (it inserts); only vectors/arrays need a range guard
                rows.append((fn, name, vec, idx, guarded(body, m.start(), idx)))
    h = strip_c_comments(iglib.read_src(DB + "interrogateDatabase.h"))
    bits = [(m.group(1), int(m.group(2), 0)) for m in re.finditer(r"\b(LT_\w+)\s*=\s*(0x[0-9a-fA-F]+|\d+)", h)]
    if len(rows) < 20 or len(bits) < 6:
        raise RuntimeError("too few accessors/bits found (%d, %d): the source layout changed" % (len(rows), len(bits)))
    return rows, bits


def render():
    lines = ["/-! REGENERATED on every run by tools/extract/c20_guards.py from /repo/src/interrogatedb. -/",
             "namespace IgVerif.Gen", ""]
    failed = None
    try:
        rows, bits = extract()
    except Exception as e:
        failed = "%s: %s" % (type(e).__name__, e)
        rows, bits = [], []
    lines.append("def guardExtractionFailed : Bool := %s" % ("true" if failed else "false"))
    lines.append("def guardExtractionError : String := %s" % lean_str(failed or ""))
    lines.append("/-- (file, function, container, index variable, indexing is inside `if (i >= 0 && i < bound)`) -/")
    lines.append("def accessors : List (String × String × String × String × Bool) := [")
    lines.append(",\n".join("  (%s, %s, %s, %s, %s)" % (lean_str(a), lean_str(b), lean_str(c), lean_str(d), "true" if e else "false") for a, b, c, d, e in rows))
    lines.append("]")
    lines.append("def lookupBits : List (String × Nat) := [%s]" % ", ".join("(%s, %d)" % (lean_str(a), b) for a, b in bits))
    lines += ["", "end IgVerif.Gen", ""]
    return "\n".join(lines), failed


def main():
    text, err = render()
    return write_if_changed(LEAN / "IgVerif" / "Gen" / "C20Guards.lean", text), err


if __name__ == "__main__":
    print(main())
