"""Translator for C09: which directive names process_directive() and skip_false_if_block()
recognise, under which guard, and what they do -> lean/IgVerif/Gen/C09Cmds.lean"""
import os
import re
import sys

sys.path.insert(0, os.path.dirname(os.path.dirname(os.path.abspath(__file__))))
import iglib
from iglib import strip_c_comments, lean_str, LEAN, write_if_changed, function_body

SRC = "src/cppparser/cppPreprocessor.cxx"


def squeeze(t):
    return " ".join(t.split())


def chain(body, start_pat):
    """parse an `if (command == "x" || …) { A } else if … { B } else { C }` chain -> [(names, block_text)]"""
    m = re.search(start_pat, body)
    if not m:
        raise RuntimeError("dispatch chain not found")
    i = m.start()
    out = []
    while True:
        mm = re.match(r"(?:else\s+)?if\s*\(((?:command\s*==\s*\"\w+\"\s*(?:\|\|\s*)?)+)\)\s*\{", body[i:])
        if not mm:
            break
        names = re.findall(r'"(\w+)"', mm.group(1))
        j = i + mm.end() - 1
        depth = 0
        k = j
        while True:
            if body[k] == "{":
                depth += 1
            elif body[k] == "}":
                depth -= 1
                if depth == 0:
                    break
            k += 1
        out.append((names, squeeze(body[j + 1:k])))
        i = k + 1
        while body[i].isspace():
            i += 1
        if body.startswith("else", i) and not re.match(r"else\s+if", body[i:]):
            break
    return out


def extract():
    t = strip_c_comments(iglib.read_src(SRC))
    pd = function_body(t, r"CPPPreprocessor::\s*process_directive\(int c\)")
    sk = function_body(t, r"CPPPreprocessor::\s*skip_false_if_block\(bool consider_elifs\)")
    hi = function_body(t, r"CPPPreprocessor::\s*handle_if_directive\(")
    hd = function_body(t, r"CPPPreprocessor::\s*handle_ifdef_directive\(")
    hn = function_body(t, r"CPPPreprocessor::\s*handle_ifndef_directive\(")
    if None in (pd, sk, hi, hd, hn):
        raise RuntimeError("a directive handler was not found")
    active = []
    for names, code in chain(pd, r'if\s*\(command\s*==\s*"define"\)'):
        for n in names:
            active.append((n, code))
    skip = []
    for names, code in chain(sk, r'if\s*\(command\s*==\s*"if"'):
        for n in names:
            skip.append((n, code))
    handlers = [("handle_ifdef_directive", squeeze(hd[1:-1])), ("handle_ifndef_directive", squeeze(hn[1:-1])),
                ("handle_if_directive.tail", squeeze(hi[hi.index("if (expression_result)"):-1]))]
    init = squeeze(sk[1:sk.index("while")])
    return active, skip, handlers, init


def render():
    lines = ["/-! REGENERATED on every run by tools/extract/c09_cmds.py from cppPreprocessor.cxx. -/", "namespace IgVerif.Gen", ""]
    failed = None
    try:
        active, skip, handlers, init = extract()
    except Exception as e:
        failed = "%s: %s" % (type(e).__name__, e)
        active, skip, handlers, init = [], [], [], ""
    lines.append("def c09ExtractionFailed : Bool := %s" % ("true" if failed else "false"))
    lines.append("def c09ExtractionError : String := %s" % lean_str(failed or ""))
    lines.append("/-- directive name -> what process_directive() does with it (code of the branch) -/")
    lines.append("def activeTable : List (String × String) := [")
    lines.append(",\n".join("  (%s, %s)" % (lean_str(a), lean_str(b)) for a, b in active if a in
                             ("ifdef", "ifndef", "if", "else", "elif", "elifdef", "elifndef", "endif")))
    lines.append("]")
    lines.append("/-- directive name -> what skip_false_if_block() does with it -/")
    lines.append("def skipTable : List (String × String) := [")
    lines.append(",\n".join("  (%s, %s)" % (lean_str(a), lean_str(b)) for a, b in skip))
    lines.append("]")
    lines.append("def handlerTable : List (String × String) := [")
    lines.append(",\n".join("  (%s, %s)" % (lean_str(a), lean_str(b)) for a, b in handlers))
    lines.append("]")
    lines.append("def skipInit : String := %s" % lean_str(init))
    lines += ["", "end IgVerif.Gen", ""]
    return "\n".join(lines), failed


def main():
    text, err = render()
    return write_if_changed(LEAN / "IgVerif" / "Gen" / "C09Cmds.lean", text), err


if __name__ == "__main__":
    print(main())
