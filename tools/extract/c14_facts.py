"""Translator for C14: the tie-break of RemapCompareLess and the SOURCE_DATE_EPOCH branch of interrogate.cxx
-> lean/IgVerif/Gen/C14Facts.lean"""
import os
import re
import sys

sys.path.insert(0, os.path.dirname(os.path.dirname(os.path.abspath(__file__))))
import iglib
from iglib import strip_c_comments, lean_str, LEAN, write_if_changed


def extract():
    t = strip_c_comments(iglib.read_src("src/interrogate/interfaceMakerPythonNative.cxx"))
    body = iglib.function_body(t, "RemapCompareLess")
    if body is None:
        raise RuntimeError("RemapCompareLess not found")
    rets = re.findall(r"return\s+([^;]+);", body)
    if not rets:
        raise RuntimeError("no return in RemapCompareLess")
    last = re.sub(r"\s+", "", rets[-1])
    tie = bool(re.fullmatch(r"in1->_function_signature<in2->_function_signature", last))
    steps = ["const" if "_const_method" in r else "arity" if "_parameters.size()" in r else "rank" if "pd1" in r else "sig" if "_function_signature" in r else "other:" + re.sub(r"\s+", "", r)
             for r in rets]
    m = strip_c_comments(iglib.read_src("src/interrogate/interrogate.cxx"))
    i = m.find('getenv("SOURCE_DATE_EPOCH")')
    if i < 0:
        raise RuntimeError("getenv(\"SOURCE_DATE_EPOCH\") not found")
    seg = re.sub(r"\s+", "", m[i:i + 400])
    mm = re.match(r'getenv\("SOURCE_DATE_EPOCH"\);if\((\w+)!=nullptr&&\1\[0\]!=0\)\{#endiffile_identifier=atoi\(\1\);\}else\{file_identifier=time\(nullptr\);\}', seg)
    shape = "nonempty->atoi|else->time" if mm else "other:" + seg[:160]
    uses = len(re.findall(r"\bfile_identifier\b", m))
    return tie, steps, shape, uses


def render():
    failed = None
    try:
        tie, steps, shape, uses = extract()
    except Exception as e:
        failed = "%s: %s" % (type(e).__name__, e)
        tie, steps, shape, uses = False, [], "", 0
    lines = ["/-! REGENERATED on every run by tools/extract/c14_facts.py from interfaceMakerPythonNative.cxx and interrogate.cxx. -/", "namespace IgVerif.Gen", ""]
    lines.append("def c14ExtractionFailed : Bool := %s" % ("true" if failed else "false"))
    lines.append("def c14ExtractionError : String := %s" % lean_str(failed or ""))
    lines.append("/-- the last `return` of RemapCompareLess compares the signatures -/")
    lines.append("def c14TieBreakBySignature : Bool := %s" % ("true" if tie else "false"))
    lines.append("/-- what each `return` of RemapCompareLess compares, in order -/")
    lines.append("def c14CompareSteps : List String := [%s]" % ", ".join(lean_str(s) for s in steps))
    lines.append("/-- shape of the SOURCE_DATE_EPOCH branch -/")
    lines.append("def c14EpochShape : String := %s" % lean_str(shape))
    lines += ["", "end IgVerif.Gen", ""]
    return "\n".join(lines), failed


def main():
    text, err = render()
    return write_if_changed(LEAN / "IgVerif" / "Gen" / "C14Facts.lean", text), err


if __name__ == "__main__":
    print(main())
