"""Translator: src/interrogatedb record classes -> lean/IgVerif/Gen/DbSchema.lean

For each of the six record classes (and InterrogateComponent and the three
nested sub-record classes) it reads, from the *current* source:
  * the data members and their C++ types        (.h)
  * the field sequence written by output()      (.cxx)   incl. separators, `if (is_array())`
  * the field sequence read by input()          (.cxx)   incl. minor-version gates
  * the members assigned by operator=           (.cxx/.I)
  * the members passed through remap.map_from() (.cxx)
  * flag predicates `is_x() { return (_flags & F_x) != 0; }` and enum values
and prints them as Lean data.  Anything it cannot parse becomes
`extractionFailed := true` (which fails an obligation; never silence).
"""
import re
import sys
import os

sys.path.insert(0, os.path.dirname(os.path.dirname(os.path.abspath(__file__))))
import iglib
from iglib import strip_c_comments, function_body, lean_str, LEAN, write_if_changed


def read_src(rel):
    return iglib.read_src(rel)

DB = "src/interrogatedb/"

CLASSES = {
    "function": ("InterrogateFunction", "interrogateFunction"),
    "wrapper": ("InterrogateFunctionWrapper", "interrogateFunctionWrapper"),
    "type": ("InterrogateType", "interrogateType"),
    "manifest": ("InterrogateManifest", "interrogateManifest"),
    "element": ("InterrogateElement", "interrogateElement"),
    "makeSeq": ("InterrogateMakeSeq", "interrogateMakeSeq"),
}
INDEX_KINDS = {"TypeIndex": "type", "FunctionIndex": "function", "FunctionWrapperIndex": "wrapper",
               "ManifestIndex": "manifest", "ElementIndex": "element", "MakeSeqIndex": "makeSeq"}


class ExtractError(Exception):
    pass


def c_char_bytes(lit):
    """'\\n' or " " literal -> list of byte values"""
    body = lit[1:-1]
    out = []
    i = 0
    esc = {"n": 10, "t": 9, "r": 13, "0": 0, "\\": 92, "'": 39, '"': 34, "v": 11, "f": 12}
    while i < len(body):
        if body[i] == "\\":
            out.append(esc[body[i + 1]])
            i += 2
        else:
            out.append(ord(body[i]))
            i += 1
    return out


def split_statements(body):
    """Very small statement splitter for the output()/input() bodies: returns a
    list of ('stmt', text) | ('if', cond, [stmts]) | ('for', head, [stmts])."""
    body = body.strip()
    assert body[0] == "{" and body[-1] == "}"
    s = body[1:-1]
    out = []
    i = 0
    n = len(s)
    while i < n:
        while i < n and s[i].isspace():
            i += 1
        if i >= n:
            break
        m = re.match(r"(if|for|while)\s*\(", s[i:])
        if m:
            kw = m.group(1)
            j = i + m.end() - 1
            depth = 0
            k = j
            while True:
                if s[k] == "(":
                    depth += 1
                elif s[k] == ")":
                    depth -= 1
                    if depth == 0:
                        break
                k += 1
            cond = s[j + 1:k].strip()
            k += 1
            while s[k].isspace():
                k += 1
            if s[k] != "{":
                raise ExtractError("unbraced %s" % kw)
            depth = 0
            e = k
            while True:
                if s[e] == "{":
                    depth += 1
                elif s[e] == "}":
                    depth -= 1
                    if depth == 0:
                        break
                e += 1
            inner = split_statements(s[k:e + 1])
            out.append((kw, cond, inner))
            i = e + 1
            # else branches are not expected
            m2 = re.match(r"\s*else\b", s[i:])
            if m2:
                raise ExtractError("unexpected else")
        else:
            j = s.find(";", i)
            if j < 0:
                raise ExtractError("unterminated statement: " + s[i:i + 40])
            out.append(("stmt", s[i:j].strip()))
            i = j + 1
    return out


def member_name(expr):
    expr = expr.strip()
    m = re.match(r"^\(\s*[A-Za-z_:]+\s*\)\s*(\w+)$", expr)
    if m:
        return m.group(1)
    m = re.match(r"^(\w+)$", expr)
    if m:
        return m.group(1)
    raise ExtractError("not a plain member: " + expr)


def split_shift(text, op):
    """split `out << a << " " << b` on top-level op, respecting string/char literals"""
    parts = []
    cur = ""
    i = 0
    while i < len(text):
        c = text[i]
        if c in "\"'":
            j = i + 1
            while text[j] != c:
                if text[j] == "\\":
                    j += 1
                j += 1
            cur += text[i:j + 1]
            i = j + 1
        elif text.startswith(op, i):
            parts.append(cur.strip())
            cur = ""
            i += len(op)
        else:
            cur += c
            i += 1
    parts.append(cur.strip())
    return parts


class ClassInfo:
    pass


def parse_members(hdr_text, cls, nested=None):
    """members (name -> ctype) and vector typedefs of a class body"""
    t = strip_c_comments(hdr_text)
    if nested:
        body = function_body(t, r"class\s+" + nested + r"\s*\{")
    else:
        body = function_body(t, r"class\s+(?:EXPCL_\w+\s+)?" + cls + r"\b[^;{]*\{")
    if body is None:
        raise ExtractError("class %s/%s not found" % (cls, nested))
    if not nested:
        # drop nested class bodies
        body2 = ""
        i = 1
        depth = 0
        for ch in body[1:-1]:
            if ch == "{":
                depth += 1
            elif ch == "}":
                depth -= 1
            elif depth == 0:
                body2 += ch
        scan = body2
    else:
        scan = body[1:-1]
    typedefs = dict((m.group(2), m.group(1).strip()) for m in re.finditer(r"typedef\s+std::vector<\s*([\w:]+)\s*>\s+(\w+)\s*;", body))
    members = {}
    for m in re.finditer(r"^\s*(?:static\s+)?([\w:]+(?:\s*\*)?)\s+(_\w+)\s*;", scan, re.M):
        if "static" in m.group(0):
            continue
        members[m.group(2)] = m.group(1).strip()
    return members, typedefs


def flag_predicates(i_text, h_text, cls):
    """is_x() -> (flagmember, mask) from the .I file + enum values from the .h"""
    enums = {}
    for m in re.finditer(r"\b([A-Z]+F?_\w+)\s*=\s*(0x[0-9a-fA-F]+|\d+)", strip_c_comments(h_text)):
        enums[m.group(1)] = int(m.group(2), 0)
    preds = {}
    for m in re.finditer(cls + r"::\s*(\w+)\(\)\s*const\s*\{\s*return\s*\(\s*(\w+)\s*&\s*(\w+)\s*\)\s*!=\s*0\s*;\s*\}", strip_c_comments(i_text)):
        if m.group(3) in enums:
            preds[m.group(1)] = (m.group(2), enums[m.group(3)])
    return preds, enums


def ctor_defaults(cxx_text, cls):
    body = function_body(strip_c_comments(cxx_text), cls + r"::\s*" + cls + r"\s*\(\s*InterrogateModuleDef[^)]*\)[^{]*\{")
    d = {}
    if body:
        for m in re.finditer(r"(_\w+)\s*=\s*(-?\d+)\s*;", body):
            d[m.group(1)] = int(m.group(2))
    return d


def classify_vector(ci, name):
    ty = ci.members.get(name)
    if ty is None:
        raise ExtractError("unknown member " + name)
    elem = ci.typedefs.get(ty)
    if elem is None:
        raise ExtractError("member %s is not a typedef'd vector (%s)" % (name, ty))
    if elem == "int" or elem in INDEX_KINDS:
        return ("ints", elem)
    return ("recs", elem)


def parse_output(stmts, ci, sub=False):
    """-> list of field tuples (output view)"""
    fields = []
    i = 0
    while i < len(stmts):
        st = stmts[i]
        if st[0] == "stmt":
            t = st[1]
            if re.match(r"InterrogateComponent::output\(out\)$", t):
                fields += ci.component_out
            elif t.startswith("out <<") or t.startswith("out<<"):
                parts = split_shift(t, "<<")[1:]
                k = 0
                while k < len(parts):
                    p = parts[k]
                    if p[0] in "\"'":
                        raise ExtractError("separator without value in: " + t)
                    sep = []
                    if k + 1 < len(parts) and parts[k + 1][0] in "\"'":
                        sep = c_char_bytes(parts[k + 1])
                        k += 1
                    msize = re.match(r"^(_\w+)\.size\(\)$", p)
                    if msize:
                        # `out << v.size() << " "` followed by a for loop of idf_output_string
                        nxt = stmts[i + 1] if i + 1 < len(stmts) else None
                        nxt2 = stmts[i + 2] if i + 2 < len(stmts) else None
                        loop = None
                        for cand in (nxt, nxt2):
                            if cand and cand[0] == "for":
                                loop = cand
                        if not loop or sep != [32]:
                            raise ExtractError("size() output without string loop")
                        inner = [x for x in loop[2] if x[0] == "stmt"]
                        if len(inner) != 1 or not re.match(r"idf_output_string\(out,\s*\*?\w+\)$", inner[0][1]):
                            raise ExtractError("unexpected loop body after size()")
                        fields.append(("strs", msize.group(1)))
                        # skip declaration stmt (iterator) and the loop
                        i = stmts.index(loop)
                    else:
                        fields.append(("int", member_name(p), sep))
                    k += 1
            elif t.startswith("idf_output_string"):
                m = re.match(r"idf_output_string\(out,\s*(\w+)\s*(?:,\s*('(?:\\.|[^'])'))?\)$", t)
                if not m:
                    raise ExtractError("idf_output_string form: " + t)
                ws = c_char_bytes(m.group(2))[0] if m.group(2) else 32
                fields.append(("str", m.group(1), ws))
            elif t.startswith("idf_output_vector"):
                m = re.match(r"idf_output_vector\(out,\s*(\w+)\)$", t)
                kind, elem = classify_vector(ci, m.group(1))
                if kind == "ints":
                    fields.append(("ints", m.group(1)))
                else:
                    fields.append(("recs", m.group(1), ci.subs[elem].out))
            elif re.match(r"(Strings|[\w:]+)::const_iterator\s+\w+$", t) or re.match(r"typename ", t):
                pass
            else:
                raise ExtractError("unrecognised output statement: " + t)
        elif st[0] == "if":
            m = re.match(r"^(\w+)\(\)$", st[1])
            if not m or m.group(1) not in ci.preds:
                raise ExtractError("unrecognised output condition: " + st[1])
            flag, mask = ci.preds[m.group(1)]
            inner = parse_output(st[2], ci)
            for f in inner:
                if f[0] != "int":
                    raise ExtractError("only ints supported under if")
                fields.append(("intIf", f[1], flag, mask, ci.defaults.get(f[1], 0), f[2]))
        elif st[0] == "for":
            raise ExtractError("unexpected loop in output")
        i += 1
    return fields


UNGUARDED = []     # local counts read from the stream without initialiser and without a check of the stream state


def parse_input(stmts, ci, since=None):
    fields = []
    locals_ = {}
    i = 0
    pending_local = {}
    uninit = set()
    while i < len(stmts):
        st = stmts[i]
        if st[0] == "stmt":
            t = st[1]
            md = re.match(r"int\s+(\w+)$", t)
            if md:
                uninit.add(md.group(1))
            if t.startswith("in >>") or t.startswith("in>>"):
                nxt = stmts[i + 1] if i + 1 < len(stmts) else None
                checked = bool(nxt) and nxt[0] == "if" and re.match(r"^in\.fail\(\)$", nxt[1]) is not None
                for p0 in split_shift(t, ">>")[1:]:
                    # a local that later drives a loop / reserve(): it must hold a value even when the stream has already failed
                    if p0.strip() in uninit and not checked and any(re.search(r"\b%s\b" % re.escape(p0.strip()), (x[1] if x[0] != "for" else x[1])) and (x[0] == "for" or "reserve" in x[1])
                                                                      for x in stmts[i + 1:]):
                        UNGUARDED.append("%s: %s" % (getattr(ci, "cls", "InterrogateComponent"), p0.strip()))
            if re.match(r"InterrogateComponent::input\(in\)$", t):
                fields += ci.component_in
            elif re.match(r"int\s+\w+(\s*=\s*0)?$", t) or re.match(r"std::string\s+\w+$", t):
                pass
            elif t.startswith("in >>") or t.startswith("in>>"):
                for p in split_shift(t, ">>")[1:]:
                    nm = p.strip()
                    if re.match(r"^_\w+$", nm):
                        fields.append(("intSince", nm, since) if since is not None else ("int", nm))
                    else:
                        # local variable: resolved by a later `_member = (T)local;` or vector count
                        fields.append(("local", nm))
            elif re.match(r"(_\w+)\s*=\s*\([\w:]+\)\s*(\w+)$", t):
                m = re.match(r"(_\w+)\s*=\s*\([\w:]+\)\s*(\w+)$", t)
                for k, f in enumerate(fields):
                    if f == ("local", m.group(2)):
                        fields[k] = ("int", m.group(1))
            elif re.match(r"(_\w+)\.reserve\((\w+)\)$", t):
                m = re.match(r"(_\w+)\.reserve\((\w+)\)$", t)
                # count local followed by loop of idf_input_string + push_back
                loop = stmts[i + 1] if i + 1 < len(stmts) else None
                if not loop or loop[0] != "for":
                    raise ExtractError("reserve without loop")
                body = [x[1] for x in loop[2] if x[0] == "stmt"]
                ok = any(re.match(r"idf_input_string\(in,\s*\w+\)$", b) for b in body) and \
                    any(re.match(m.group(1) + r"\.push_back\(\w+\)$", b) for b in body)
                hm = re.match(r"int\s+(\w+)\s*=\s*0\s*;\s*\1\s*<\s*" + m.group(2) + r"\s*;\s*\+\+\1$", loop[1])
                if not ok or not hm:
                    raise ExtractError("unexpected alt-name loop: " + loop[1])
                for k, f in enumerate(fields):
                    if f == ("local", m.group(2)):
                        fields[k] = ("strs", m.group(1))
                i += 1
            elif t.startswith("idf_input_string"):
                m = re.match(r"idf_input_string\(in,\s*(\w+)\)$", t)
                fields.append(("str", m.group(1)))
            elif t.startswith("idf_input_vector"):
                m = re.match(r"idf_input_vector\(in,\s*(\w+)\)$", t)
                kind, elem = classify_vector(ci, m.group(1))
                if kind == "ints":
                    fields.append(("ints", m.group(1)))
                else:
                    fields.append(("recs", m.group(1), ci.subs[elem].inp))
            else:
                raise ExtractError("unrecognised input statement: " + t)
        elif st[0] == "if":
            mv = re.match(r"^InterrogateDatabase::get_file_minor_version\(\)\s*>=\s*(\d+)$", st[1])
            mp = re.match(r"^(\w+)\(\)$", st[1])
            if re.match(r"^in\.fail\(\)$", st[1]) and all(x[0] == "stmt" and x[1] == "return" for x in st[2]):
                pass          # `if (in.fail()) return;` after a count: a failed stream ends the record, the layout is unchanged
            elif mv:
                fields += parse_input(st[2], ci, since=int(mv.group(1)))
            elif mp and mp.group(1) in ci.preds:
                flag, mask = ci.preds[mp.group(1)]
                for f in parse_input(st[2], ci):
                    if f[0] != "int":
                        raise ExtractError("only ints supported under if")
                    fields.append(("intIf", f[1], flag, mask, ci.defaults.get(f[1], 0)))
            else:
                raise ExtractError("unrecognised input condition: " + st[1])
        else:
            raise ExtractError("unexpected loop in input")
        i += 1
    for f in fields:
        if f[0] == "local":
            raise ExtractError("unresolved local " + f[1])
    return fields


def parse_assigned(body):
    """members assigned from copy in operator= (and base call)"""
    names = set()
    base = False
    for m in re.finditer(r"(_\w+)\s*=\s*copy\.\1\s*;", body):
        names.add(m.group(1))
    if re.search(r"InterrogateComponent::operator\s*=\s*\(copy\)", body):
        base = True
    return names, base


def parse_ctor_init(text, cls):
    """members in the copy constructor's initialiser list"""
    m = re.search(cls + r"::\s*" + cls + r"\s*\(const\s+" + cls + r"\s*&copy\)\s*:(.*?)\{", text, re.S)
    names = set()
    if m:
        for mm in re.finditer(r"(_\w+)\(copy\.\1\)", m.group(1)):
            names.add(mm.group(1))
    return names


def parse_remap(body):
    """members remapped in remap_indices: scalars, vectors (loop over iterator), sub-record fields"""
    scal = []
    for m in re.finditer(r"(?<![.\w\)])(_\w+)\s*=\s*remap\.map_from\(\1\)", body):
        scal.append(m.group(1))
    vecs = []
    subs = []
    # for (it = _v.begin(); it != _v.end(); ++it) { (*it) = remap.map_from(*it); }   or   (*it)._f = remap.map_from((*it)._f)
    for m in re.finditer(r"for\s*\(\s*(\w+)\s*=\s*(_\w+)\.begin\(\)\s*;[^{]*\{(.*?)\}", body, re.S):
        it, vec, inner = m.group(1), m.group(2), m.group(3)
        if re.search(r"\(\*" + it + r"\)\s*=\s*remap\.map_from\(\*" + it + r"\)", inner):
            vecs.append(vec)
        for mm in re.finditer(r"\(\*" + it + r"\)\.(_\w+)\s*=\s*remap\.map_from\(\(\*" + it + r"\)\.\1\)", inner):
            subs.append((vec, mm.group(1)))
    # range-based for BY REFERENCE: for (T &x : _v) { x = remap.map_from(x); }   (by value does not remap anything)
    for m in re.finditer(r"for\s*\(\s*[\w:]+\s*&\s*(\w+)\s*:\s*(_\w+)\s*\)\s*\{(.*?)\}", body, re.S):
        it, vec, inner = m.group(1), m.group(2), m.group(3)
        if re.search(r"\b" + it + r"\s*=\s*remap\.map_from\(" + it + r"\)", inner):
            vecs.append(vec)
        for mm in re.finditer(r"\b" + it + r"\.(_\w+)\s*=\s*remap\.map_from\(" + it + r"\.\1\)", inner):
            subs.append((vec, mm.group(1)))
    return scal, vecs, subs


def extract():
    comp_h = read_src(DB + "interrogateComponent.h")
    comp_i = read_src(DB + "interrogateComponent.I")
    comp_c = read_src(DB + "interrogateComponent.cxx")
    comp = ClassInfo()
    comp.members, comp.typedefs = parse_members(comp_h, "InterrogateComponent")
    comp.preds, comp.defaults, comp.subs = {}, {}, {}
    comp.component_out = comp.component_in = []
    cc = strip_c_comments(comp_c)
    comp.out = parse_output(split_statements(function_body(cc, r"InterrogateComponent::\s*output\(")), comp)
    comp.inp = parse_input(split_statements(function_body(cc, r"InterrogateComponent::\s*input\(")), comp)
    ci_text = strip_c_comments(comp_i)
    comp_assign, _ = parse_assigned(function_body(ci_text, r"InterrogateComponent::\s*operator\s*=\s*\("))
    comp_ctor = parse_ctor_init(ci_text, "InterrogateComponent")
    # members that are part of the serialised state (written by output())
    res = {"component": comp, "component_assign": sorted(comp_assign), "component_copyctor": sorted(comp_ctor)}
    infos = {}
    for kind, (cls, stem) in CLASSES.items():
        h = read_src(DB + stem + ".h")
        itxt = read_src(DB + stem + ".I")
        c = read_src(DB + stem + ".cxx")
        ci = ClassInfo()
        ci.cls = cls
        ci.members, ci.typedefs = parse_members(h, cls)
        ci.preds, ci.enums = flag_predicates(itxt, h, cls)
        ci.defaults = ctor_defaults(c, cls)
        ci.component_out, ci.component_in = comp.out, comp.inp
        ci.subs = {}
        cs = strip_c_comments(c)
        for sub in set(ci.typedefs.values()):
            if sub == "int" or sub in INDEX_KINDS:
                continue
            si = ClassInfo()
            si.members, si.typedefs = parse_members(h, cls, nested=sub)
            si.preds, si.defaults, si.subs = {}, {}, {}
            si.component_out = si.component_in = []
            ob = function_body(cs, cls + r"::" + sub + r"::\s*output\(")
            ib = function_body(cs, cls + r"::" + sub + r"::\s*input\(")
            if ob is None or ib is None:
                raise ExtractError("no output/input for %s::%s" % (cls, sub))
            si.out = parse_output(split_statements(ob), si, sub=True)
            si.inp = parse_input(split_statements(ib), si)
            ci.subs[sub] = si
        ob = function_body(cs, cls + r"::\s*output\(")
        ib = function_body(cs, cls + r"::\s*input\(")
        ci.out = parse_output(split_statements(ob), ci)
        ci.inp = parse_input(split_statements(ib), ci)
        ab = function_body(cs, cls + r"::\s*operator\s*=\s*\(") or function_body(strip_c_comments(itxt), cls + r"::\s*operator\s*=\s*\(")
        if ab is None:
            # implicit copy: every member is copied
            ci.assigned, ci.assign_base = set(ci.members), True
        else:
            ci.assigned, ci.assign_base = parse_assigned(ab)
        rb = function_body(cs, cls + r"::\s*remap_indices\(")
        ci.remap = parse_remap(rb)
        infos[kind] = ci
    res["classes"] = infos
    return res


# ---------------------------------------------------------------------------
# Lean rendering
# ---------------------------------------------------------------------------

def lean_bytes(bs):
    return "[" + ", ".join(str(b) for b in bs) + "]"


def lean_atom(f, view):
    if f[0] == "int":
        sep = f[2] if view == "out" else []
        return '.int %s %s' % (lean_str(f[1]), lean_bytes(sep))
    if f[0] == "str":
        ws = f[2] if view == "out" else 32
        return '.str %s %d' % (lean_str(f[1]), ws)
    raise ExtractError("sub-record field kind %s" % f[0])


def lean_field(f, view):
    k = f[0]
    if k in ("int", "str"):
        return ".atom (%s)" % lean_atom(f, view)
    if k == "ints":
        return ".ints %s" % lean_str(f[1])
    if k == "strs":
        return ".strs %s" % lean_str(f[1])
    if k == "recs":
        return ".recs %s [%s]" % (lean_str(f[1]), ", ".join(lean_atom(a, view) for a in f[2]))
    if k == "intIf":
        sep = f[5] if view == "out" else []
        return ".intIf %s %s %d (%d) %s" % (lean_str(f[1]), lean_str(f[2]), f[3], f[4], lean_bytes(sep))
    if k == "intSince":
        return ".intSince %s %d []" % (lean_str(f[1]), f[2])
    raise ExtractError("field kind " + k)


def render():
    lines = ["import IgVerif.Model.DbFile",
             "/-! REGENERATED on every run by tools/extract/dbschema.py from /repo/src/interrogatedb.",
             "Do not edit: the committed copy is what the pinned tree yields. -/",
             "namespace IgVerif.Gen", "open IgVerif", ""]
    failed = None
    del UNGUARDED[:]
    try:
        r = extract()
    except Exception as e:  # extraction failure is a reported break, never silence
        failed = "%s: %s" % (type(e).__name__, e)
        # keep the models runnable on the layout of /repo's HEAD so that the search for a failing input can proceed
        iglib.PINNED = True
        try:
            r = extract()
        finally:
            iglib.PINNED = False
    lines += ["/-- counts that input() reads into an uninitialised local and uses (loop bound, reserve) without looking at the stream state -/",
              "def unguardedCounts : List String := [%s]" % ", ".join(lean_str(u) for u in sorted(set(UNGUARDED))), ""]
    lines += ["def dbSchemaExtractionFailed : Bool := %s" % ("true" if failed else "false"),
              "def dbSchemaExtractionError : String := %s" % lean_str(failed or ""), ""]
    for view, attr in (("out", "out"), ("in", "inp")):
        for kind, ci in r["classes"].items():
            fs = getattr(ci, attr)
            lines.append("def %s_%s : List Field := [" % (view, kind))
            lines.append(",\n".join("  " + lean_field(f, view) for f in fs))
            lines.append("]")
        lines.append("def %sSchema : Schema := ⟨%s⟩" % (view, ", ".join("%s_%s" % (view, k) for k in CLASSES)))
        lines.append("")
    # index-typed members per class, with target kind; sub-record members as vec.field
    idx = []
    remap = []
    ser = []
    cop = []
    comp = r["component"]
    comp_ser = [f[1] for f in comp.out]
    for kind, ci in r["classes"].items():
        im = []
        for name, ty in sorted(ci.members.items()):
            if ty in INDEX_KINDS:
                im.append((name, INDEX_KINDS[ty]))
            elif ty in ci.typedefs:
                el = ci.typedefs[ty]
                if el in INDEX_KINDS:
                    im.append((name, INDEX_KINDS[el]))
                elif el in ci.subs:
                    for sn, sty in sorted(ci.subs[el].members.items()):
                        if sty in INDEX_KINDS:
                            im.append((name + "." + sn, INDEX_KINDS[sty]))
        idx.append((kind, im))
        scal, vecs, subs = ci.remap
        remap.append((kind, sorted(scal + vecs + ["%s.%s" % s for s in subs])))
        ser.append((kind, [f[1] for f in ci.out]))
        copied = set(ci.assigned)
        if ci.assign_base:
            copied |= set(r["component_assign"]) & set(r["component_copyctor"])
        cop.append((kind, sorted(copied)))
    lines.append("/-- members whose C++ type is an index type (or a vector / sub-record field of one), with the kind they refer to -/")
    lines.append("def indexMembers : List (String × List (String × String)) := [")
    lines.append(",\n".join('  (%s, [%s])' % (lean_str(k), ", ".join("(%s, %s)" % (lean_str(a), lean_str(b)) for a, b in im)) for k, im in idx))
    lines.append("]")
    for nm, data, doc in (("remapMembers", remap, "members passed through remap.map_from() by remap_indices()"),
                          ("serialisedMembers", ser, "members written by output() (incl. InterrogateComponent's)"),
                          ("copiedMembers", cop, "members preserved by operator= AND the copy constructor chain")):
        lines.append("/-- %s -/" % doc)
        lines.append("def %s : List (String × List String) := [" % nm)
        lines.append(",\n".join('  (%s, [%s])' % (lean_str(k), ", ".join(lean_str(a) for a in v)) for k, v in data))
        lines.append("]")
    fm = []
    for kind, ci in r["classes"].items():
        for pred, (member, mask) in sorted(ci.preds.items()):
            if member == "_flags":
                fm.append(("%s.%s" % (kind, pred), mask))
        for en, val in sorted(ci.enums.items()):
            if en.startswith("F_"):
                fm.append(("%s.%s" % (kind, en), val))
    lines.append("/-- flag predicates `is_x() { return (_flags & F_x) != 0; }` and the F_ enumerators, per record kind -/")
    lines.append("def flagMasks : List (String × Nat) := [")
    lines.append(",\n".join("  (%s, %d)" % (lean_str(k), v) for k, v in fm))
    lines.append("]")
    lines += ["", "end IgVerif.Gen", ""]
    return "\n".join(lines), failed


def main():
    text, err = render()
    changed = write_if_changed(LEAN / "IgVerif" / "Gen" / "DbSchema.lean", text)
    return changed, err


if __name__ == "__main__":
    ch, err = main()
    print("changed" if ch else "unchanged", err or "")
