"""Translator for C04: the ordered early-return guards of the export filters in interrogateBuilder.cxx
-> lean/IgVerif/Gen/C04Gates.lean"""
import os
import re
import sys

sys.path.insert(0, os.path.dirname(os.path.dirname(os.path.abspath(__file__))))
import iglib
from iglib import strip_c_comments, lean_str, LEAN, write_if_changed

# normalised condition text -> gate id understood by the Lean model
GATES = [
    (r"^(function|type|element|manifest)==nullptr$", "null"),
    (r"^(function|type|element)->is_template\(\)$", "template"),
    (r"^(function|type|element)->_file\.is_c_file\(\)$|^manifest->_loc\.file\.is_c_file\(\)$", "cfile"),
    (r"^(function|type)->_file\._source!=CPPFile::S_local\|\|in_ignorefile\(\1->_file\._filename_as_referenced\)$", "notlocal"),
    (r"^manifest->_loc\.file\._source!=CPPFile::S_local\|\|in_ignorefile\(manifest->_loc\.file\._filename_as_referenced\)$", "notlocal"),
    (r"^struct_type==nullptr&&\(element->_file\._source!=CPPFile::S_local\|\|in_ignorefile\(element->_file\._filename_as_referenced\)\)$", "notlocal_global"),
    (r"^(function|type|element|manifest)->_vis>min_vis$", "vis"),
    (r"^!force_publish&&function->_vis>min_vis$", "vis_unless_forced"),
    (r"^\(function->_storage_class&\(CPPInstance::SC_static\|CPPInstance::SC_deleted\)\)!=0$", "static_or_deleted"),
    (r"^function->_storage_class&CPPInstance::SC_deleted$", "deleted"),
    (r"^TypeManager::involves_protected\((ftype|cpptype)\)$", "involves_protected"),
    (r"^in_ignoreinvolved\(ftype\)$", "ignoreinvolved"),
    (r"^in_ignoremember\(function->get_simple_name\(\)\)$", "ignoremember"),
    (r"^TypeManager::involves_rvalue_reference\(ftype\)$", "rvalue"),
    (r"^manifest->_has_parameters$", "function_like"),
    (r"^ielement\._type==0$", "untyped"),
    (r"^cpptype->get_simple_name\(\)\.empty\(\)$", "anonymous"),
    (r"^cpptype->_file\.is_c_file\(\)$", "cfile"),
    (r"^!forced&&\(cpptype->_file\._source!=CPPFile::S_local\|\|in_ignorefile\(cpptype->_file\._filename_as_referenced\)\)$", "notlocal_unless_forced"),
    (r"^\(ftype->_flags&CPPFunctionType::F_destructor\)!=0$", "destructor_rule"),
    (r"^\(function->_storage_class&CPPInstance::SC_inherited_virtual\)!=0&&struct_type->_derivation\.size\(\)==1&&struct_type->_derivation\[0\]\._vis<=V_public&&!struct_type->_derivation\[0\]\._is_virtual$", "inherited_virtual_rule"),
    (r"^function->is_scoped\(\)$", "scoped_decl"),
    (r"^element->is_scoped\(\)$", "scoped_decl"),
    (r"^element->_ident->_native_scope!=scope$", "foreign_scope"),
    (r"^type->_vis>min_vis$", "vis"),
    (r"^TypeManager::involves_unpublished\(cpptype\)$", "unpublished_struct"),
]

TARGETS = ["scan_function", "scan_struct_type", "scan_enum_type", "scan_manifest", "scan_element", "define_method", "define_struct_type"]
HEADERS = {"scan_function": r"\nscan_function\(CPPInstance \*function\)", "define_method": r"\ndefine_method\(CPPInstance \*function,"}


def top_level_guards(body):
    """conditions of the `if (...) { ... return; }` statements at nesting depth 1 of the function body (blocks that end in `return;`, and
    blocks that contain a return anywhere for composite guards), in order"""
    out = []
    i = 1
    depth = 1
    n = len(body)
    while i < n:
        c = body[i]
        if c == "{":
            depth += 1
        elif c == "}":
            depth -= 1
        elif depth == 1 and body.startswith("if", i) and re.match(r"if\s*\(", body[i:]) and not (body[i - 1].isalnum() or body[i - 1] == "_"):
            # balanced condition
            j = body.index("(", i)
            k = j
            d = 0
            while True:
                if body[k] == "(":
                    d += 1
                elif body[k] == ")":
                    d -= 1
                    if d == 0:
                        break
                k += 1
            cond = re.sub(r"\s+", "", body[j + 1:k])
            m = re.match(r"\s*\{", body[k + 1:])
            if m:
                b0 = k + 1 + m.end() - 1
                e = b0
                d = 0
                while True:
                    if body[e] == "{":
                        d += 1
                    elif body[e] == "}":
                        d -= 1
                        if d == 0:
                            break
                    e += 1
                block = body[b0 + 1:e]
                stmts = re.sub(r"\s+", " ", block).strip()
                if re.search(r"return( 0)?;$", stmts):
                    out.append((cond, "return"))
                elif re.search(r"\breturn\b", block):
                    out.append((cond, "nested-return"))
                i = e
                depth = 1
        i += 1
    return out


def gate_of(cond):
    for rx, gid in GATES:
        if re.match(rx, cond):
            return gid
    return "other:" + cond[:80]


def extract():
    t = strip_c_comments(iglib.read_src("src/interrogate/interrogateBuilder.cxx"))
    res = {}
    for fn in TARGETS:
        body = iglib.function_body(t, HEADERS.get(fn, r"\n%s\(" % fn))
        if body is None:
            raise RuntimeError("%s not found" % fn)
        res[fn] = [(gate_of(c), kind) for c, kind in top_level_guards(body)]
    return res


def render():
    failed = None
    try:
        res = extract()
    except Exception as e:
        failed = "%s: %s" % (type(e).__name__, e)
        res = {fn: [] for fn in TARGETS}
    lines = ["/-! REGENERATED on every run by tools/extract/c04_gates.py from interrogateBuilder.cxx. -/", "namespace IgVerif.Gen", ""]
    lines.append("def c04ExtractionFailed : Bool := %s" % ("true" if failed else "false"))
    lines.append("def c04ExtractionError : String := %s" % lean_str(failed or ""))
    for fn in TARGETS:
        lines.append("/-- guards of `%s`, in order; `!` marks a block that returns only on some inner path -/" % fn)
        lines.append("def c04_%s : List String := [%s]" % (fn, ", ".join(lean_str(g + ("!" if k != "return" else "")) for g, k in res[fn])))
    lines += ["", "end IgVerif.Gen", ""]
    return "\n".join(lines), failed


def main():
    text, err = render()
    return write_if_changed(LEAN / "IgVerif" / "Gen" / "C04Gates.lean", text), err


if __name__ == "__main__":
    print(main())
