#!/usr/bin/env python3
"""save_seed.py <outdir> <confirm-line> <detected-by...>: copies a confirmed seeded change into /verif/seeded/<id>/"""
import json, os, shutil, sys
src = sys.argv[1].rstrip("/")
sid = os.path.basename(src)
dst = os.path.join(os.path.dirname(os.path.dirname(os.path.abspath(__file__))), "seeded", sid)
if os.path.exists(dst):
    shutil.rmtree(dst)
shutil.copytree(src, dst, ignore=shutil.ignore_patterns("*.o", "*.so", "_b", "*.bin", "a.out"))
meta = json.load(open(os.path.join(src, "meta.json")))
meta["confirmed_by_me"] = sys.argv[2]
meta["detected_by"] = sys.argv[3] if len(sys.argv) > 3 else ""
json.dump(meta, open(os.path.join(dst, "meta.json"), "w"), indent=1)
print("saved", dst)
