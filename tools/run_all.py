#!/usr/bin/env python3
"""Runs every claimed check (quick by default) on the current tree and validates MANIFEST/evidence against the schemas."""
import json, subprocess, sys, time, os
V = os.path.dirname(os.path.dirname(os.path.abspath(__file__)))
tier = sys.argv[1] if len(sys.argv) > 1 else "quick"
m = json.load(open(os.path.join(V, "MANIFEST.json")))
bad = 0
for c in m["checks"]:
    pid = c["property_id"]
    t0 = time.time()
    p = subprocess.run(c["quick_cmd" if tier == "quick" else "thorough_cmd"], shell=True, cwd=V, capture_output=True, text=True)
    ev = json.load(open(os.path.join(V, "evidence", pid + ".json")))
    cov = ev["coverage"]
    ok = p.returncode == 0 and "VIOLATION" not in p.stdout and cov["obligations"] == cov["discharged"] and ev["violations"] == 0
    print("%s rc=%d %5.1fs obligations %d/%d corr=%d %s" % (pid, p.returncode, time.time() - t0, cov["discharged"], cov["obligations"],
                                                          cov["correspondence"]["cases"], "" if ok else "  <-- NOT CLEAN\n" + p.stdout[-600:]))
    bad += 0 if ok else 1
r = subprocess.run(["python3-vt", "-c", """
import json, jsonschema, glob
jsonschema.validate(json.load(open('%s/MANIFEST.json')), json.load(open('/root/.vp/MANIFEST.schema.json')))
s = json.load(open('/root/.vp/EVIDENCE.schema.json'))
for f in sorted(glob.glob('%s/evidence/*.json')):
    jsonschema.validate(json.load(open(f)), s)
print('schemas ok')
""" % (V, V)], capture_output=True, text=True)
print(r.stdout.strip(), r.stderr.strip()[-500:])
sys.exit(1 if bad or r.returncode else 0)
