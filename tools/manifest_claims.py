"""Which properties are claimed, with the level text (edited as checks land)."""

NOT_APPLICABLE = {}


def register(claim):
    pass
