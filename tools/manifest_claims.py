"""Which properties are claimed, with the level text (edited as checks land)."""

NOT_APPLICABLE = {}


def register(claim):
    claim("C12",
          "Lean 4 theorems over a generic codec that *interprets* the record layouts regenerated from the C++ output()/input() bodies on every run: "
          "load(write db) = db for every conforming database and all byte strings (c12_roundtrip), identical re-serialisation, formats 3.0-3.3 "
          "(c12_old_minor), version gate, identifier mismatch, nothing merged unless the whole body decoded; layout mirror / separator "
          "well-formedness / copy-completeness are decided by the kernel on the regenerated facts. Model and real library are run on the same "
          "generated databases, all prefixes, several files per process.",
          "Partial: rejection of every truncated prefix is not a theorem (correspondence + oracle over all prefixes instead). Corrupt non-prefix files are outside the property.",
          "Lean 4 proof (generic codec round trip) + regenerated layout facts + differential correspondence", "DESIGN.md §5 C12")
    claim("C20",
          "Lean 4 theorems: guarded accessors return the neutral value off-range and the entry in range; every lookup answers from the current maps "
          "for every sequence of requests/lookups/queries (cache invariant by induction over operations) and is sound/absent/exact; the unique-name "
          "binary search terminates, finds stored names in a sorted table and returns -1 for every other key. The accessor guards are extracted from "
          "the .I files on every run and decided by the kernel. Full index x position sweeps of all 170 interface functions run against the real library.",
          "Memory safety itself is observed (harness, embedded fptr table), not proved. module/library name accessors are not modelled.",
          "Lean 4 proof (invariant over op sequences, binary-search correctness) + extracted guard list + differential correspondence", "DESIGN.md §5 C20")
