"""Which properties are claimed, with the level text (edited as checks land)."""

NOT_APPLICABLE = {}


def register(claim):
    claim("C12",
          "Lean 4 theorems over a generic codec that *interprets* the record layouts regenerated from the C++ output()/input() bodies on every run: "
          "load(write db) = db for every conforming database and all byte strings (c12_roundtrip), identical re-serialisation, formats 3.0-3.3 "
          "(c12_old_minor), version gate, identifier mismatch, nothing merged unless the whole body decoded; layout mirror / separator "
          "well-formedness / copy-completeness are decided by the kernel on the regenerated facts. Model and real library are run on the same "
          "generated databases, all prefixes, several files per process.",
          "Partial: rejection of every truncated prefix is not a theorem (correspondence + oracle over all prefixes instead). Corrupt non-prefix files are outside the property.",
          "Lean 4 proof (generic codec round trip) + regenerated layout facts + differential correspondence", "DESIGN.md §5 C12")
    claim("C03",
          "Lean 4 theorems over a model of hash_string / clean_identifier / hash_function_signature: every hash is four characters of [A-Za-z0-9_], "
          "cleaned identifiers contain only alphanumerics and '_', and for EVERY sequence of signatures (including ones whose 24-bit hashes all collide "
          "under both shift offsets) the hashes handed out are fresh and pairwise distinct and never recycled (c03_assign_fresh, c03_assign_distinct), and a name is always found (c03_assign_total, pigeonhole over the suffix candidates). "
          "The model is tied to the real binary by library-hash correspondence, by crafted collision families (2..40 colliding signatures; the real "
          "symbols must equal the model's), and the generated code of generated headers + a corpus of escaping/qualification-sensitive headers is "
          "compiled with g++ over a 26-entry option lattice, with symbol uniqueness read from the compiled text.",
          "Partial: 'is a well-formed translation unit' is decided per run by g++ (no formal C++); linking is checked only for the C back-end.",
          "Lean 4 proof (freshness invariant over signature sequences) + differential correspondence + g++ oracle", "DESIGN.md §5 C03")
    claim("C06",
          "Lean 4 theorems: for EVERY type built from named types, const, pointers, references, arrays and functions (any nesting, any parameter "
          "lists) the token string produced by the model of the output_instance printers is derived by the ISO declarator grammar as a declaration of "
          "exactly that type and name (c06_print_denotes, by mutual structural induction); unroll_type over the modifier list the bison productions "
          "push equals the ISO meaning of the declarator whatever redundant parentheses were written (c06_unroll), hence parse-then-print denotes "
          "the written type (c06_parse_print); unqualified lookup takes the innermost contributing scope and never invents an entity "
          "(c06_lookup_*). The models are tied to the real parser/printer by running generated declarations (random parentheses, east/west const) "
          "through parse_file and comparing text, and generated namespace/base/shadowing programs through interrogate against the findType model; "
          "g++ judges every printed declaration, prototype, member type and typedef target with std::is_same / out-of-class definitions, also for "
          "instantiated class templates; every parser-inc stub header g++ accepts must parse.",
          "Partial: grammar unambiguity is assumed (ISO), bison acceptance and template substitution are explored per run, not proved; volatile, "
          "member pointers, attributes, trailing return types are outside the model. Two known findings (class name + parenthesised declarator; volatile dropped).",
          "Lean 4 proof (printer soundness w.r.t. the declarator grammar, unroll = ISO meaning) + differential correspondence + g++ oracle", "DESIGN.md §5 C06")
    claim("C10",
          "Lean 4 theorems over a model of cppStructType.cxx's trait code: get_virtual_funcs computes exactly the final overriders of [class.virtual] "
          "for EVERY hierarchy without virtual bases (c10_vfuncs_spec, mutual induction over classes and base lists), hence is_abstract / polymorphic "
          "have the C++ meaning (c10_abstract_spec, c10_polymorphic_spec); the public constructibility queries refuse abstract classes, so no "
          "implicit constructor is exported for one (c10_no_ctor_for_abstract); a user-provided destructor alone decides destructibility; a deleted "
          "member is never usable. The model (default/copy constructibility, destructibility with the min_vis recursion, const/reference/class "
          "members, defaulted-but-deleted members) is tied to the real code on generated hierarchies via parse_file -p, and g++ (std::is_abstract, "
          "is_destructible, SFINAE `new T()` / `new T(const T&)`) judges every trait and every implicit constructor/destructor interrogate exports.",
          "Partial: agreement of the constructibility recursion with the ISO rules is decided per run by g++, not proved; shared virtual bases are "
          "outside the theorem (known finding: virtual-base diamond judged abstract) and, for constructibility, outside the g++ comparison.",
          "Lean 4 proof (final-overrider characterisation by mutual induction) + differential correspondence + g++ oracle", "DESIGN.md §5 C10")
    claim("C15",
          "Lean 4 theorems for the hand-written scanners that are modelled: scan_raw never calls std::string::compare out of range on ANY byte string "
          "(c15_scan_raw_total, with the pre-fix counterexample kept as a theorem), and the ignore-set recursion of macro expansion strictly shrinks a "
          "finite measure at every nested expansion (c15_expand_measure; the model expandObj is accepted by Lean's termination checker for every macro "
          "table, cyclic ones included). Both models are tied to the real scanner / parse_file -E on generated literals and cyclic macro tables. "
          "Everything else is explored: an edge-case list of ~150 inputs, the tests/ and parser-inc/ corpus, grammar-generated headers and their byte- and "
          "token-level mutants through parse_file and interrogate (regular and ASan+UBSan builds, 15 s limit), random -D definitions, and the rule "
          "'parse error => non-zero exit and no output files'.",
          "Partial: totality of the bison parser, scopes, template instantiation and back-ends is a search result, not a theorem (fourteen crashes/hangs found this way were repaired).",
          "Lean 4 proof (scanner safety, termination measure) + differential correspondence + fuzzing as search (labelled exploration)", "DESIGN.md §5 C15")
    claim("C14",
          "Lean 4 theorems for the two stages that consult the process environment: sorting the pointer-keyed overload set with RemapCompareLess yields "
          "the same sequence for EVERY permutation of the set (c14_order_independent, via strict-weak-order lemmas c14_strict_weak and key injectivity "
          "on signatures; the pre-fix comparator's order dependence is kept as a theorem), and the file identifier is independent of the clock whenever "
          "SOURCE_DATE_EPOCH is non-empty, equals the clock otherwise, and SOURCE_DATE_EPOCH=0 means 0 (c14_id_*). The comparator's tie-break and the "
          "shape of the SOURCE_DATE_EPOCH branch are re-extracted from the source on every run; fileId is tied to the real binary under an LD_PRELOAD "
          "time() shim. Every generated library x back-end is rerun under differing ASLR, allocator tunables, environment size, locale/TZ, a "
          "','-decimal-point shim and a shifted clock and the sha256 of code, database, text dump and interrogate_module output compared.",
          "Partial: purity of the rest of the pipeline (no other address/uninitialised/locale/time dependence) is explored by those reruns, not proved.",
          "Lean 4 proof (permutation invariance of the sort stage, identifier logic) + regenerated facts + differential reruns (exploration)", "DESIGN.md §5 C14")
    claim("C08",
          "Lean 4 theorem for the # operator: for EVERY argument that is a sequence of well-lexed tokens, the model of CPPManifest::stringify yields "
          "'\"' + body + '\"' whose body, with the escapes \\\\ and \\\" undone, is exactly the argument (c08_stringify_roundtrip, by induction over the "
          "character loop with the quoting automaton as invariant) — an escaped quote never ends the literal early; the termination measure of the "
          "ignore-set recursion is c15_expand_measure. One level of expansion (save_expansion + r_expand) is modelled: string and character literals "
          "in a macro body are opaque to parameter substitution, # and ## (c08_literal_opaque, c08_literal_body), and #param is stringify(argument) "
          "(c08_stringify_param). Both models are tied to parse_file -E on generated arguments and single-macro programs; whole macro programs from a "
          "feature grammar (object-/function-like, nested, multi-line, empty and parenthesised-comma arguments, #, ##, __VA_ARGS__, ', ## __VA_ARGS__', "
          "__VA_OPT__, #undef/redefinition, push/pop_macro) are compared token by token with gcc -E.",
          "Partial: conformance of argument collection / rescanning / __VA_OPT__ is explored against gcc per run, not proved. Two known findings (no hide "
          "sets: re-expansion of an exempted token; white space inside # results).",
          "Lean 4 proof (# round trip) + differential correspondence + gcc -E oracle (exploration)", "DESIGN.md §5 C08")
    claim("C04",
          "Lean 4 theorems over a model that interprets the guard sequences of scan_function / scan_struct_type / scan_enum_type / scan_manifest / "
          "scan_element / define_method, which are re-extracted from interrogateBuilder.cxx on every run and checked against the model's lists by the "
          "kernel (c04_gates_mirror): a global function / method is exported iff it is declared in a local file, reaches the requested visibility "
          "(public destructor and get_class_type() excepted), is not static(function)/deleted/template and its signature involves no protected type, "
          "ignored type or rvalue reference (c04_function_iff, c04_method_iff); nothing below the requested visibility, deleted or with such a "
          "signature ever passes (c04_no_leak); -promiscuous only adds exports (c04_promiscuous_monotone). The attributes the filters read are tied to "
          "the real binary on generated six-file layouts with per-entity ground truth, for default and -promiscuous, incl. a scan that nothing from "
          "-I/-S/beside-the-file headers appears.",
          "Partial: truthfulness of file-source classification, visibility stamping and involves_* is tied by correspondence, not proved; .N command files are only modelled as attributes.",
          "Lean 4 proof (filter semantics over regenerated guard lists) + differential correspondence on generated layouts", "DESIGN.md §5 C04")
    claim("C05",
          "Lean 4 theorems over a model of get_comment_before (walk from the back, 'ends on this line or the line before', the attached-line mark): the "
          "comment handed out for a declaration is adjacent to it (c05_comment_adjacent), and for EVERY list of comments and EVERY sequence of "
          "declaration lines no comment is handed out for two different lines (c05_comment_once, invariant over the claim sequence). The model is tied "
          "to the real database on generated comment-placement files. All other facts — scoped names, public bases, virtual role, one wrapper per "
          "omitted default, ordered parameter names/types, optional/this flags, constness of this, return types, element types and accessors, "
          "comments — are compared entity by entity with the ground truth of the generator, for default options and -promiscuous, incl. overloads on "
          "reference constness and a published override of a merely public base virtual.",
          "Partial: truthfulness of the record builders is an entity-by-entity comparison per run, not a theorem.",
          "Lean 4 proof (comment attachment invariant) + differential correspondence + ground-truth comparison (exploration)", "DESIGN.md §5 C05")
    claim("C01",
          "Lean 4 theorems over a model of the converter table of InterfaceMaker::remap_parameter and of record_function's default-argument "
          "expansion: every argument kind that has a converter crosses the wrapper unchanged — the same scalar, the same pointer, the same object, "
          "not a copy elsewhere (c01_argument_crosses), kinds without a converter are refused (c01_unwrappable_refused), and a function with n "
          "parameters, d of them defaulted, gets exactly the arities n-d..n, each once, each forwarding its own arguments followed by the declared "
          "defaults (c01_arities, c01_arities_nodup, c01_forwarded_length). The converter chosen per parameter and the arities per function are tied "
          "to the generated code. Behaviour is decided per run: generated libraries with instrumented bodies are wrapped with -c and -python (with and "
          "without -string), compiled with the generated code, and every wrapper is called next to the direct C++ call on twin objects — boundary "
          "values of every integer width, bool/char/float/double/enum, by-value/reference/pointer class arguments, C strings and std::string, virtual "
          "dispatch through base-class wrappers on derived objects, repeated calls, data-member accessors, operators and a typecast, nested / "
          "template-typedef / namespace classes, up-/downcast wrappers of a class with two bases, -promiscuous.",
          "Partial: 'wrapper = direct call' is decided by execution (no C++ semantics in Lean); -true-names (needs -fptrs) is not exercised.",
          "Lean 4 proof (converter table, arity expansion) + correspondence on generated code + differential execution (exploration)", "DESIGN.md §5 C01")
    claim("C02",
          "Lean 4 theorems over a model of the generated overload dispatch (switch on the argument count, then the first remap in emission order whose "
          "parameter extraction accepts the Python values; instances are accepted for their class or a base, const wrappers only by const parameters): a "
          "call reaches a C++ function only within its arity range and with every argument accepted (c02_arity_gate); if no overload accepts, nothing runs "
          "(TypeError, c02_no_viable_typeerror); when exactly one overload accepts — sets whose members differ in some parameter category or in arity — that "
          "one runs, in every emission order (c02_dispatch_unique, c02_dispatch_order_independent); with several acceptable overloads the best one runs if "
          "the emission order never puts a better match after a worse one (c02_first_viable_is_best), which an order sorted by get_type_sort rank vectors guarantees "
          "(c02_rank_order_gives_hsorted); the keyword table re-extracted from the source contains every Python 3 keyword (c02_keywords_cover). The model is tied to real modules: which overload ran "
          "for every argument-category vector. Behaviour is decided per run: generated class libraries are built into extension modules and exercised by "
          "generated Python programs with independently computed expectations (names, defaults, keywords, values, TypeError/OverflowError, constness, "
          "base-class acceptance, live-object counts), plus a reference-counting scenario with assertion failures.",
          "Partial: the generated C and the py_panda runtime are observed, not modelled; coercion constructors are not generated.",
          "Lean 4 proof (overload dispatch) + differential correspondence on real modules + generated Python tests (exploration)", "DESIGN.md §5 C02")
    claim("C20",
          "Lean 4 theorems: guarded accessors return the neutral value off-range and the entry in range; every lookup answers from the current maps "
          "for every sequence of requests/lookups/queries (cache invariant by induction over operations) and is sound/absent/exact; the unique-name "
          "binary search terminates, finds stored names in a sorted table and returns -1 for every other key. The accessor guards are extracted from "
          "the .I files on every run and decided by the kernel. Full index x position sweeps of all 170 interface functions run against the real library.",
          "Memory safety itself is observed (harness, embedded fptr table), not proved. module/library name accessors are not modelled.",
          "Lean 4 proof (invariant over op sequences, binary-search correctness) + extracted guard list + differential correspondence", "DESIGN.md §5 C20")
    claim("C11",
          "Lean 4 theorems about remap_indices over the layout-directed database model: wrappers receive exactly first..first+n-1, the other kinds "
          "follow consecutively, the returned next index is first + number of entries (c11_wrappers_first, c11_ranges); every index-typed member "
          "(read from the headers) is passed through remap.map_from() by its class (c11_field_coverage, c11_covers, decided by the kernel on regenerated facts), "
          "and therefore a referentially closed database stays closed under remap_indices(first) for every first (c11_closed_preserved; hypotheses: kinds do not share indices, 0 is not an index). "
          "The model's remap_indices/closure/link verdicts are tied to the real library on closed and dangling databases; databases produced by "
          "interrogate from generated headers x back-ends are checked against the property's oracle incl. a g++ redeclaration check of C signatures.",
          "Partial: files in which two kinds share an index are covered by correspondence only; agreement of C signature text is a compile check (exploration).",
          "Lean 4 proof (consecutive renumbering, closure preservation) + regenerated index/remap member facts + differential correspondence", "DESIGN.md §5 C11")
    claim("C13",
          "Lean 4 theorems: global-ness of a merged type is the union, the fully defined definition wins in either order (merge_with), and for ANY "
          "number of libraries of which one defines a type and the others only refer to it, merging their records in any two orders gives the same "
          "record (c13_merge_order_independent; the flag facts it needs are decided on the values extracted from the headers); compiled-in "
          "modules and database files each receive their own contiguous index range, and for every history of requests/lookups/queries each lookup "
          "first loads all pending files and answers from the current maps (cache invariant by induction). merge_from itself is modelled verbatim and "
          "tied to the real library over every load order of generated library sets, with lookups interleaved.",
          "Partial: order independence up to isomorphism and closure of the merged database are decided per run by exhaustive permutation "
          "(k<=3 quick, k<=4 thorough) against the disjoint-union oracle, not by a Lean theorem. Conflicting fully-defined definitions are excluded.",
          "Lean 4 proof (merge_with flag algebra, cache invariant) + differential correspondence over all load orders", "DESIGN.md §5 C13")
    claim("C16",
          "Lean 4 theorems over a verbatim model of the ordering loop of write_python_table_native (std::map/std::set as ascending lists, the "
          "pruning pass, the cycle search with its visited set and operator[] insertions, the edge-breaking step): for EVERY dependency graph the "
          "emitted list has no duplicate (c16_each_once), contains every library of the map (c16_all_emitted), every dependency not reported broken "
          "is initialised before its dependent (c16_unbroken_respected), every broken dependency lies on a cycle of the graph "
          "(c16_broken_on_cycle; acyclic graphs are ordered topologically with nothing broken), and the loop terminates (c16_terminates: a measure "
          "decreases every round, and after a pass without progress the first descent of the search finds a cycle or a missing key). The model is "
          "tied to the real interrogate_module on all digraphs over 3 libraries (4 thorough), random ones up to 6, and densely layered graphs of "
          "34-60 libraries with cycles (on which the pre-fix exponential search never returns), in several command-line orders; load failures in "
          "every position must give a non-zero exit and no output.",
          "The derivation of the graph from the loaded databases is not modelled (databases realising a given graph are given to the real tool).",
          "Lean 4 proof (loop invariants, termination measure, cycle soundness of the ordering algorithm) + differential correspondence", "DESIGN.md §5 C16")
    claim("C19",
          "Lean 4 theorem: a stream protocol accepted by the syntactic check `wellChecked` turns, under EVERY fault schedule (which open / buffer "
          "flush / close fails and when the buffer happens to be flushed), lost output into a non-zero exit (wellChecked_sound, by an abstraction "
          "relation carried through every statement). The protocols of both main() functions are extracted from the source on every run and the "
          "kernel decides wellChecked on them (c19_interrogate, c19_module). Fault injection at every k-th open/write/close of every channel plus "
          "the static failures is run against the real binaries.",
          "libstdc++ basic_filebuf behaviour is assumed as stated in Model/OutProto.lean and validated by the fault-injection runs; the translator "
          "must recognise every stream/status statement (otherwise the obligation fails).",
          "Lean 4 proof (abstract interpretation soundness over fault schedules) + extracted protocol + exhaustive fault injection", "DESIGN.md §5 C19")
    claim("C07",
          "Lean 4 theorem: for EVERY expression tree over the modelled operators (arithmetic, bitwise, shifts, comparisons, && || with short-circuit, "
          "?:, comma, unary ! ~ - +, casts to bool/int/short/char/unsigned) to which C++ assigns a value with all operands and results inside int "
          "(spec cxxEval over the integers, undefined on overflow/UB/division by zero), the model of CPPExpression::evaluate returns exactly that value, "
          "and it can never return a different integer (c07_eval, c07_never_wrong; structural induction). The integer branch of every case of the "
          "operator switch, the bison precedence/associativity table and the operator productions of all three grammar copies are re-extracted on "
          "every run and decided by the kernel. Integer literals: a decimal / hexadecimal / binary literal with digit separators anywhere is recorded "
          "with the positional value of its digits (c07_literal, over a model of get_number); narrow character literals — ordinary characters, the whole "
          "simple-escape table, octal escapes of 1-3 digits, hex escapes of any length — have their C++ value (c07_char_*, over a model of "
          "scan_escape_sequence); enumerators without initialiser get the previous value plus one whatever expression shapes add_element builds "
          "(c07_enum_increment). Values recorded in real databases are compared with the models and with g++.",
          "Partial: the LALR parse of minimally parenthesised text is covered by correspondence and the g++ oracle only; wide / multi-character "
          "literals and real/pointer-valued sub-expressions are outside the model.",
          "Lean 4 proof (evaluator refines C++ integer semantics) + extracted operator/precedence facts + differential correspondence with g++ oracle", "DESIGN.md §5 C07")
    claim("C09",
          "Lean 4 theorem (mutual structural induction, no bound on depth or length): on EVERY well-nested program of #if/#ifdef/#ifndef/#elif/"
          "#elifdef/#elifndef/#else/#endif with arbitrary conditions and arbitrary directives inside the groups, interrogate's stack-free skipper "
          "(process_directive + skip_false_if_block, modelled verbatim) keeps exactly the markers and performs exactly the effects of the nested-group "
          "semantics: first true condition wins, at most one group, skipped groups have no effect (c09_refines, c09_skipped_no_effect). The dispatch "
          "tables of both functions are re-extracted on every run and decided by the kernel. parse_file -E is compared with the Lean machine and "
          "with gcc -E on all small programs and random deep ones. A second, character-level model of skip_false_if_block (comments, string and "
          "character literals, null directives, continuations) carries the theorems that text inside a string literal or block comment of a skipped "
          "group cannot change where the group ends (c09_string_text_irrelevant, c09_comment_text_irrelevant); it is tied to parse_file -E on generated skipped texts.",
          "That the directive lines found by the character-level scanner are the lines of the directive-level machine is tied by correspondence, not proved; "
          "active text is lexed by the ordinary tokenizer (not modelled). Conditions are the C07 expressions; macro bodies are integer literals or single identifiers.",
          "Lean 4 proof (refinement of tree semantics by the stack-free machine) + extracted dispatch tables + differential correspondence with gcc oracle", "DESIGN.md §5 C09")
    claim("C17",
          "Lean 4 theorems over a verbatim model of the component loop of Filename::standardize: idempotent on EVERY path, and in any directory "
          "tree without symbolic links a path that denotes an entry keeps denoting the same entry after normalisation (c17_std_idempotent, "
          "c17_std_denotes; loop invariant + normal-form replay), never the empty path; the include search (working directory, includer's "
          "directory, -I/-S in order; <x> only through -S; -noangles) is modelled as a candidate list with the corresponding lemmas. The real "
          "Filename class is compared with the model on every path over {a,b,.,..,empty} up to 5 (6) components; include layouts, ownership of "
          "command-line files under odd spellings and once-only inclusion across spellings/symlinks are run against parse_file/interrogate.",
          "Splitting a string at '/' is done by the driver, not proved. Once-only inclusion depends on realpath()/chdir and is checked on layouts only. "
          "c17_std_denotes assumes no symbolic links (textual '..' removal).",
          "Lean 4 proof (standardize idempotent and denotation-preserving) + differential correspondence on exhaustive small paths and generated layouts", "DESIGN.md §5 C17")
    claim("C18",
          "Lean 4 model in exact integer arithmetic of binary64, of correctly rounded decimal->binary conversion (rneDec) and of Grisu2 exactly as "
          "pdtoa.cxx has it (DiyFp, boundaries, cached power selection incl. its double arithmetic, DigitGen, GrisuRound, Prettify). Theorems decided "
          "by the kernel on facts re-extracted every run: all 87 cached powers are the correctly rounded 64-bit significands of 10^(-348+8i) "
          "(c18_cached_powers), the exponent writer is exact for every |K|<1000 (c18_write_exponent). The model is bit-for-bit equal to the real "
          "pdtoa on every double compared; round trip and parser are decided per run against the exact rounding model (and glibc), also under a "
          "','-decimal-point locale; literals are followed end to end through interrogate.",
          "Partial: Loitsch's DigitGen invariant (hence pdtoa round trip for ALL doubles) and Prettify's layout branches are not theorems; pstrtod "
          "delegates the conversion to the C library's strtod (trusted; cross-checked against the Lean rounding model).",
          "Lean 4 exact-arithmetic model + kernel-decided table facts + differential correspondence against exact rounding", "DESIGN.md §5 C18")
