#!/bin/bash
# usage: confirm_seed.sh <seed-out-dir> <worktree>   -- confirms a seeded change: builds, ctest 10/10, demo fails with / passes without
set -u
S=$1; W=$2
cd "$W" || exit 9
git checkout -q --detach main 2>/dev/null
git checkout -q -- . 
B=$W/_b
[ -f $B/build.ninja ] || cmake -G Ninja -S . -B $B -DCMAKE_BUILD_TYPE=RelWithDebInfo >/dev/null
cmake --build $B -j8 >/dev/null 2>&1 || { echo "BASE BUILD FAILED"; exit 9; }
bash $S/demo.sh $B $W >/tmp/confirm_$$.base 2>&1; base=$?
git apply $S/patch.diff || { echo "PATCH DOES NOT APPLY"; exit 9; }
cmake --build $B -j8 >/dev/null 2>&1; build=$?
ct=$(ctest --test-dir $B -j4 2>&1 | grep -c "Passed")
ctsum=$(ctest --test-dir $B -j4 2>&1 | grep "tests passed")
bash $S/demo.sh $B $W >/tmp/confirm_$$.mut 2>&1; mut=$?
git checkout -q -- .
cmake --build $B -j8 >/dev/null 2>&1
echo "seed=$(basename $S) base_demo_exit=$base build_with_patch=$build ctest='$ctsum' demo_with_patch_exit=$mut"
rm -f /tmp/confirm_$$.*
