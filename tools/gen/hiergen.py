"""G-hier: class hierarchies over the special-member / virtual-function feature alphabet (C10).

Every class is described by plain data so that the same description can be (a) written as C++,
(b) encoded for the Lean model `igdriver traits`."""

VIS = ["public", "protected", "private"]


class SM:
    """a user-declared special member: vis, mode in {'decl', 'default', 'delete'}"""
    def __init__(self, vis, mode, virtual=False, pure=False):
        self.vis, self.mode, self.virtual, self.pure = vis, mode, virtual, pure


class VFn:
    def __init__(self, fid, virt, pure, vis="public", final=False, covariant=None):
        self.fid, self.virt, self.pure, self.vis, self.final, self.covariant = fid, virt, pure, vis, final, covariant


class Field:
    def __init__(self, kind, init=False, cls=None, static=False, vis="public"):
        self.kind, self.init, self.cls, self.static, self.vis = kind, init, cls, static, vis   # kind: int | cint | ref | cls


class K:
    def __init__(self, name, key):
        self.name, self.key = name, key
        self.bases = []      # (K, access, virtual)
        self.dctor = None    # SM
        self.octor = None    # vis of K(int) or None
        self.cctor = None    # SM
        self.mctor = None    # SM (move constructor)
        self.massign = None  # mode of a declared move assignment operator ("decl" / "default" / "delete"), or None
        self.dtor = None     # SM
        self.fields = []
        self.vfns = []
        self.templ = False   # written as `template<class T> struct <name>_T {...}; typedef <name>_T<int> <name>;`
        self.self_args = False   # the template spells its own type with explicit arguments (`<name>_T<T>`) in its copy/move constructor

    def query(self):
        """the name under which parse_file -p knows the class itself (not a typedef of it)"""
        return "%s_T<int>" % self.name if self.templ else self.name

    def all_bases(self):
        out = []
        for b, _, _ in self.bases:
            out.append(b)
            out += b.all_bases()
        return out

    def has_virtual_base(self):
        return any(v for _, _, v in self.bases) or any(b.has_virtual_base() for b, _, _ in self.bases)

    def text(self):
        n = self.name + "_T" if self.templ else self.name
        me = n + "<T>" if self.templ and self.self_args else n
        out = "%s%s %s" % ("template<class T> " if self.templ else "", self.key, n)
        if self.bases:
            out += " : " + ", ".join("%s%s %s" % (a, " virtual" if v else "", b.name) for b, a, v in self.bases)
        out += " {\n"
        members = []

        def sm_text(sig, sm):
            s = ("virtual " if sm.virtual else "") + sig
            if sm.pure:
                s += " = 0"
            elif sm.mode == "default":
                s += " = default"
            elif sm.mode == "delete":
                s += " = delete"
            return s + ";"
        if self.dctor:
            members.append((self.dctor.vis, sm_text("%s()" % n, self.dctor)))
        if self.octor:
            members.append((self.octor, "%s(int, int);" % n))
        if self.cctor:
            members.append((self.cctor.vis, sm_text("%s(const %s &)" % (n, me), self.cctor)))
        if self.mctor:
            members.append((self.mctor.vis, sm_text("%s(%s &&)" % (n, me), self.mctor)))
        if self.massign:
            members.append(("public", "%s &operator = (%s &&)%s;" % (me, me, {"decl": "", "default": " = default", "delete": " = delete"}[self.massign])))
        if self.dtor:
            members.append((self.dtor.vis, sm_text("~%s()" % n, self.dtor)))
        for f in self.vfns:
            ret = "int" if f.covariant is None else "%s *" % f.covariant
            s = "%s%s fn%d(%s)" % ("virtual " if f.virt else "", ret, f.fid % 10, "int" if f.fid >= 10 and f.fid < 20 else "")
            if f.fid >= 20:
                s = "%s%s fn%d() const" % ("virtual " if f.virt else "", ret, f.fid % 10)
            if f.final:
                s += " final"
            if f.pure:
                s += " = 0"
            members.append((f.vis, s + ";"))
        for i, f in enumerate(self.fields):
            st = "static " if f.static else ""
            dims = getattr(f, "dims", "") if not f.static and not f.init else ""      # array members: the element type decides
            if f.kind == "int":
                s = "%sint f%d%s%s;" % (st, i, dims, " = 1" if f.init and not f.static else "")
            elif f.kind == "cint":
                s = "%sconst int f%d%s%s;" % (st, i, dims, " = 2" if f.init else "")
                if f.static and not f.init:
                    s = "static const int f%d = 3;" % i
            elif f.kind == "ref":
                s = "int &f%d;" % i
            else:
                s = "%s%s f%d;" % (st, f.cls.name, i)
            members.append((f.vis, s))
        cur = None
        for vis, s in members:
            if vis != cur:
                out += "%s:\n" % vis
                cur = vis
            out += "  " + s + "\n"
        out += "};\n"
        if self.templ:
            out += "typedef %s<int> %s;\n" % (n, self.name)
        return out


def directed():
    """every special member (default / copy constructor, destructor) x {public, protected, private} x {declared, defaulted, deleted} on a base
    class, seen from a derived class and from a class holding it, which rely on their implicit members; the copy constructors once more on a
    class template that spells its own type with explicit template arguments"""
    out = []
    for which in ("dctor", "cctor", "dtor"):
        for vis in ("public", "protected", "private"):
            for mode in ("decl", "default", "delete"):
                for templ in ((False, True) if which == "cctor" else (False,)):
                    b = K("H0", "struct")
                    setattr(b, which, SM(vis, mode))
                    if which == "cctor":
                        b.dctor = SM("public", "decl")      # (a declared copy constructor suppresses the implicit default constructor)
                    b.templ, b.self_args = templ, templ
                    d = K("H1", "struct")
                    d.bases.append((b, "public", False))
                    h = K("H2", "class")
                    f = Field("cls", vis="public")
                    f.cls = b
                    h.fields.append(f)
                    dd = K("H3", "struct")
                    dd.bases.append((d, "protected", False))
                    out.append([b, d, h, dd])
    return out


def gen_hierarchy(rng, n, allow_virtual_bases=True, covariant_p=0.3, bias=None, templates_p=0.0):
    """bias="defaulted": special members are mostly public and `= default` (whether they are then deleted is decided by the bases and members),
    with a few classes whose special members are deleted or private to inherit from / hold"""
    ks = []
    modes = ["decl", "decl", "default", "delete"]
    viss = ["public", "public", "protected", "private"]
    for i in range(n):
        k = K("H%d" % i, rng.choice(["struct", "struct", "class"]))
        if bias == "defaulted":
            if i % 2 == 0 and rng.random() < 0.7:
                modes, viss = ["delete", "delete", "decl", "default"], ["public", "private", "private", "protected"]
            else:
                modes, viss = ["default", "default", "default", "decl"], ["public", "public", "public", "protected"]
        k.templ = rng.random() < templates_p
        k.self_args = rng.random() < 0.6
        if ks and rng.random() < 0.7:
            for b in rng.sample(ks, min(len(ks), rng.choice([1, 1, 1, 2]))):
                k.bases.append((b, rng.choice(["public", "public", "public", "protected", "private"]), allow_virtual_bases and rng.random() < 0.2))
        r = rng.random()
        if r < (0.6 if bias else 0.35):
            k.dctor = SM(rng.choice(viss), rng.choice(modes))
        if rng.random() < 0.25:
            k.octor = rng.choice(["public", "public", "protected"])
        if rng.random() < (0.6 if bias else 0.3):
            k.cctor = SM(rng.choice(viss), rng.choice(modes))
        if rng.random() < 0.1:
            k.mctor = SM("public", rng.choice(["decl", "default", "delete"]))
        if rng.random() < 0.12:
            k.massign = rng.choice(["decl", "decl", "default", "delete"])
        if rng.random() < (0.6 if bias else 0.35):
            pure = rng.random() < 0.12
            k.dtor = SM(rng.choice(viss + ["public"]), "decl" if pure else rng.choice(modes),
                        virtual=pure or rng.random() < 0.5, pure=pure)
        for j in range(rng.choice([0, 0, 1, 1, 2])):
            kind = rng.choice(["int", "int", "cint", "ref", "cls", "cls"])
            if kind == "cls":
                cands = [c for c in ks if c is not k]
                if not cands:
                    kind = "int"
            f = Field(kind, init=rng.random() < 0.4, static=rng.random() < 0.15 and kind in ("int", "cint"),
                      vis=rng.choice(["public", "public", "private"]))
            if kind == "cls":
                f.cls = rng.choice(cands)
                f.init = False
            if kind == "ref":
                f.init = False
            if kind in ("int", "cint") and rng.random() < 0.3:
                f.dims = rng.choice(["[2]", "[2][3]", "[1][2][2]", "[4]"])
            k.fields.append(f)
        inherited = set()
        for b in k.all_bases():
            inherited |= {f.fid for f in b.vfns}
        used = set()
        for j in range(rng.choice([0, 1, 1, 2])):
            if inherited and rng.random() < 0.7:
                fid = rng.choice(sorted(inherited))
            else:
                fid = rng.choice([0, 1, 2, 10, 11, 20, 21])
            if fid in used:
                continue
            used.add(fid)
            pure = rng.random() < 0.3
            virt = pure or rng.random() < 0.5
            k.vfns.append(VFn(fid, virt, pure, vis=rng.choice(["public", "public", "protected", "private"])))
        ks.append(k)
    # covariant return types: a function family returning `Hx *` down a public single-inheritance chain
    if rng.random() < covariant_p and not any(k.templ for k in ks):
        for k in ks:
            for f in k.vfns:
                if f.fid in (1, 21):
                    f.covariant = k.name
    return ks


def program_text(ks):
    return "".join(k.text() for k in ks)


# ---- encoding for the Lean model -----------------------------------------------------------------------

VISN = {"public": 0, "protected": 1, "private": 2}


def enc_sm(sm):
    if sm is None:
        return "-"
    return "%d%s%s%s" % (VISN[sm.vis], {"decl": "u", "default": "d", "delete": "x"}[sm.mode], "v" if sm.virtual else "n", "p" if sm.pure else "n")


def enc_class(k):
    """K <nbases> (base vis virt)* dctor octor cctor mctor dtor massign <nfields> fields* <nvf> vfs*"""
    out = ["K", str(len(k.bases))]
    for b, a, v in k.bases:
        out += [enc_class(b), str(VISN[a]), "1" if v else "0"]
    out += [enc_sm(k.dctor), "-" if k.octor is None else str(VISN[k.octor]), enc_sm(k.cctor), enc_sm(k.mctor), enc_sm(k.dtor), "m" if k.massign else "-"]
    out.append(str(len(k.fields)))
    for f in k.fields:
        code = {"int": "i", "cint": "c", "ref": "r", "cls": "k"}[f.kind] + ("1" if f.init else "0") + ("s" if f.static else "n")
        out.append(code)
        if f.kind == "cls":
            out.append(enc_class(f.cls))
    out.append(str(len(k.vfns)))
    for f in k.vfns:
        out.append("%d:%d:%d" % (f.fid, 1 if f.virt else 0, 1 if f.pure else 0))
    return " ".join(out)


def gen_covariant(rng, n):
    """a public inheritance tree in which fn1 returns a pointer/reference to the declaring class (covariant overriders)"""
    ks = []
    for i in range(n):
        k = K("H%d" % i, "struct")
        if ks and rng.random() < 0.85:
            k.bases.append((rng.choice(ks), "public", False))
        declares = (not k.bases) or rng.random() < 0.6
        if declares:
            root = not k.bases or not any(f.fid == 1 for b in k.all_bases() for f in b.vfns)
            pure = rng.random() < (0.8 if root else 0.2)
            k.vfns.append(VFn(1, root or rng.random() < 0.5, pure, covariant=k.name))
        if rng.random() < 0.3:
            k.fields.append(Field("int"))
        ks.append(k)
    return ks
