"""G-type: generator of valid C++ types as trees, their concrete declarators (with redundant
parentheses) and the source text; plus the prefix encodings understood by `igdriver ctype`.

type  := ('B', name) | ('C', t) | ('P', t) | ('L', t) | ('R', t) | ('A', n|None, t) | ('F', variadic, ret, [(pname|None, t)...])
cdecl := ('n', name|None) | ('p', const, d) | ('l', d) | ('r', d) | ('a', n|None, d) | ('f', variadic, d, params) | ('(', d)
"""

SCALARS = ["int", "char", "double", "unsigned int", "long long int", "bool", "float", "unsigned char", "short int", "signed char", "signed char"]   # spelled as interrogate prints them


def hx(s):
    return s.encode().hex() if s else "-"


def is_ref(t):
    return t[0] in "LR"


def is_fn(t):
    return t[0] == "F"


def is_arr(t):
    return t[0] == "A"


def gen_object(rng, depth, names, allow_void=False):
    """a complete object type (no reference, no function, no unknown-bound array)"""
    r = rng.random()
    if depth <= 0 or r < 0.3:
        b = ("B", rng.choice(SCALARS + names + names))
        return ("C", b) if rng.random() < 0.25 else b
    if r < 0.6:
        inner = gen_pointee(rng, depth - 1, names)
        p = ("P", inner)
        return ("C", p) if rng.random() < 0.3 else p
    if r < 0.85:
        return ("A", rng.choice([1, 2, 3, 4, 7, 16]), gen_object(rng, depth - 1, names))
    return gen_object(rng, depth - 1, names)


def gen_pointee(rng, depth, names):
    r = rng.random()
    if r < 0.2 and depth > 0:
        return gen_fn(rng, depth - 1, names)
    if r < 0.25:
        return ("B", "void")
    return gen_object(rng, depth, names)


def gen_fn(rng, depth, names):
    r = rng.random()
    if r < 0.2:
        ret = ("B", "void")
    elif r < 0.4 and depth > 0:
        ret = (rng.choice("LR"), gen_referee(rng, depth - 1, names))
    else:
        ret = gen_object(rng, depth, names)
        while is_arr(ret):
            ret = ("P", ret)            # a function cannot return an array: return a pointer to it
    ps = []
    for k in range(rng.choice([0, 1, 1, 2, 3])):
        ps.append((rng.choice([None, "a%d" % k, "arg%d" % k]), gen_param(rng, depth - 1, names)))
    variadic = bool(ps) and rng.random() < 0.1
    return ("F", variadic, ret, ps)


def gen_referee(rng, depth, names):
    if depth > 0 and rng.random() < 0.15:
        return gen_fn(rng, depth - 1, names)
    return gen_object(rng, depth, names)


def gen_param(rng, depth, names):
    r = rng.random()
    if r < 0.3 and depth >= 0:
        return (rng.choice("LLR"), gen_referee(rng, max(depth, 0), names))
    t = gen_object(rng, max(depth, 0), names)
    if t[0] == "C" and t[1][0] == "B" and rng.random() < 0.5:
        return t[1]
    return t


def gen_top(rng, depth, names, kind):
    """kind: 'var' (extern variable), 'typedef', 'func'"""
    if kind == "func":
        return gen_fn(rng, depth, names)
    r = rng.random()
    if r < 0.2:
        return (rng.choice("LR"), gen_referee(rng, depth - 1, names))
    if r < 0.3 and kind == "typedef":
        return gen_fn(rng, depth - 1, names)
    if r < 0.38:
        return ("A", None, gen_object(rng, depth - 1, names))     # unknown bound: only outermost
    return gen_object(rng, depth, names)


NOPTR = ("n", "a", "f", "(")


def to_decl(rng, t, name, paren_p=0.15):
    """inverse of the ISO meaning: (base type, concrete declarator) with random redundant parentheses"""
    d = ("n", name)

    def maybe_paren(d):
        if rng.random() < paren_p and not (d[0] == "n" and d[1] is None):
            return ("(", d)
        return d

    while True:
        k = t[0]
        if k == "B":
            return t, d
        if k == "C" and t[1][0] == "B":
            return t, d
        if k == "C" and t[1][0] == "P":
            d = maybe_paren(("p", True, d))
            t = t[1][1]
        elif k == "P":
            d = maybe_paren(("p", False, d))
            t = t[1]
        elif k == "L":
            d = maybe_paren(("l", d))
            t = t[1]
        elif k == "R":
            d = maybe_paren(("r", d))
            t = t[1]
        elif k == "A":
            if d[0] not in NOPTR:
                d = ("(", d)
            d = maybe_paren(("a", t[1], d))
            t = t[2]
        elif k == "F":
            if d[0] not in NOPTR:
                d = ("(", d)
            elif d[0] == "n" and d[1] is None:
                pass
            d = ("f", t[1], d, t[3])
            # `(f(int))` around a whole function declarator is legal too
            d = maybe_paren(d) if rng.random() < 0.3 else d
            t = t[2]
        else:
            raise ValueError(t)


def base_text(rng, b):
    if b[0] == "C":
        return rng.choice(["const %s", "%s const"]) % b[1][1]
    return b[1]


def decl_text(rng, d):
    k = d[0]
    if k == "n":
        return d[1] or ""
    if k == "p":
        return "*" + (" const " if d[1] else "") + decl_text(rng, d[2])
    if k == "l":
        return "&" + decl_text(rng, d[1])
    if k == "r":
        return "&&" + decl_text(rng, d[1])
    if k == "(":
        return "(" + decl_text(rng, d[1]) + ")"
    if k == "a":
        return decl_text(rng, d[2]) + "[%s]" % ("" if d[1] is None else d[1])
    if k == "f":
        ps = []
        for pn, pt in d[3]:
            b, pd = to_decl(rng, pt, pn)
            ps.append((base_text(rng, b) + " " + decl_text(rng, pd)).strip())
        if d[1]:
            ps.append("...")
        return decl_text(rng, d[2]) + "(" + ", ".join(ps) + ")"
    raise ValueError(d)


def enc_type(t):
    k = t[0]
    if k == "B":
        return "B " + hx(t[1])
    if k in "CPLR":
        return k + " " + enc_type(t[1])
    if k == "A":
        return "A %s %s" % ("-" if t[1] is None else t[1], enc_type(t[2]))
    if k == "F":
        return "F %d %d %s%s" % (1 if t[1] else 0, len(t[3]), enc_type(t[2]), "".join(" %s %s" % (hx(n), enc_type(p)) for n, p in t[3]))
    raise ValueError(t)


def enc_decl(d):
    k = d[0]
    if k == "n":
        return "n " + hx(d[1])
    if k == "p":
        return "p %d %s" % (1 if d[1] else 0, enc_decl(d[2]))
    if k == "l":
        return "l " + enc_decl(d[1])
    if k == "r":
        return "r " + enc_decl(d[1])
    if k == "(":
        return "( " + enc_decl(d[1])
    if k == "a":
        return "a %s %s" % ("-" if d[1] is None else d[1], enc_decl(d[2]))
    if k == "f":
        return "f %d %d %s%s" % (1 if d[1] else 0, len(d[3]), enc_decl(d[2]), "".join(" %s %s" % (hx(n), enc_type(p)) for n, p in d[3]))
    raise ValueError(d)


def depth_of(t):
    k = t[0]
    if k == "B":
        return 0
    if k in "CPLR":
        return 1 + depth_of(t[1])
    if k == "A":
        return 1 + depth_of(t[2])
    return 1 + max([depth_of(t[2])] + [depth_of(p) for _, p in t[3]])


def shape_of(t):
    """feature tags for the evidence distribution"""
    tags = set()

    def walk(t, parent):
        k = t[0]
        if k == "A" and parent in ("P", "L", "R", "C"):
            tags.add("ptr/ref-to-array")
        if k == "F" and parent in ("P", "L", "R", "C"):
            tags.add("ptr/ref-to-function")
        if k == "F" and parent is None:
            tags.add("function")
        if k == "C":
            tags.add("const-" + t[1][0])
        if k in "CPLR":
            walk(t[1], k if k != "C" else parent if t[1][0] == "B" else "C")
        elif k == "A":
            tags.add("array")
            walk(t[2], "A")
        elif k == "F":
            if t[2][0] == "P" and t[2][1][0] in "AF":
                tags.add("returns-ptr-to-array/function")
            walk(t[2], "Fret")
            for _, p in t[3]:
                walk(p, "Fparam")
    walk(t, None)
    return sorted(tags) or ["plain"]


def rebase(t, name):
    """the same type over another innermost named type"""
    k = t[0]
    if k == "B":
        return ("B", name)
    if k in "CPLR":
        return (k, rebase(t[1], name))
    if k == "A":
        return ("A", t[1], rebase(t[2], name))
    return ("F", t[1], rebase(t[2], name), t[3])
