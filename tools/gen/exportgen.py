"""G-export: a multi-file header layout with ground truth for C04 (what must / must not be exported)."""

VIS = {"__published": 0, "public": 1, "protected": 2, "private": 3}

FILES = [  # (tag, path, local?)  how it is reached is fixed by the layout below
    ("Main", "main.h", True),          # named on the command line, in the working directory
    ("Sub", "sub/b.h", True),          # named on the command line, in a sub-directory
    ("Cwd", "cwdinc.h", True),         # #include "cwdinc.h" found in the working directory
    ("Inc", "inc/incdir.h", False),    # #include "incdir.h" found through -I inc
    ("Sys", "sys/sysdir.h", False),    # #include <sysdir.h> found through -S sys
    ("Bes", "sub/beside.h", False),    # #include "beside.h" found next to sub/b.h (not in cwd)
    ("Own", "sys/own.h", True),        # named on the command line AFTER main.h, which has already reached it as <own.h> through -S sys (#pragma once)
]


class Ent:
    def __init__(self, kind, name, attrs, cls=None):
        self.kind, self.name, self.attrs, self.cls = kind, name, attrs, cls     # kind: function method struct enum manifest element

    def op(self, min_vis):
        return "export %s %d %s" % (self.kind, min_vis, " ".join("%s=%s" % (k, int(v) if isinstance(v, bool) else v) for k, v in sorted(self.attrs.items())))


def gen_file(rng, tag, local):
    ents = []
    t = ""
    cname = tag + "C"
    sections = []
    members = []
    any_member_vis = []
    has_prot = rng.random() < 0.6
    hidden = rng.random() < 0.35
    nm = 0

    def add_member(vis_name, text, ent):
        members.append((vis_name, text))
        if ent is not None:
            ents.append(ent)
        any_member_vis.append(VIS[vis_name])

    if has_prot:
        add_member(rng.choice(["protected", "private"]), "class ProtT { public: int v; };", None)
        # public names for the non-public type: a signature spelled with them still involves it
        add_member("public", "typedef ProtT *ProtPtr;", None)
        add_member("public", "typedef ProtT ProtAlias;", None)
        add_member("public", "typedef ProtPtr ProtPtr2;", None)
    if hidden:
        # a private nested class with published members, referred to by a published data member of the outer class
        add_member("private", "class Hidden {\n  __published:\n    int peek();\n    int hidden_field;\n  };", None)
        add_member("__published", "Hidden _state;", None)
        ents.append(Ent("method", "%s::Hidden::peek" % cname, {"vis": 0, "local": local, "invprot": False, "hidden_class": True}, cname))
    for k in range(rng.randrange(2, 8)):
        vis_name = rng.choice(["__published", "__published", "public", "public", "protected", "private"])
        name = "m%s%d" % (tag.lower(), k)
        r = rng.random()
        attrs = {"vis": VIS[vis_name], "local": local}
        if r < 0.12:
            text = "static int %s(int a);" % name
            attrs["static"] = True
        elif r < 0.22:
            text = "int %s(int a) = delete;" % name
            attrs["deleted"] = True
        elif r < 0.3:
            text = "template<class T> int %s(T a);" % name
            attrs["template"] = True
        elif r < 0.4:
            text = "int %s(%s &&o);" % (name, cname)
            attrs["rvalue"] = True
        elif r < 0.52 and has_prot:
            text = "int %s(%s);" % (name, rng.choice(["ProtT *p", "ProtT *p", "ProtPtr p", "const ProtAlias &p", "ProtAlias *p", "ProtPtr2 p", "int a, ProtPtr p"]))
            attrs["invprot"] = True
        elif r < 0.6 and has_prot:
            text = "%s%s();" % (rng.choice(["ProtT *", "ProtPtr ", "ProtAlias *", "ProtPtr2 "]), name)
            attrs["invprot"] = True
        else:
            text = "int %s(int a, double b = 1.0);" % name
        add_member(vis_name, text, Ent("method", "%s::%s" % (cname, name), attrs, cname))
    has_region = rng.random() < 0.4
    if has_region:
        # a publish region inside a non-public section: what follows the region is as non-public as what preceded it
        sec = rng.choice(["private", "protected"])
        add_member(sec, "int before_%s();\n  __begin_publish\n  int inregion_%s();\n  __end_publish\n  int after_%s(int a);\n  int after2_%s;" % ((tag.lower(),) * 4), None)
        any_member_vis.append(0)
        ents.append(Ent("method", "%s::before_%s" % (cname, tag.lower()), {"vis": VIS[sec], "local": local}, cname))
        ents.append(Ent("method", "%s::inregion_%s" % (cname, tag.lower()), {"vis": 0, "local": local}, cname))
        ents.append(Ent("method", "%s::after_%s" % (cname, tag.lower()), {"vis": VIS[sec], "local": local}, cname))
        ents.append(Ent("element", "%s::after2_%s" % (cname, tag.lower()), {"vis": VIS[sec], "local": local, "global": False}, cname))
    # methods whose signatures involve a type a command file may ask to ignore, directly and through typedefs
    for k, sig in enumerate(["Res%s *r" % tag, "ResPtr%s p" % tag, "ResPtr2%s p" % tag, "ResAlias%s *a" % tag, "const ResPtr%s &p" % tag, "ResCPtr%s p" % tag]):
        if rng.random() < 0.4:
            vis_name = rng.choice(["__published", "__published", "public"])
            name = "res%s%d" % (tag.lower(), k)
            add_member(vis_name, "int %s(%s);" % (name, sig), Ent("method", "%s::%s" % (cname, name), {"vis": VIS[vis_name], "local": local, "res": True}, cname))
    for k in range(rng.randrange(0, 3)):
        vis_name = rng.choice(["__published", "public", "private"])
        name = "f%s%d" % (tag.lower(), k)
        add_member(vis_name, "int %s;" % name, Ent("element", "%s::%s" % (cname, name), {"vis": VIS[vis_name], "local": local, "global": False}, cname))
    if rng.random() < 0.5:
        vis_name = rng.choice(["__published", "public", "protected"])
        ename = "E%s" % tag
        add_member(vis_name, "enum %s { e%s_a, e%s_b };" % (ename, tag.lower(), tag.lower()), Ent("enum", "%s::%s" % (cname, ename), {"vis": VIS[vis_name], "local": local}, cname))
    if rng.random() < 0.3:
        vis_name = rng.choice(["public", "protected", "private"])
        add_member(vis_name, "~%s();" % cname, None)
        any_member_vis.pop()
    rng.shuffle(members)
    # a class needs its protected helper types declared before use
    members.sort(key=lambda m: 0 if m[1].startswith("class ") else 1 if m[1].startswith("typedef ProtT") else 2 if m[1].startswith("typedef ") else 3)
    cls_published = rng.random() < 0.25 and not has_region      # (publish regions do not nest)
    t += ("class Res%(t)s {\n__published:\n  int rv();\n};\ntypedef Res%(t)s *ResPtr%(t)s;\ntypedef ResPtr%(t)s ResPtr2%(t)s;\ntypedef Res%(t)s ResAlias%(t)s;\n"
          "typedef const Res%(t)s *ResCPtr%(t)s;\n") % {"t": tag}
    body = "class %s {\n" % cname
    for vis_name, text in members:
        body += "%s:\n  %s\n" % (vis_name, text)
    body += "};\n"
    cls_vis = 0 if cls_published else 1
    if cls_published:
        # inside a publish region `public:` means published
        for e in ents:
            if e.cls == cname and e.attrs.get("vis") == 1:
                e.attrs["vis"] = 0
        any_member_vis[:] = [0 if v == 1 else v for v in any_member_vis]
    if cls_published:
        t += "__begin_publish\n" + body + "__end_publish\n"
    else:
        t += body
    cls_ent = Ent("struct", cname, {"vis": cls_vis, "local": local, "member_vis": sorted(set(any_member_vis))})
    ents.append(cls_ent)
    # free functions, globals, enums, macros
    pub, plain = "", ""
    for k in range(rng.randrange(1, 4)):
        name = "fn%s%d" % (tag.lower(), k)
        published = rng.random() < 0.5
        static = rng.random() < 0.2
        rv = rng.random() < 0.1
        text = "%sint %s(%s);\n" % ("static " if static else "", name, ("%s &&o" % cname) if rv else "int a")
        ents.append(Ent("function", name, {"vis": 0 if published else 1, "local": local, "static": static, "rvalue": rv}))
        if published:
            pub += text
        else:
            plain += text
    for k in range(rng.randrange(0, 2)):
        name = "g%s%d" % (tag.lower(), k)
        published = rng.random() < 0.5
        ents.append(Ent("element", name, {"vis": 0 if published else 1, "local": local, "global": True}))
        if published:
            pub += "extern int %s;\n" % name
        else:
            plain += "extern int %s;\n" % name
    if rng.random() < 0.5:
        name = "GE%s" % tag
        published = rng.random() < 0.5
        ents.append(Ent("enum", name, {"vis": 0 if published else 1, "local": local}))
        text = "enum %s { ge%s_a };\n" % (name, tag.lower())
        if published:
            pub += text
        else:
            plain += text
    if pub:
        t += "__begin_publish\n" + pub + "__end_publish\n"
    t += plain
    mname = "MAC_%s" % tag.upper()
    t += "#define %s %d\n" % (mname, rng.randrange(1, 99))
    ents.append(Ent("manifest", mname, {"vis": 1, "local": local, "fnlike": False}))
    t += "#define MACF_%s(x) x\n" % tag.upper()
    ents.append(Ent("manifest", "MACF_%s" % tag.upper(), {"vis": 1, "local": local, "fnlike": True}))
    return t, ents


def gen_layout(rng):
    files = {}
    ents = []
    by_file = {}
    for tag, path, local in FILES:
        text, es = gen_file(rng, tag, local)
        files[path] = text
        ents += es
        by_file[path] = es
    files["main.h"] = '#include "cwdinc.h"\n#include "incdir.h"\n#include <sysdir.h>\n#include <own.h>\n' + files["main.h"]
    files["sys/own.h"] = "#pragma once\n" + files["sys/own.h"]
    files["sub/b.h"] = '#include "beside.h"\n' + files["sub/b.h"]
    # a command (.N) file next to main.h
    cmds = []
    if rng.random() < 0.7:
        local_methods = [e for e in ents if e.kind == "method" and e.attrs.get("local") and not e.attrs.get("hidden_class")]
        if local_methods and rng.random() < 0.7:
            victim = rng.choice(local_methods)
            simple = victim.name.rsplit("::", 1)[1]
            cmds.append("ignoremember " + simple)
            for e in ents:
                if e.kind == "method" and e.name.rsplit("::", 1)[1] == simple:
                    e.attrs["ignoremember"] = True
        if rng.random() < 0.4:
            cmds.append("ignorefile cwdinc.h")
            for e in by_file["cwdinc.h"]:
                e.attrs["local"] = False          # `_source != S_local || in_ignorefile(...)` is one guard
        if rng.random() < 0.4:
            rt = rng.choice(["ResMain", "ResSub"])
            cmds.append("ignoreinvolved " + rt)
            for e in ents:
                if e.attrs.get("res") and e.cls == rt[3:] + "C":
                    e.attrs["ignoreinvolved"] = True
        if rng.random() < 0.5:
            cls = rng.choice(["MainC", "SubC", "SubC"])       # SubC: a type of the *later* header named in the earlier header's command file
            cmds.append("ignoretype " + cls)
            for e in ents:
                if e.name == cls or e.cls == cls:
                    e.attrs["ignoretype"] = True
    if cmds:
        # the spellings a command file allows: leading blanks, trailing blanks / tabs / comments, CRLF line ends, blank and comment lines
        out = ""
        for c in cmds:
            if rng.random() < 0.3:
                out += rng.choice(["\n", "# a comment line\n", "   \n"])
            out += rng.choice(["", "", "  ", "\t"]) + c + rng.choice(["", "", "  ", "\t", "   # why", " #x", "\r", " \r"]) + "\n"
        if rng.random() < 0.3:
            out = out[:-1]          # the last line is not terminated by a newline (it ends in blanks, a comment or the parameter itself)
            out = out.rstrip("\r") if out.endswith("\r") else out
        files["main.N"] = out
    return files, ents
