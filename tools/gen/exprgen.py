"""G-expr: integer constant expressions with exact (Python int) C++ semantics, rendered with
minimal parentheses according to the C++ precedence table, plus s-expressions for the Lean model."""

INT_MIN, INT_MAX = -2 ** 31, 2 ** 31 - 1

# precedence (higher binds tighter), associativity
PREC = {"comma": (1, "l"), "tern": (3, "r"), "lor": (4, "l"), "land": (5, "l"), "bor": (6, "l"), "bxor": (7, "l"), "band": (8, "l"),
        "eq": (9, "l"), "ne": (9, "l"), "lt": (10, "l"), "gt": (10, "l"), "le": (10, "l"), "ge": (10, "l"),
        "shl": (12, "l"), "shr": (12, "l"), "add": (13, "l"), "sub": (13, "l"), "mul": (14, "l"), "div": (14, "l"), "mod": (14, "l")}
SYM = {"lor": "||", "land": "&&", "bor": "|", "bxor": "^", "band": "&", "eq": "==", "ne": "!=", "lt": "<", "gt": ">", "le": "<=", "ge": ">=",
       "shl": "<<", "shr": ">>", "add": "+", "sub": "-", "mul": "*", "div": "/", "mod": "%", "comma": ","}
UN = {"lnot": "!", "bnot": "~", "minus": "-", "plus": "+"}
CASTS = {"bool": "bool", "int": "int", "short": "short", "ushort": "unsigned short", "char": "char", "schar": "signed char",
         "uchar": "unsigned char", "uint": "unsigned int", "long": "long", "ulong": "unsigned long"}


class Undefined(Exception):
    pass


def in_int(x):
    return INT_MIN <= x <= INT_MAX


def chk(x):
    if not in_int(x):
        raise Undefined()
    return x


def wrapn(x, bits):
    m = 1 << bits
    x %= m
    return x - m if x >= m // 2 else x


def tdiv(a, b):
    q = abs(a) // abs(b)
    return q if (a >= 0) == (b >= 0) else -q


def cxx_eval(e):
    """exact C++ value or raise Undefined (out of int range / UB / unknown)"""
    k = e[0]
    if k == "int":
        return chk(e[1])
    if k == "bool":
        return 1 if e[1] else 0
    if k == "ref":
        return chk(e[2])
    if k == "unknown":
        raise Undefined()
    if k == "un":
        v = cxx_eval(e[2])
        return {"lnot": lambda: int(v == 0), "bnot": lambda: chk(-v - 1), "minus": lambda: chk(-v), "plus": lambda: v}[e[1]]()
    if k == "cast":
        v = cxx_eval(e[2])
        t = e[1]
        if t == "bool":
            return int(v != 0)
        if t in ("int", "long"):
            return v
        if t == "short":
            return wrapn(v, 16)
        if t == "ushort":
            return v % 65536
        if t in ("char", "schar"):
            return wrapn(v, 8)
        if t == "uchar":
            return v % 256
        if t in ("uint", "ulong"):
            if v < 0:
                raise Undefined()
            return v
    if k == "tern":
        c = cxx_eval(e[1])
        return cxx_eval(e[2]) if c != 0 else cxx_eval(e[3])
    if k == "bin":
        op = e[1]
        if op == "lor":
            a = cxx_eval(e[2])
            return 1 if a != 0 else int(cxx_eval(e[3]) != 0)
        if op == "land":
            a = cxx_eval(e[2])
            return 0 if a == 0 else int(cxx_eval(e[3]) != 0)
        a, b = cxx_eval(e[2]), cxx_eval(e[3])
        if op == "mul":
            return chk(a * b)
        if op in ("div", "mod"):
            if b == 0 or (a == INT_MIN and b == -1):
                raise Undefined()
            q = tdiv(a, b)
            return chk(q if op == "div" else a - q * b)
        if op == "add":
            return chk(a + b)
        if op == "sub":
            return chk(a - b)
        if op == "shl":
            if not (0 <= b < 32 and a >= 0):
                raise Undefined()
            return chk(a << b)
        if op == "shr":
            if not 0 <= b < 32:
                raise Undefined()
            return a >> b
        if op in ("lt", "gt", "le", "ge", "eq", "ne"):
            return int({"lt": a < b, "gt": a > b, "le": a <= b, "ge": a >= b, "eq": a == b, "ne": a != b}[op])
        if op == "band":
            return wrapn((a & 0xffffffff) & (b & 0xffffffff), 32)
        if op == "bor":
            return wrapn((a & 0xffffffff) | (b & 0xffffffff), 32)
        if op == "bxor":
            return wrapn((a & 0xffffffff) ^ (b & 0xffffffff), 32)
        if op == "comma":
            return b
    raise Undefined()


def lit_text(rng, n):
    """a spelling of the non-negative integer literal n"""
    r = rng.random()
    if r < 0.45 or n > INT_MAX:
        s = str(n)
        if n >= 1000 and rng.random() < 0.3:
            s = s[:-3] + "'" + s[-3:]
        return s
    if r < 0.65:
        return "0x%X" % n if rng.random() < 0.5 else "0x%x" % n
    if r < 0.78:
        return "0%o" % n if n else "0"
    if r < 0.9:
        b = bin(n)[2:]
        if len(b) > 4 and rng.random() < 0.4:
            b = b[:-4] + "'" + b[-4:]
        return "0b" + b
    if 32 < n < 127 and chr(n) not in "'\\":
        return "'%s'" % chr(n)
    if n == 10:
        return "'\\n'"
    if n < 256:
        return rng.choice(["'\\x%x'" % n, "'\\%o'" % n]) if n < 128 else str(n)
    return str(n)


def text(e, rng=None, parent=0, side=None):
    """C++ text with minimal parentheses; rng adds spelling variety and occasional redundant parentheses"""
    k = e[0]
    if k == "int":
        n = e[1]
        if n < 0:
            s = "-" + (e[2] if len(e) > 2 else str(-n))
            return "(%s)" % s if parent >= 15 else s
        return e[2] if len(e) > 2 else str(n)
    if k == "bool":
        return "true" if e[1] else "false"
    if k == "ref":
        return e[1]
    if k == "unknown":
        return "some_unknown_identifier"
    if k == "un":
        inner = text(e[2], rng, 15)
        if inner.startswith(("-", "+", "~", "!")) and UN[e[1]] in "+-":
            inner = " " + inner
        s = UN[e[1]] + inner
        return "(%s)" % s if parent > 15 else s
    if k == "cast":
        if e[1] in ("int", "short", "bool") and rng is not None and rng.random() < 0.3:
            return "static_cast<%s>(%s)" % (CASTS[e[1]], text(e[2], rng, 0))
        s = "(%s)%s" % (CASTS[e[1]], text(e[2], rng, 15))
        return "(%s)" % s if parent > 15 else s
    if k == "tern":
        p, _ = PREC["tern"]
        s = "%s ? %s : %s" % (text(e[1], rng, p + 1), text(e[2], rng, 0), text(e[3], rng, p))
        return "(%s)" % s if parent >= p or parent > 0 and side == "l" else s
    if k == "bin":
        p, assoc = PREC[e[1]]
        l = text(e[2], rng, p if assoc == "l" else p + 1, "l")
        r = text(e[3], rng, p + 1 if assoc == "l" else p, "r")
        s = "%s %s %s" % (l, SYM[e[1]], r)
        need = parent > p      # `parent` is already the threshold: p for the operand on the associative side, p + 1 for the other one
        # g++ warns but accepts; keep text unambiguous for both tools
        if need or (rng is not None and rng.random() < 0.1) or e[1] == "comma":
            return "(%s)" % s
        return s
    raise ValueError(k)


def sexpr(e):
    k = e[0]
    if k == "int":
        return "( int %d )" % e[1]
    if k == "bool":
        return "( bool %d )" % (1 if e[1] else 0)
    if k == "ref":
        return "( int %d )" % e[2]       # the model evaluates the constant's initializer: its value
    if k == "unknown":
        return "( unknown )"
    if k == "un":
        return "( un %s %s )" % (e[1], sexpr(e[2]))
    if k == "cast":
        return "( cast %s %s )" % (e[1], sexpr(e[2]))
    if k == "tern":
        return "( tern %s %s %s )" % (sexpr(e[1]), sexpr(e[2]), sexpr(e[3]))
    if k == "bin":
        return "( bin %s %s %s )" % (e[1], sexpr(e[2]), sexpr(e[3]))


BOUNDARY = [0, 1, 2, 3, 7, 8, 15, 16, 31, 32, 255, 256, 65535, 65536, 70000, 2 ** 30, INT_MAX, INT_MAX - 1, 100, 1000, 12345]


def gen(rng, depth, refs=(), allow_comma=False):
    if depth <= 0 or rng.random() < 0.2:
        r = rng.random()
        if refs and r < 0.25:
            name, val = rng.choice(refs)
            return ("ref", name, val)
        if r < 0.3:
            return ("bool", rng.random() < 0.5)
        n = rng.choice(BOUNDARY) if rng.random() < 0.6 else rng.randrange(0, 200)
        return ("int", n, lit_text(rng, n))
    r = rng.random()
    if r < 0.15:
        return ("un", rng.choice(list(UN)), gen(rng, depth - 1, refs))
    if r < 0.25:
        # only casts whose result promotes back to int may have parents (a cast to unsigned/long changes the arithmetic type)
        return ("cast", rng.choice(["bool", "int", "short", "ushort", "char", "schar", "uchar"]), gen(rng, depth - 1, refs))
    if r < 0.33:
        return ("tern", gen(rng, depth - 1, refs), gen(rng, depth - 1, refs), gen(rng, depth - 1, refs))
    ops = [o for o in PREC if o not in ("tern", "comma")] + (["comma"] if allow_comma else [])
    return ("bin", rng.choice(ops), gen(rng, depth - 1, refs), gen(rng, depth - 1, refs))


def gen_valid(rng, depth, refs=(), positive=False, tries=200):
    """an expression C++ assigns an in-range value (optionally > 0)"""
    for _ in range(tries):
        e = gen(rng, depth, refs)
        r = rng.random()
        if r < 0.08:
            e = ("cast", rng.choice(["uint", "long", "ulong"]), e)        # wide/unsigned casts only outermost
        elif r < 0.12 and e[0] == "int" and e[1] > 0:
            e = ("int", e[1], str(e[1]) + rng.choice(["u", "l", "ul", "ll", "U", "LL"]))   # suffixed literal, standing alone
        try:
            v = cxx_eval(e)
        except Undefined:
            continue
        if positive and not (0 < v < 5000):
            continue
        return e, v
    return ("int", 1, "1"), 1
