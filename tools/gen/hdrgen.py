"""G-hdr: generator of C++ headers in interrogate's supported subset, with a ground-truth
description of what was written (classes, bases, sections, members, defaults, enums, ...)."""

SCALARS = ["int", "unsigned int", "short", "unsigned short", "long", "unsigned long", "long long",
           "unsigned long long", "char", "signed char", "unsigned char", "bool", "float", "double"]
SECTIONS = ["__published", "public", "protected", "private"]


class Param:
    def __init__(self, ty, name, default=None):
        self.ty, self.name, self.default = ty, name, default

    def decl(self):
        s = "%s %s" % (self.ty, self.name) if not self.ty.endswith(("*", "&")) else "%s%s" % (self.ty, self.name)
        if self.default is not None:
            s += " = " + self.default
        return s


class Method:
    def __init__(self, name, ret, params, section, static=False, const=False, virtual=False, pure=False,
                 comment=None, kind="method", deleted=False, explicit=False):
        self.name, self.ret, self.params, self.section = name, ret, params, section
        self.static, self.const, self.virtual, self.pure = static, const, virtual, pure
        self.comment, self.kind, self.deleted, self.explicit = comment, kind, deleted, explicit
        self.overrides = False      # repeats the signature of a virtual function of a (direct or indirect, any access) base without `virtual`

    def n_defaults(self):
        return sum(1 for p in self.params if p.default is not None)

    def decl(self, cls):
        out = ""
        if self.comment:
            out += "  /** %s */\n" % self.comment
        s = "  "
        if self.static:
            s += "static "
        if self.virtual:
            s += "virtual "
        if self.explicit:
            s += "explicit "
        if self.kind == "ctor":
            s += "%s(%s)" % (cls, ", ".join(p.decl() for p in self.params))
        elif self.kind == "dtor":
            s += "~%s()" % cls
        else:
            s += "%s %s(%s)" % (self.ret, self.name, ", ".join(p.decl() for p in self.params))
        if self.const:
            s += " const"
        if self.pure:
            s += " = 0"
        if self.deleted:
            s += " = delete"
        return out + s + ";\n"


class Field:
    def __init__(self, ty, name, section, static=False, comment=None):
        self.ty, self.name, self.section, self.static, self.comment = ty, name, section, static, comment

    def decl(self):
        out = ("  /// %s\n" % self.comment) if self.comment else ""
        return out + "  %s%s %s;\n" % ("static " if self.static else "", self.ty, self.name)


class Enum:
    def __init__(self, name, values, section, scoped=False):
        self.name, self.values, self.section, self.scoped = name, values, section, scoped  # values: [(name, explicit or None, actual)]

    def decl(self, indent="  "):
        vs = ", ".join(n if e is None else "%s = %s" % (n, e) for n, e, _ in self.values)
        return "%senum %s%s { %s };\n" % (indent, "class " if self.scoped else "", self.name, vs)


class Class:
    def __init__(self, name, kind="class"):
        self.name, self.kind = name, kind
        self.bases = []      # (name, access, virtual)
        self.items = []      # ordered: Method | Field | Enum | ("section", name)
        self.comment = None

    def methods(self):
        return [i for i in self.items if isinstance(i, Method)]

    def fields(self):
        return [i for i in self.items if isinstance(i, Field)]

    def enums(self):
        return [i for i in self.items if isinstance(i, Enum)]

    def text(self):
        out = ""
        if self.comment:
            out += "/**\n * %s\n */\n" % self.comment
        out += "%s %s" % (self.kind, self.name)
        if self.bases:
            # both orders of the access specifier and `virtual` ([class.derived]: `public virtual B` / `virtual public B`)
            out += " : " + ", ".join(("virtual %s %s" % (a, b) if v and (len(b) + len(self.name) + i) % 2 else "%s%s %s" % (a, " virtual" if v else "", b))
                                      for i, (b, a, v) in enumerate(self.bases))
        out += " {\n"
        cur = None
        for it in self.items:
            if it.section != cur:
                out += "%s:\n" % it.section
                cur = it.section
            out += it.decl(self.name) if isinstance(it, Method) else it.decl()
        out += "};\n\n"
        return out


class Header:
    def __init__(self):
        self.classes = []
        self.functions = []   # (Method, published: bool)
        self.globals = []     # (type, name, published)
        self.macros = []      # (name, body, int value or None)
        self.typedefs = []    # (alias, target)
        self.includes = []

    def text(self):
        out = "#ifndef GEN_H\n#define GEN_H\n"
        for inc in self.includes:
            out += "#include %s\n" % inc
        out += "\n"
        for n, b, _ in self.macros:
            out += "#define %s %s\n" % (n, b)
        for c in self.classes:
            out += "class %s;\n" % c.name
        out += "\n"
        for c in self.classes:
            out += c.text()
        for a, t in self.typedefs:
            out += "typedef %s %s;\n" % (t, a)
        pub = [f for f, p in self.functions if p]
        npub = [f for f, p in self.functions if not p]
        if pub or any(p for _, _, p in self.globals):
            out += "__begin_publish\n"
            for f in pub:
                out += f.decl("").replace("  ", "", 1) if not f.comment else f.decl("")
            for t, n, p in self.globals:
                if p:
                    out += "extern %s %s;\n" % (t, n)
            out += "__end_publish\n"
        for f in npub:
            out += f.decl("").replace("  ", "", 1)
        for t, n, p in self.globals:
            if not p:
                out += "extern %s %s;\n" % (t, n)
        out += "#endif\n"
        return out


WORDS = ["alpha", "beta", "gamma", "delta", "node", "item", "value", "count", "size", "name", "mode", "flag", "index", "weight"]


def _cls(h, n):
    return next(x for x in h.classes if x.name == n)


def all_ancestors(h, c):
    out = set()
    for b, _, _ in c.bases:
        out |= {b} | all_ancestors(h, _cls(h, b))
    return out


def hidden_ancestors(h, c):
    """ancestors whose name (and member types) cannot be used inside c: reached through a private edge below a direct base"""
    def reach(bn):
        out = set()
        for b2, acc2, _ in _cls(h, bn).bases:
            if acc2 in ("public", "protected"):
                out |= {b2} | reach(b2)
        return out
    ok = set()
    for b, _, _ in c.bases:
        ok |= {b} | reach(b)
    return all_ancestors(h, c) - ok


def gen_header(rng, n_classes=3, sections=("__published", "public"), allow_inherit=True, allow_virtual=True,
               allow_defaults=True, allow_static=True, allow_enum=True, allow_fields=True, scalars=None,
               allow_class_params=True, allow_cstr=True, comments=0.3, prefix="K"):
    h = Header()
    scal = scalars or SCALARS
    names = []
    for ci in range(n_classes):
        c = Class("%s%d%s" % (prefix, ci, rng.choice(WORDS).capitalize()))
        if rng.random() < comments:
            c.comment = "class comment %d" % ci
        if allow_inherit and names and rng.random() < 0.6:
            nb = 1 if rng.random() < 0.75 else 2
            def ancestors(n):
                bc = next(x for x in h.classes if x.name == n)
                out = set()
                for b, _, _ in bc.bases:
                    out |= {b} | ancestors(b)
                return out
            for b in rng.sample(names, min(nb, len(names))):
                # a second base must not share a base-class sub-object with the first (ambiguous base: casts to it are ill-formed)
                if any((ancestors(b) | {b}) & (ancestors(x) | {x}) for x, _, _ in c.bases):
                    continue
                c.bases.append((b, rng.choice(["public", "public", "public", "protected", "private"]), False))
        used = set()

        def fresh(base):
            k = 0
            n = base
            while n in used:
                k += 1
                n = "%s%d" % (base, k)
            used.add(n)
            return n

        enums = []
        if allow_enum and rng.random() < 0.6:
            vals = []
            cur = -1
            for k in range(rng.randrange(1, 5)):
                if rng.random() < 0.4:
                    cur = rng.choice([0, 1, 5, 16, 100, -3])
                    vals.append(("E%d_%s" % (ci, fresh("v")), str(cur), cur))
                else:
                    cur += 1
                    vals.append(("E%d_%s" % (ci, fresh("v")), None, cur))
            e = Enum("Kind%d" % ci, vals, rng.choice(sections))
            enums.append(e)
            c.items.append(e)

        def rtype(ret=False):
            r = rng.random()
            if r < 0.55:
                return rng.choice(scal)
            if r < 0.65 and enums and enums[0].section in ("__published", "public"):
                return enums[0].name
            if r < 0.75 and allow_cstr:
                return "const char *"
            if allow_class_params and names:
                t = rng.choice([n for n in names if n not in hidden_ancestors(h, c)] + [c.name])
                return rng.choice(["%s *", "const %s *", "const %s &", "%s &"]) % t
            return rng.choice(scal)

        def default_for(ty):
            if ty in ("float", "double"):
                return rng.choice(["1.0", "0.5", "2.5"])
            if ty == "bool":
                return rng.choice(["true", "false"])
            if ty == "const char *":
                return rng.choice(["nullptr", '"text"', '"a*/b"', '"q\\"uote"', '""', '"tab\\t"'])
            if ty.endswith("*"):
                return "nullptr"
            if ty.endswith("&"):
                return None
            if ty.startswith("Kind"):
                return None
            return rng.choice(["0", "1", "3", "7"])

        def params():
            ps = []
            n = rng.choice([0, 0, 1, 1, 2, 3])
            for k in range(n):
                ps.append(Param(rtype(), rng.choice(WORDS) + str(k)))
            if allow_defaults and ps:
                nd = rng.choice([0, 0, 1, 2])
                for p in reversed(ps[-nd:] if nd else []):
                    d = default_for(p.ty)
                    if d is None:
                        break
                    p.default = d
                # defaults must be trailing
                seen_nodefault = False
                for p in reversed(ps):
                    if p.default is None:
                        seen_nodefault = True
                    elif seen_nodefault:
                        p.default = None
            return ps

        # constructors
        if rng.random() < 0.7:
            ps = params()
            if rng.random() < 0.3:
                # a constructor whose first parameter is the class itself: a copy constructor exactly if every further parameter has a
                # default argument ([class.copy.ctor]/1)
                extra = [Param("int", "idx"), Param("bool", "deep")][:rng.choice([1, 2])]
                mode = rng.choice(["all-defaulted", "last-defaulted", "none-defaulted"])
                for k, q in enumerate(extra):
                    if mode == "all-defaulted" or (mode == "last-defaulted" and k == len(extra) - 1):
                        q.default = "3" if q.ty == "int" else "true"
                ps = [Param("const %s &" % c.name, "src")] + extra
            c.items.append(Method(c.name, None, ps, rng.choice(sections), kind="ctor"))
        if rng.random() < 0.3:
            c.items.append(Method("~" + c.name, None, [], rng.choice(sections), kind="dtor", virtual=allow_virtual and rng.random() < 0.5))
        sigs = set()
        # names of the methods of all (direct and indirect) bases: a method of the same name is only generated as a faithful overrider below
        base_names = set()
        todo = [b for b, _, _ in c.bases]
        while todo:
            bn = todo.pop()
            bc = next(x for x in h.classes if x.name == bn)
            base_names |= {bm.name for bm in bc.methods()}
            todo += [b for b, _, _ in bc.bases]
        for k in range(rng.randrange(1, 6)):
            nm = rng.choice(["get_", "set_", "do_", "is_", "compute_"]) + rng.choice(WORDS)
            if nm in base_names:
                continue
            ps = params()
            sig = (nm, tuple(p.ty for p in ps))
            # avoid ambiguous overloads: distinct arities per name
            if any(s[0] == nm for s in sigs):
                continue
            sigs.add(sig)
            st = allow_static and rng.random() < 0.15
            m = Method(nm, rng.choice(["void", rtype(True), rtype(True)]), ps, rng.choice(sections),
                       static=st, const=(not st and rng.random() < 0.4),
                       virtual=(not st and allow_virtual and rng.random() < 0.2),
                       comment=("doc of %s::%s" % (c.name, nm)) if rng.random() < comments else None)
            c.items.append(m)
        # overriders that do not repeat `virtual`: virtual all the same, through a base of any access
        if allow_virtual and c.bases:
            cands = []
            todo = [b for b, _, _ in c.bases]
            while todo:
                bn = todo.pop()
                bc = next(x for x in h.classes if x.name == bn)
                hid = hidden_ancestors(h, c)
                for bm in bc.methods():
                    tys = [bm.ret or ""] + [p.ty for p in bm.params]
                    import re as _re
                    enum_owners = {h.classes[int(k)].name for t in tys for k in _re.findall(r"Kind(\d+)", t)}
                    usable = not (enum_owners & hid)      # a base's member enum must be nameable here
                    usable = usable and not any(hn in t for t in tys for hn in hid)
                    if bm.kind == "method" and (bm.virtual or bm.overrides) and not bm.static and usable:
                        cands.append(bm)
                todo += [b for b, _, _ in bc.bases]
            rng.shuffle(cands)
            for bm in cands[:rng.choice([0, 1, 1, 2])]:
                if any(s[0] == bm.name for s in sigs):
                    continue
                sigs.add((bm.name, tuple(p.ty for p in bm.params)))
                m = Method(bm.name, bm.ret, [Param(p.ty, p.name) for p in bm.params], rng.choice(sections), const=bm.const,
                           virtual=rng.random() < 0.3, comment=("doc of %s::%s" % (c.name, bm.name)) if rng.random() < comments else None)
                m.overrides = True
                c.items.append(m)
        if allow_fields:
            for k in range(rng.randrange(0, 3)):
                c.items.append(Field(rng.choice(scal), "_" + fresh(rng.choice(WORDS)), rng.choice(sections),
                                     comment=("field doc %d" % k) if rng.random() < comments else None))
        # order sections randomly but keep each item's section
        rng.shuffle(c.items)
        # enums must precede their use
        c.items.sort(key=lambda it: 0 if isinstance(it, Enum) else 1)
        h.classes.append(c)
        names.append(c.name)
    for k in range(rng.randrange(0, 3)):
        ps = [Param(rng.choice(scal), "a%d" % j) for j in range(rng.randrange(0, 3))]
        h.functions.append((Method("free_fn%d" % k, rng.choice(["void", "int", "double"]), ps, None), rng.random() < 0.7))
    for k in range(rng.randrange(0, 2)):
        h.globals.append((rng.choice(["int", "double"]), "g_var%d" % k, rng.random() < 0.7))
    for k in range(rng.randrange(0, 3)):
        v = rng.choice([0, 1, 42, 255, 1024])
        h.macros.append(("GEN_MACRO_%d" % k, str(v), v))
    return h
