"""G-mac: macro programs over the feature grammar of C08 (object-/function-like, nesting, multi-line calls, #, ##,
__VA_ARGS__, __VA_OPT__, self reference, #undef/redefinition, push_macro/pop_macro)."""
import re

IDS = ["alpha", "beta", "x1", "y2", "zed"]
NUMS = ["0", "1", "42", "7", "15", "3.5"]      # parse_file -E prints numbers by value: keep spellings canonical
PUNCT = ["+", "-", "*", "/", "<<", "==", "&&", ","]      # (":" "." are printed without spaces by parse_file -E: two of them would re-lex as one token)
LITS = ['"s"', '"a b"', '"q\\"r"', '"back\\\\slash"', "'c'", "'\\''", "'\"'", '"it\'s"', '"x,y"', '"(p)"', '""',
        '"http://host/a"', '"/*"', '"*/"', '"a /* b */ c"', '"// not a comment"', "'/'", '"#define"', '"\\\\"']     # comment openers and directive names inside literals

TOK = re.compile(r"""[A-Za-z_][A-Za-z0-9_]*|\.?\d(?:[eEpP][+-]|[\w.'])*|"(?:\\.|[^"\\\n])*"|'(?:\\.|[^'\\\n])*'|<<=|>>=|<=>|->\*|\.\.\.|::|->|\+\+|--|<<|>>|<=|>=|==|!=|&&|\|\||\+=|-=|\*=|/=|%=|&=|\|=|\^=|##|\S""")


def tokenize(s):
    return TOK.findall(s)


class Prog:
    def __init__(self):
        self.lines = []
        self.macros = {}     # name -> (params|None, variadic)
        self.features = set()
        self.live = {}       # statement label -> the macros defined where that statement stands (name -> (params|None, variadic))


def gen_tokens(rng, prog, params, depth, allow_calls=True, n=None):
    out = []
    for _ in range(n if n is not None else rng.randrange(1, 5)):
        r = rng.random()
        if params and r < 0.35:
            out.append(rng.choice(params))
        elif r < 0.5:
            out.append(rng.choice(IDS))
        elif r < 0.62:
            out.append(rng.choice(NUMS))
        elif r < 0.72:
            out.append(rng.choice(PUNCT))
        elif r < 0.8:
            out.append(rng.choice(LITS))
            prog.features.add("literal")
        elif r < 0.86 and depth > 0:
            out += ["("] + gen_tokens(rng, prog, params, depth - 1, allow_calls) + [")"]
        elif allow_calls and prog.macros and depth > 0:
            out += gen_call(rng, prog, params, depth - 1)
        else:
            out.append(rng.choice(IDS))
    return out


def gen_arg(rng, prog, params, depth):
    r = rng.random()
    if r < 0.08:
        prog.features.add("empty-arg")
        return []
    if r < 0.2:
        prog.features.add("paren-comma-arg")
        return ["(", rng.choice(IDS), ",", rng.choice(NUMS), ")"]
    toks = [t for t in gen_tokens(rng, prog, params, depth) if t != ","]
    return toks or [rng.choice(IDS)]


def gen_call(rng, prog, params, depth, name=None):
    name = name or rng.choice(sorted(prog.macros))
    ps, variadic = prog.macros[name]
    if ps is None:
        return [name]
    nargs = len(ps)
    args = [gen_arg(rng, prog, params, depth) for _ in range(nargs)]
    if variadic:
        extra = rng.choice([0, 0, 1, 2, 3])
        if extra == 0:
            prog.features.add("variadic-empty")
        args += [gen_arg(rng, prog, params, depth) or [rng.choice(NUMS)] for _ in range(extra)]
    if nargs == 0 and not variadic:
        return [name, "(", ")"]
    if nargs == 1 and not variadic and args == [[]]:
        return [name, "(", ")"]
    out = [name, "("]
    for i, a in enumerate(args):
        if i:
            out.append(",")
        out += a
    out.append(")")
    prog.features.add("call")
    return out


def gen_program(rng, n_defs=None, allow=("obj", "fn", "hash", "paste", "va", "vaopt", "self", "undef", "push", "multiline", "literals")):
    p = Prog()
    n_defs = n_defs or rng.randrange(2, 7)
    names = ["M%d" % i for i in range(n_defs)]
    for i, name in enumerate(names):
        kind = rng.choice(["obj", "obj", "fn", "fn", "fn"]) if "fn" in allow else "obj"
        if kind == "obj":
            body = gen_tokens(rng, p, [], 2)
            if "self" in allow and rng.random() < 0.15:
                body.insert(rng.randrange(len(body) + 1), name)
                p.features.add("self-reference")
            if rng.random() < 0.2 and i + 1 < len(names) and "self" in allow:
                body.append(names[i + 1])          # forward reference: may close a cycle later
                p.features.add("forward-reference")
            p.lines.append("#define %s %s" % (name, " ".join(body)))
            p.macros[name] = (None, False)
        else:
            k = rng.choice([0, 1, 1, 2, 2, 3])
            params = ["p%d" % j for j in range(k)]
            variadic = "va" in allow and rng.random() < 0.25
            body = gen_tokens(rng, p, params, 2)
            if "hash" in allow and params and rng.random() < 0.3:
                body += ["#", rng.choice(params)]
                p.features.add("stringify")
            if "paste" in allow and params and rng.random() < 0.3:
                left = rng.choice(params + IDS)
                right = rng.choice(params + IDS + ["1", "x"])
                body += [left, "##", right]
                p.features.add("paste")
            if variadic:
                r = rng.random()
                if r < 0.4:
                    body += ["__VA_ARGS__"]
                elif r < 0.6 and "hash" in allow:
                    body += ["#", "__VA_ARGS__"]
                    p.features.add("stringify-va")
                elif r < 0.8 and "vaopt" in allow:
                    body += ["__VA_OPT__", "(", ",", "__VA_ARGS__", ")"]
                    p.features.add("va_opt")
                else:
                    body += [",", "##", "__VA_ARGS__"]
                    p.features.add("comma-paste-va")
                p.features.add("variadic")
            if "self" in allow and rng.random() < 0.1:
                body += [name, "(", ")"] if k == 0 and not variadic else [name]
                p.features.add("self-reference")
            plist = ", ".join(params + (["..."] if variadic else []))
            text = "#define %s(%s) %s" % (name, plist, " ".join(body))
            if "multiline" in allow and rng.random() < 0.15 and len(body) > 2:
                # continue the definition on a second line, between two tokens (never inside a literal)
                k = rng.randrange(1, len(body))
                text = "#define %s(%s) %s \\\n   %s" % (name, plist, " ".join(body[:k]), " ".join(body[k:]))
                p.features.add("continued-define")
            p.lines.append(text)
            p.macros[name] = (params, variadic)
        # interleave uses, #undef, redefinition, push/pop
        if rng.random() < 0.5:
            use = gen_tokens(rng, p, [], 2)
            p.live["use%d" % len(p.lines)] = dict(p.macros)
            p.lines.append("use%d = %s ;" % (len(p.lines), " ".join(use)))
        r = rng.random()
        if "undef" in allow and r < 0.08 and p.macros:
            victim = rng.choice(sorted(p.macros))
            p.lines.append("#undef %s" % victim)
            del p.macros[victim]
            p.features.add("undef")
        elif "push" in allow and r < 0.2 and p.macros:
            victim = rng.choice(sorted(p.macros))
            form = rng.choice(["redefine", "redefine", "redefine-in-place", "undef-only", "undefined-name", "nested", "untouched"])
            if form == "undefined-name":
                victim = "NEVER_DEFINED_%d" % len(p.lines)
            p.lines.append('#pragma push_macro("%s")' % victim)
            if form in ("redefine", "undef-only", "nested"):
                p.lines.append("#undef %s" % victim)
            if form in ("redefine", "undefined-name", "nested", "redefine-in-place"):     # (in place: no #undef before the new definition)
                p.lines.append("#define %s pushed_%s" % (victim, victim))
            if form == "nested":
                p.lines.append('#pragma push_macro("%s")' % victim)
                p.lines.append("#undef %s" % victim)
                p.lines.append("#define %s pushed_twice_%s" % (victim, victim))
                p.live["deep%d" % len(p.lines)] = dict(p.macros, **{victim: (None, False)})
                p.lines.append("deep%d = %s ;" % (len(p.lines), victim))
                p.lines.append('#pragma pop_macro("%s")' % victim)
            mid_live = dict(p.macros)
            if form in ("redefine", "undefined-name", "nested", "redefine-in-place"):
                mid_live[victim] = (None, False)
            elif form == "undef-only":
                mid_live.pop(victim, None)
            p.live["mid%d" % len(p.lines)] = mid_live
            p.lines.append("mid%d = %s ;" % (len(p.lines), victim))
            p.lines.append('#pragma pop_macro("%s")' % victim)
            p.live["post%d" % len(p.lines)] = dict(p.macros)
            p.lines.append("post%d = %s ;" % (len(p.lines), victim))     # the definition in force before the push is back (or none)
            if form == "redefine-in-place" and victim in p.macros:
                # the restored definition is used, then replaced once more without #undef
                p.lines.append("#define %s again_%s" % (victim, victim))
                p.macros[victim] = (None, False)
                p.live["again%d" % len(p.lines)] = dict(p.macros)
                p.lines.append("again%d = %s ;" % (len(p.lines), victim))
            p.features.add("push_pop")
            p.features.add("push_pop-" + form)
    for j in range(rng.randrange(2, 6)):
        use = []
        for _ in range(rng.randrange(1, 4)):
            if p.macros and rng.random() < 0.8:
                use += gen_call(rng, p, [], 2)
            else:
                use += gen_tokens(rng, p, [], 1)
        calls = [i for i in range(len(use) - 1) if use[i] in p.macros and use[i + 1] == "("]
        if "multiline" in allow and calls and rng.random() < 0.3:
            i = rng.choice(calls)
            use = list(use)
            if rng.random() < 0.5:
                use[i + 1] = "\n  ("          # the parenthesis on a later line than the macro name
            depth = 0
            for k in range(i + 1, len(use)):
                if use[k].strip() == "(":
                    depth += 1
                elif use[k] == ")":
                    depth -= 1
                    if depth == 0:
                        break
                elif use[k] == "," and depth == 1:
                    use[k] = ",\n   "
                    break
            p.features.add("multiline-call")
        text = " ".join(use)
        p.live["out%d" % j] = dict(p.macros)
        p.lines.append("out%d = %s ;" % (j, text))
    return p


def text(p):
    return "\n".join(p.lines) + "\n"
