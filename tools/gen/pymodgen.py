"""G-pymod: class libraries for the Python-native back-end together with a Python-side oracle.

Every C++ body is a small integer formula, and the generator emits the same formula as Python, so that the expected result of
`obj.method(args)` (which overload C++ overload resolution runs, with which defaults) is computed independently of interrogate."""

KEYWORD_NAMES = ["pass", "global", "lambda", "None", "is"]

# overload signatures distinguishable by Python type category; (tag, C++ params, python arg builders, python formula)
OVER = [
    ("i", "int a", ["int"], lambda a: a),
    ("d", "double a", ["float"], lambda a: int(a * 2)),
    ("s", "const std::string &a", ["str"], lambda a: len(a)),
    ("ii", "int a, int b", ["int", "int"], lambda a, b: a * 10 + b),
    ("id", "int a, double b", ["int", "float"], lambda a, b: a * 10 + int(b * 2)),
    ("si", "const std::string &a, int b", ["str", "int"], lambda a, b: len(a) * 10 + b),
    ("", "", [], lambda: 0),
]
OVER_BODY = {"i": "a", "d": "(int)(a * 2)", "s": "(int)a.size()", "ii": "a * 10 + b", "id": "a * 10 + (int)(b * 2)", "si": "(int)a.size() * 10 + b", "": "0"}


class Cls:
    def __init__(self, name, base):
        self.name, self.base = name, base
        self.default_v = 1
        self.overs = []         # [(tag index in OVER) or ('K', class name)]
        self.defs = (7, 9)
        self.kw_beta = 2
        self.keyword = None
        self.who = 0
        self.enum_vals = [("M%s_a" % name, 0), ("M%s_b" % name, 3)]
        self.scoped_enum = False


def gen_module(rng, modname="tmod"):
    header.conv = rng.choice(["str", "int"])
    n = rng.randrange(1, 4)
    classes = []
    for i in range(n):
        c = Cls("K%d" % i, classes[-1].name if classes and rng.random() < 0.6 else None)
        c.default_v = rng.randrange(1, 9)
        k = rng.randrange(2, 6)
        picks = rng.sample(range(len(OVER)), k)
        c.overs = [("sig", p) for p in picks]
        if classes and rng.random() < 0.7:
            c.overs.append(("obj", rng.choice(classes).name))
        elif rng.random() < 0.5:
            c.overs.append(("obj", c.name))
        c.defs = (rng.randrange(1, 9), rng.randrange(1, 9))
        c.kw_beta = rng.randrange(1, 9)
        c.keyword = rng.choice(KEYWORD_NAMES) if rng.random() < 0.6 else None
        c.who = (i + 1) * 100
        c.scoped_enum = rng.random() < 0.3
        classes.append(c)
    return classes


def header(classes):
    if not hasattr(header, "conv"):
        header.conv = "str"
    h = "#ifndef T_H\n#define T_H\n#include \"dtoolbase.h\"\n#include <string>\n#include <map>\n#include <vector>\nextern int g_live;\n"
    for c in classes:
        base = " : public %s" % c.base if c.base else ""
        n = c.name
        h += "class %s%s {\nPUBLISHED:\n" % (n, base)
        h += "  explicit %s(int v = %d) : %s_w(v) { ++g_live; for (int i = 0; i < 4; ++i) _slots[i] = v * 10 + i; }\n" % (n, c.default_v, ("%s(v), " % c.base) if c.base else "")
        h += "  %s(const %s &o) : %s_w(o._w) { ++g_live; for (int i = 0; i < 4; ++i) _slots[i] = o._slots[i]; }\n" % (n, n, ("%s(o), " % c.base) if c.base else "")
        h += "  virtual ~%s() { --g_live; }\n" % n
        h += "  int get_w() const { return _w; }\n  void set_w(int w) { _w = w; }\n  MAKE_PROPERTY(w, get_w, set_w);\n"
        h += "  virtual int who() const { return %d + _w; }\n" % c.who
        for kind, x in c.overs:
            if kind == "sig":
                tag, params, _, _ = OVER[x]
                h += "  int over_%s(%s) { return %d + %s; }\n" % (n.lower(), params, (x + 1) * 100000, OVER_BODY[tag])
            else:
                h += "  int over_%s(const %s &o) { return 900000 + o.get_w(); }\n" % (n.lower(), x)
        h += "  int defs_%s(int a, int b = %d, int c = %d) const { return a * 100 + b * 10 + c; }\n" % (n.lower(), c.defs[0], c.defs[1])
        h += "  int kw_%s(int alpha, int beta = %d) const { return alpha * 10 + beta; }\n" % (n.lower(), c.kw_beta)
        h += "  int two_words_%s() const { return _w + 1; }\n" % n.lower()
        if c.keyword:
            h += "  int %s(int x) const { return x + 40; }\n" % c.keyword
        h += "  static %s make_%s(int v) { return %s(v); }\n" % (n, n.lower(), n)
        h += "  const %s &self_const() const { return *this; }\n  %s *self_mut() { return this; }\n" % (n, n)
        h += "  void mutate_%s(%s *o) { o->set_w(o->get_w() + 1); }\n" % (n.lower(), n)
        h += "  void absorb_%s(%s *o) { _w += o->get_w(); o->set_w(0); }\n  void absorb_%s(int amount) { _w += amount; }\n" % (n.lower(), n, n.lower())
        h += "  int peek_%s(const %s &o) const { return o.get_w() * 2; }\n" % (n.lower(), n)
        h += "  bool operator == (const %s &o) const { return _w == o._w; }\n  bool operator < (const %s &o) const { return _w < o._w; }\n" % (n, n)
        h += "  %s operator + (const %s &o) const { return %s(_w + o._w); }\n" % (n, n, n)
        h += "  int get_num_slots() const { return 4; }\n  int get_slot(int i) const { return _slots[i]; }\n  void set_slot(int i, int v) { _slots[i] = v; }\n"
        h += "  MAKE_SEQ(get_slots, get_num_slots, get_slot);\n  MAKE_SEQ_PROPERTY(slots, get_num_slots, get_slot, set_slot);\n"
        h += "  int &operator [] (int i) { return _slots[i]; }\n  int operator [] (int i) const { return _slots[i]; }\n  int size() const { return 4; }\n"
        h += "  class Inner%s {\n  PUBLISHED:\n    Inner%s() {}\n    int inner_val() const { return %d; }\n  };\n" % (n, n, c.who + 5)
        h += "  static int twice_%s(int x) { return 2 * x + %d; }\n  static const int limit_%s = %d;\n" % (n.lower(), c.who, n.lower(), c.who + 99)
        h += "  bool neg_%s(bool b) const { return !b; }\n" % n.lower()
        h += "  unsigned char small_%s(unsigned char c) const { return c; }\n  short sh_%s(short s) const { return s; }\n" % (n.lower(), n.lower())
        h += "  unsigned int ui_%s(unsigned int u) const { return u; }\n  long long ll_%s(long long v) const { return v; }\n" % (n.lower(), n.lower())
        ename = "Mode%s" % n
        h += "  enum %s%s { %s };\n" % ("class " if c.scoped_enum else "", ename, ", ".join("%s = %d" % (a, b) for a, b in c.enum_vals))
        q = (ename + "::") if c.scoped_enum else ""
        h += "  %s flip_%s(%s m) const { return m == %s%s ? %s%s : %s%s; }\n" % (ename, n.lower(), ename, q, c.enum_vals[0][0], q, c.enum_vals[1][0], q, c.enum_vals[0][0])
        h += "public:\n  int _w;\n  int _slots[4];\n};\n"
    # a class with one converting and several explicit constructors (only the converting one may be used to coerce an argument),
    # and a class with map / sequence properties whose helper objects must hold exactly one reference to their owner
    conv = header.conv
    cstr, cint = ("", "explicit ") if conv == "str" else ("explicit ", "")
    h += ("class Tag {\nPUBLISHED:\n  Tag() : _n(0) {}\n  %sTag(const std::string &s) : _n((int)s.size()) {}\n  %sTag(int n) : _n(n + 1000) {}\n"
          "  explicit Tag(double a, double b) : _n((int)(a + b) + 2000) {}\n  Tag(const Tag &o) : _n(o._n) {}\n  int get_n() const { return _n; }\n"
          "  void merge(const Tag &o) { _n += o._n; }\npublic:\n  int _n;\n};\n") % (cstr, cint)
    h += ("class Inv {\nPUBLISHED:\n  Inv() { ++g_live; }\n  Inv(const Inv &o) : _stock(o._stock), _notes(o._notes) { ++g_live; }\n  ~Inv() { --g_live; }\n"
          "  bool has_stock(const std::string &k) const { return _stock.count(k) != 0; }\n"
          "  int get_stock(const std::string &k) const { std::map<std::string, int>::const_iterator it = _stock.find(k); return it != _stock.end() ? it->second : 0; }\n"
          "  void set_stock(const std::string &k, int q) { _stock[k] = q; }\n  void clear_stock(const std::string &k) { _stock.erase(k); }\n"
          "  size_t get_num_stock_items() const { return _stock.size(); }\n"
          "  std::string get_stock_item(size_t n) const { std::map<std::string, int>::const_iterator it = _stock.begin(); while (n > 0 && it != _stock.end()) { ++it; --n; } return it != _stock.end() ? it->first : std::string(); }\n"
          "  MAKE_MAP_PROPERTY(stock, has_stock, get_stock, set_stock, clear_stock);\n  MAKE_MAP_KEYS_SEQ(stock, get_num_stock_items, get_stock_item);\n"
          "  size_t get_num_notes() const { return _notes.size(); }\n  std::string get_note(size_t n) const { return n < _notes.size() ? _notes[n] : std::string(); }\n"
          "  void set_note(size_t n, const std::string &s) { if (n < _notes.size()) _notes[n] = s; }\n  void add_note(const std::string &s) { _notes.push_back(s); }\n"
          "  MAKE_SEQ(get_notes, get_num_notes, get_note);\n  MAKE_SEQ_PROPERTY(notes, get_num_notes, get_note, set_note);\n"
          "private:\n  std::map<std::string, int> _stock;\n  std::vector<std::string> _notes;\n};\n")
    h += "BEGIN_PUBLISH\nint tag_n(const Tag &t);\nEND_PUBLISH\n"
    # overloads on classes of a hierarchy whose longest chain runs through a second base; overloads with several trailing defaults
    h += ("class Animal {\nPUBLISHED:\n  Animal() {}\n  virtual ~Animal() {}\n  int legs() const { return 4; }\n};\n"
          "class Striped {\nPUBLISHED:\n  Striped() {}\n  virtual ~Striped() {}\n};\n"
          "class Mammal : public Animal {\nPUBLISHED:\n  Mammal() {}\n};\n"
          "class Horse : public Mammal {\nPUBLISHED:\n  Horse() {}\n};\n"
          "class Zebra : public Striped, public Mammal {\nPUBLISHED:\n  Zebra() {}\n};\n"
          "class Okapi : public Striped, public Animal {\nPUBLISHED:\n  Okapi() {}\n};\n"
          "class Keeper {\nPUBLISHED:\n  Keeper() : _fed(0) {}\n"
          "  int describe(const Animal &a) const { return 1; }\n  int describe(const Mammal &a) const { return 2; }\n  int describe(const Zebra &a) const { return 3; }\n"
          "  int greet(const Animal &a) const { return 10; }\n  int greet(const Okapi &a) const { return 30; }\n"
          "  static int rank(const Animal &a) { return 100; }\n  static int rank(const Zebra &a) { return 300; }\n"
          "  void feed(const Animal &a) { _fed += 1; }\n  void feed(const Zebra &a) { _fed += 1000; }\n  int get_fed() const { return _fed; }\n"
          "public:\n  int _fed;\n};\n"
          "class Mixer {\nPUBLISHED:\n  Mixer() : _level(0), _calls(0) {}\n"
          "  int fade(int target, int steps = 10, int curve = 1) { _level = target * 100 + steps * 10 + curve; ++_calls; return _level; }\n"
          "  int fade(const std::string &channel, int target) { _level = -((int)channel.size() * 10 + target); ++_calls; return _level; }\n"
          "  int pan(int a, int b = 3) { ++_calls; return a * 10 + b; }\n  int pan(const std::string &s, int a, int b) { ++_calls; return (int)s.size() * 100 + a * 10 + b; }\n"
          "  static int route(int a, int b = 5, int c = 6) { return a * 100 + b * 10 + c; }\n  static int route(const Mixer &m, int b) { return -(m._calls * 10 + b); }\n"
          "  int get_level() const { return _level; }\n  int get_calls() const { return _calls; }\n"
          "public:\n  int _level;\n  int _calls;\n};\n")
    # zero-argument const / non-const overload pairs (which one runs depends on the constness of the object alone); overloads of one arity in
    # which the argument that needs a converting constructor comes after a class argument that needs none
    h += ("class Shelf {\nPUBLISHED:\n  Shelf() : _hits(0) {}\n  int peek() { ++_hits; return 1; }\n  int peek() const { return 2; }\n"
          "  Shelf &front() { ++_hits; return *this; }\n  const Shelf &front() const { return *this; }\n  const Shelf &as_const() const { return *this; }\n"
          "  int get_hits() const { return _hits; }\npublic:\n  int _hits;\n};\n"
          "class Pt2 {\nPUBLISHED:\n  Pt2() : _v(0) {}\n  Pt2(int v) : _v(v) {}\n  Pt2(const Pt2 &o) : _v(o._v) {}\n  int get_v() const { return _v; }\npublic:\n  int _v;\n};\n"
          "class Layer {\nPUBLISHED:\n  Layer() {}\n  Layer(const Layer &) {}\n  int id() const { return 7; }\n};\n"
          "class Canvas {\nPUBLISHED:\n  Canvas() {}\n  int stamp(const Layer &l, const Pt2 &p) const { return 100 + p.get_v(); }\n  int stamp(const Layer &l, const Layer &m) const { return 200; }\n"
          "  int mark(const Pt2 &p, const Layer &l) const { return 300 + p.get_v(); }\n  int mark(const Layer &a, const Layer &b) const { return 400; }\n"
          "  static int measure(const Layer &l, int k, const Pt2 &p) { return 500 + k + p.get_v(); }\n  static int measure(const Layer &l, int k, const Layer &m) { return 600 + k; }\n};\n")
    h += "BEGIN_PUBLISH\nenum GlobalMode { GM_on = 1, GM_off = 2 };\nint gmode(GlobalMode m);\nint count_live();\n" + "".join("int takes_%s(const %s &o);\n" % (c.name.lower(), c.name) for c in classes) + "END_PUBLISH\n#endif\n"
    impl = '#include "t.h"\nint g_live = 0;\nint count_live() { return g_live; }\nint gmode(GlobalMode m) { return (int)m * 3; }\nint tag_n(const Tag &t) { return t.get_n(); }\n' + "".join("const int %s::limit_%s;\n" % (c.name, c.name.lower()) for c in classes) + "".join("int takes_%s(const %s &o) { return o.who(); }\n" % (c.name.lower(), c.name) for c in classes)
    return h, impl


def chain(classes, name):
    by = {c.name: c for c in classes}
    r = [name]
    while by[r[-1]].base:
        r.append(by[r[-1]].base)
    return r


def camel(s):
    parts = s.split("_")
    return parts[0] + "".join(p[:1].upper() + p[1:] for p in parts[1:])


def test_script(classes, rng, modname="tmod"):
    by = {c.name: c for c in classes}
    L = ["import gc, sys", "import %s as m" % modname, "fails = []", "checks = 0",
         "def chk(label, cond, detail=''):", "    global checks", "    checks += 1", "    if not cond:", "        fails.append(label)", "        print('MISMATCH', label, detail)",
         "def probe(cls, cats, f, *a):",
         "    try:", "        r = f(*a)", "        print('DISPATCH', cls, ','.join(cats) or '-', r // 100000)", "    except TypeError:", "        print('DISPATCH', cls, ','.join(cats) or '-', 'TypeError')",
         "def raises(exc, f, *a, **k):", "    try:", "        f(*a, **k)", "    except exc:", "        return True", "    except BaseException as e:", "        return 'other:' + type(e).__name__", "    return False", ""]
    for c in classes:
        n, ln = c.name, c.name.lower()
        derived = [d.name for d in classes if n in chain(classes, d.name)[1:]]
        L.append("# ---- %s" % n)
        L.append("chk('%s exported', hasattr(m, '%s'))" % (n, n))
        v = rng.randrange(2, 50)
        L.append("o = m.%s(%d); o0 = m.%s()" % (n, v, n))
        L.append("chk('%s ctor / default ctor', o.get_w() == %d and o0.get_w() == %d, (o.get_w(), o0.get_w()))" % (n, v, c.default_v))
        L.append("chk('%s camelCase alias', o.getW() == %d and o.twoWords%s() == %d and o.two_words_%s() == %d)" % (n, v, n.capitalize(), v + 1, ln, v + 1))
        L.append("o.w = %d; chk('%s property', o.w == %d and o.get_w() == %d); o.set_w(%d)" % (v + 5, n, v + 5, v + 5, v))
        L.append("chk('%s who', o.who() == %d)" % (n, c.who + v))
        # overloads
        for kind, x in c.overs:
            if kind == "sig":
                tag, params, cats, f = OVER[x]
                for trial in range(2):
                    args = []
                    for cat in cats:
                        if cat == "int":
                            args.append(rng.randrange(0, 9))
                        elif cat == "float":
                            args.append(rng.choice([0.5, 1.5, 2.25, 3.0]))
                        else:
                            args.append(rng.choice(["", "ab", "hello"]))
                    want = (x + 1) * 100000 + f(*args)
                    L.append("chk('%s.over_%s(%s)', o.over_%s(%s) == %d, 'got %%r' %% (o.over_%s(%s),))" % (n, ln, tag, ln, ", ".join(repr(a) for a in args), want, ln, ", ".join(repr(a) for a in args)))
            else:
                accepted = [x] + [d.name for d in classes if x in chain(classes, d.name)[1:]]
                for an in accepted:
                    L.append("a = m.%s(6); chk('%s.over_%s(<%s>)', o.over_%s(a) == 900006)" % (an, n, ln, an, ln))
        # what runs for every argument category vector of length <= 2 (model tie: IgVerif.Dp.dispatch)
        idx = {cc.name: i for i, cc in enumerate(classes)}
        samples = {"int": "3", "float": "2.5", "str": "'xy'", "none": "None"}
        for cc in classes:
            L.append("keep_%s = m.%s(6)" % (cc.name, cc.name))          # (a const wrapper borrows its object: keep it alive)
            samples["inst:%d:0" % idx[cc.name]] = "keep_%s" % cc.name
            samples["inst:%d:1" % idx[cc.name]] = "keep_%s.self_const()" % cc.name
        keys = sorted(samples)
        for a1 in [None] + keys:
            for a2 in [None] + (keys if a1 else []):
                cats = [a for a in (a1, a2) if a]
                L.append("probe('%s', %r, o.over_%s%s)" % (n, cats, ln, "".join(", " + samples[a] for a in cats)))
        sig_cats = {tuple(OVER[x][2]) for kind, x in c.overs if kind == "sig"}
        # calls no overload accepts
        if ("str",) not in sig_cats and ("float",) not in sig_cats and ("int",) not in sig_cats:
            L.append("chk('%s.over_%s(int) has no overload', raises(TypeError, o.over_%s, 3) is True)" % (n, ln, ln))
        L.append("chk('%s.over_%s wrong count', raises(TypeError, o.over_%s, 1, 2, 3, 4) is True)" % (n, ln, ln))
        L.append("chk('%s.over_%s wrong type', raises(TypeError, o.over_%s, [1, 2]) is True)" % (n, ln, ln))
        # defaults and keywords
        b, cc = c.defs
        L.append("chk('%s.defs', (o.defs_%s(1), o.defs_%s(1, 2), o.defs_%s(1, 2, 3)) == (%d, %d, 123))" % (n, ln, ln, ln, 100 + b * 10 + cc, 100 + 20 + cc))
        L.append("chk('%s.defs keyword', o.defs_%s(1, c=4) == %d and o.defs_%s(a=2, b=3) == %d)" % (n, ln, 100 + b * 10 + 4, ln, 200 + 30 + cc))
        L.append("chk('%s.kw', o.kw_%s(alpha=3) == %d and o.kw_%s(beta=5, alpha=1) == 15 and o.kw_%s(4, 6) == 46)" % (n, ln, 30 + c.kw_beta, ln, ln))
        L.append("chk('%s.kw unknown keyword', raises(TypeError, o.kw_%s, 1, gamma=2) is True)" % (n, ln))
        L.append("chk('%s.defs too few', raises(TypeError, o.defs_%s) is True)" % (n, ln))
        if c.keyword:
            L.append("chk('%s keyword-named method %s', hasattr(o, '_%s') and getattr(o, '_%s')(2) == 42)" % (n, c.keyword, c.keyword, c.keyword))
        # integer ranges
        L.append("chk('%s.small range', o.small_%s(255) == 255 and raises(OverflowError, o.small_%s, 256) is True and raises(OverflowError, o.small_%s, -1) is True)" % (n, ln, ln, ln))
        L.append("chk('%s.sh range', o.sh_%s(-32768) == -32768 and raises(OverflowError, o.sh_%s, 32768) is True)" % (n, ln, ln))
        L.append("chk('%s.ui range', o.ui_%s(4294967295) == 4294967295 and raises(OverflowError, o.ui_%s, 4294967296) is True and raises(OverflowError, o.ui_%s, -1) is True)" % (n, ln, ln, ln))
        L.append("chk('%s.ll range', o.ll_%s(-9223372036854775808) == -9223372036854775808 and raises(OverflowError, o.ll_%s, 9223372036854775808) is True)" % (n, ln, ln))
        L.append("chk('%s float refused for int parameter', raises(TypeError, o.sh_%s, 1.5) is True)" % (n, ln))
        # enums
        a0, b0 = c.enum_vals[0][0], c.enum_vals[1][0]
        if c.scoped_enum:
            L.append("chk('%s scoped enum', o.flip_%s(m.%s.Mode%s.%s) == m.%s.Mode%s.%s)" % (n, ln, n, n, a0, n, n, b0))
        else:
            L.append("chk('%s enum', o.flip_%s(m.%s.%s) == m.%s.%s and m.%s.%s == 3)" % (n, ln, n, a0, n, b0, n, b0))
        # operators
        L.append("p = m.%s(4); q = m.%s(9)" % (n, n))
        L.append("chk('%s operators', (p == m.%s(4)) and (p != q) and (p < q) and not (q < p) and (p + q).get_w() == 13 and p[3] == 43)" % (n, n))
        L.append("chk('%s sequence', p.get_slots() == (40, 41, 42, 43) and list(p.slots) == [40, 41, 42, 43] and len(p.slots) == 4 and p.getSlots() == p.get_slots())" % n)
        L.append("p[1] = 77; p.slots[2] = 88; chk('%s item assignment', p[1] == 77 and p.get_slot(1) == 77 and p.get_slot(2) == 88 and p[-1] == 43, (p[1], p.get_slot(2)))" % n)
        L.append("chk('%s index errors', raises(IndexError, lambda: p[4]) is True and raises(IndexError, lambda: p.slots[7]) is True and raises(TypeError, lambda: p['x']) is True)" % n)
        L.append("chk('%s nested class', m.%s.Inner%s().inner_val() == %d and m.%s.Inner%s().innerVal() == %d)" % (n, n, n, c.who + 5, n, n, c.who + 5))
        L.append("chk('%s static method and constant', m.%s.twice_%s(4) == %d and p.twice_%s(1) == %d and m.%s.limit_%s == %d)" % (n, n, ln, 8 + c.who, ln, 2 + c.who, n, ln, c.who + 99))
        L.append("chk('%s bool parameter', p.neg_%s(True) is False and p.neg_%s(0) is True and p.neg_%s([]) is True)" % (n, ln, ln, ln))
        # constness
        L.append("cst = o.self_const(); mut = o.self_mut()")
        L.append("chk('%s const wrapper', cst.this_const == 1 and mut.this_const == 0 and cst.get_w() == o.get_w())" % n)
        L.append("chk('%s non-const method on const object refused', raises(TypeError, cst.set_w, 1) is True and o.get_w() == %d)" % (n, v))
        L.append("t = m.%s(3); chk('%s single-signature non-const parameter refuses const', raises(TypeError, t.mutate_%s, cst) is True and o.get_w() == %d)" % (n, n, ln, v))
        L.append("t.mutate_%s(mut); chk('%s mutate through non-const', o.get_w() == %d); o.set_w(%d)" % (ln, n, v + 1, v))
        L.append("before = (t.get_w(), o.get_w()); r = raises(TypeError, t.absorb_%s, cst)" % ln)
        L.append("chk('%s overloaded non-const parameter refuses const', r is True and (t.get_w(), o.get_w()) == before, (r, before, (t.get_w(), o.get_w())))" % n)
        L.append("t.absorb_%s(5); chk('%s absorb(int)', t.get_w() == before[0] + 5)" % (ln, n))
        L.append("chk('%s const argument accepted by const parameter', t.peek_%s(cst) == %d)" % (n, ln, v * 2))
        # inheritance and identity
        for dn in derived:
            L.append("d = m.%s(8); chk('%s accepts %s', m.takes_%s(d) == %d and d.who() == %d and isinstance(d, m.%s))" % (dn, n, dn, ln, by[dn].who + 8, by[dn].who + 8, n))
        unrelated = [u.name for u in classes if n not in chain(classes, u.name)]
        for un in unrelated[:1]:
            L.append("chk('%s refuses unrelated %s', raises(TypeError, m.takes_%s, m.%s()) is True)" % (n, un, ln, un))
        L.append("chk('%s refuses None / wrong type', raises(TypeError, m.takes_%s, None) is True and raises(TypeError, m.takes_%s, 5) is True)" % (n, ln, ln))
        # ownership
        L.append("del o, o0, p, q, t, cst, mut; a = None; d = None")
        L.append("for _k in [k for k in list(globals()) if k.startswith('keep_')]: del globals()[_k]")
        L.append("gc.collect()")
        L.append("base = m.count_live()")
        L.append("xs = [m.%s.make_%s(i) for i in range(20)]; ys = [x + x for x in xs]; zs = [m.%s(x) for x in xs]" % (n, ln, n))
        L.append("chk('%s objects alive', m.count_live() == base + %d and sum(x.get_w() for x in ys) == 2 * sum(range(20)), (m.count_live(), base))" % (n, 60 * len(chain(classes, n))))
        L.append("del xs, ys, zs; gc.collect(); chk('%s no leak, no double free', m.count_live() == base, (m.count_live(), base))" % n)
        L.append("")
    # ---- explicit constructors are not conversions -------------------------------------------------------------------------------------
    conv = header.conv
    L.append("chk('Tag constructors', (m.Tag('abcd').get_n(), m.Tag(5).get_n(), m.Tag(1.5, 2.5).get_n()) == (4, 1005, 2004))")
    bad = "5" if conv == "str" else "'abc'"
    L.append("t = m.Tag(1.0, 1.0); before = t.get_n()")
    L.append("chk('explicit Tag constructor is not used to convert an argument', raises(TypeError, m.tag_n, %s) is True and raises(TypeError, t.merge, %s) is True "
             "and raises(TypeError, m.tag_n, (0.5, 1.0)) is True and raises(TypeError, t.merge, (0.5, 1.0)) is True and t.get_n() == before, "
             "(raises(TypeError, m.tag_n, %s), raises(TypeError, t.merge, %s), raises(TypeError, m.tag_n, (0.5, 1.0)), t.get_n(), before))" % (bad, bad, bad, bad))
    L.append("chk('Tag accepted where a Tag is expected', m.tag_n(m.Tag(7)) == 1007)")
    L += ["def got(f, *a):", "    try:", "        return f(*a)", "    except BaseException as e:", "        return 'raised ' + type(e).__name__",
          "sh = m.Shelf(); csh = sh.as_const()",
          "chk('zero-argument overload pair on a non-const object', (got(sh.peek), sh.get_hits()) == (1, 1), (got(sh.peek), sh.get_hits()))",
          "h0 = sh.get_hits()",
          "chk('zero-argument overload pair on a const object', (got(csh.peek), got(csh.peek), sh.get_hits()) == (2, 2, h0), (got(csh.peek), sh.get_hits(), h0))",
          "fr = got(csh.front); chk('const front() on a const object leaves it alone', hasattr(fr, 'get_hits') and sh.get_hits() == h0, (fr, sh.get_hits(), h0))",
          "fr = got(sh.front); chk('front() on a non-const object runs the non-const overload', hasattr(fr, 'get_hits') and sh.get_hits() == h0 + 1, (fr, sh.get_hits(), h0))",
          "cv = m.Canvas(); ly = m.Layer()",
          "chk('converting constructor after a class argument', (got(cv.stamp, ly, 5), got(cv.stamp, ly, m.Pt2(6)), got(cv.stamp, ly, ly)) == (105, 106, 200), (got(cv.stamp, ly, 5), got(cv.stamp, ly, m.Pt2(6)), got(cv.stamp, ly, ly)))",
          "chk('converting constructor before a class argument', (got(cv.mark, 5, ly), got(cv.mark, ly, ly)) == (305, 400), (got(cv.mark, 5, ly), got(cv.mark, ly, ly)))",
          "chk('converting constructor as third argument of a static method', (got(m.Canvas.measure, ly, 1, 9), got(m.Canvas.measure, ly, 2, ly)) == (510, 602), (got(m.Canvas.measure, ly, 1, 9), got(m.Canvas.measure, ly, 2, ly)))",
          "chk('no conversion from an unrelated object', got(cv.stamp, ly, 'text') == 'raised TypeError', got(cv.stamp, ly, 'text'))",
          "del sh, csh, fr, cv, ly"]
    L.append("del t")
    # ---- helper objects of map / sequence properties own exactly one reference to their object ---------------------------------------------
    L += ["gc.collect(); base = m.count_live()",
          "def refs(o): return sys.getrefcount(o) - 2",
          "inv = m.Inv(); inv.stock['bolt'] = 40; inv.stock['nut'] = 2; inv.stock['washer'] = 7; inv.add_note('first'); inv.add_note('second')",
          "pins = [inv] * 8; r0 = refs(inv)",
          "chk('map property values', inv.stock['bolt'] == 40 and len(inv.stock) == 3 and 'nut' in inv.stock and 'gear' not in inv.stock and inv.stock.get('gear', -1) == -1 "
          "and sorted(inv.stock.values()) == [2, 7, 40] and sorted(inv.stock.items()) == [('bolt', 40), ('nut', 2), ('washer', 7)] and sorted(inv.stock.keys()) == ['bolt', 'nut', 'washer'])",
          "chk('sequence property values', (inv.notes[1], len(inv.notes), list(inv.notes), inv.get_notes()) == ('second', 2, ['first', 'second'], ('first', 'second')))",
          "chk('no reference to the object is left behind by temporaries', refs(inv) == r0, (r0, refs(inv)))",
          "for name, make in [('stock', lambda: inv.stock), ('notes', lambda: inv.notes), ('stock.values()', lambda: inv.stock.values()), ('stock.items()', lambda: inv.stock.items()), ('stock.keys()', lambda: inv.stock.keys())]:",
          "    b4 = refs(inv); helper = make(); held = refs(inv); n = len(helper); del helper; after = refs(inv)",
          "    chk('inv.%s holds one reference while alive and returns it' % name, held == b4 + 1 and after == b4 and n in (2, 3), (b4, held, after))",
          "b4 = refs(inv); ks = sorted(inv.stock); it = iter(inv.stock); first = next(it); del it; ns = [x for x in inv.notes]; after = refs(inv)",
          "chk('iterating a map / sequence property leaves no reference to the object behind', after == b4 and ks == ['bolt', 'nut', 'washer'] and ns == ['first', 'second'], (b4, after, ks))",
          "other = m.Inv(); other.stock['gear'] = 5; view = other.stock.keys(); del other; gc.collect()",
          "chk('the object behind a live keys() view is not destroyed', m.count_live() == base + 2, (m.count_live(), base))",
          "ok = m.count_live() == base + 2 and list(view) == ['gear']",
          "del view; gc.collect(); chk('dropping the view releases the object exactly once', ok and m.count_live() == base + 1, (m.count_live(), base))",
          "del pins, inv; gc.collect(); chk('Inv no leak, no double free', m.count_live() == base, (m.count_live(), base))", ""]
    L += ["k = m.Keeper()",
          "chk('overload chosen for the most derived class (longest chain through the second base)', (k.describe(m.Animal()), k.describe(m.Mammal()), k.describe(m.Horse()), k.describe(m.Zebra()), k.describe(m.Okapi())) == (1, 2, 2, 3, 1), "
          "(k.describe(m.Animal()), k.describe(m.Mammal()), k.describe(m.Horse()), k.describe(m.Zebra()), k.describe(m.Okapi())))",
          "chk('overload on a class with two bases', (k.greet(m.Okapi()), k.greet(m.Zebra()), k.greet(m.Animal())) == (30, 10, 10), (k.greet(m.Okapi()), k.greet(m.Zebra()), k.greet(m.Animal())))",
          "chk('static overload on the hierarchy', (m.Keeper.rank(m.Zebra()), m.Keeper.rank(m.Horse())) == (300, 100), (m.Keeper.rank(m.Zebra()), m.Keeper.rank(m.Horse())))",
          "k.feed(m.Zebra()); k.feed(m.Horse()); chk('void overload on the hierarchy', k.get_fed() == 1001, k.get_fed())",
          "x = m.Mixer()",
          "chk('overloads with several trailing defaults', (x.fade(3), x.fade(3, 4), x.fade(3, 4, 5), x.fade('left', 7)) == (3 * 100 + 101, 3 * 100 + 41, 345, -47))",
          "chk('the middle-arity overload exists', raises(TypeError, x.fade, 'left', 7) is False and x.get_level() == -47, (x.get_level(), x.get_calls()))",
          "chk('keywords select the overload', x.fade(channel='aux', target=2) == -32 and x.fade(target=1, steps=2) == 121)",
          "chk('pan overloads', (x.pan(1), x.pan(1, 2), x.pan('ab', 1, 2)) == (13, 12, 212))",
          "chk('static overloads with defaults', (m.Mixer.route(1), m.Mixer.route(1, 2), m.Mixer.route(1, 2, 3), m.Mixer.route(x, 2)) == (156, 126, 123, -(x.get_calls() * 10 + 2)), (m.Mixer.route(1), m.Mixer.route(1, 2), m.Mixer.route(x, 2)))",
          "chk('no overload takes these', raises(TypeError, x.fade) is True and raises(TypeError, x.fade, 'left') is True and raises(TypeError, x.fade, 1, 2, 3, 4) is True)",
          "del k, x", ""]
    L.append("chk('module-level enum and function', m.GM_on == 1 and m.GMOff == 2 and m.gmode(m.GM_off) == 6 and raises(TypeError, m.gmode, 'x') is True)")
    L.append("print('checks=%d failures=%d' % (checks, len(fails)))")
    L.append("sys.exit(1 if fails else 0)")
    return "\n".join(L) + "\n"


def dispatch_ops(classes):
    """for `igdriver dispatch`: per class the remap table, to be completed with the argument categories of each probe"""
    idx = {c.name: i for i, c in enumerate(classes)}
    parents = " ".join(str(idx[c.base]) if c.base else "-" for c in classes)
    out = {}
    rank = {"str": 9, "int": 5, "float": 4}
    for c in classes:
        rs = []
        for kind, x in c.overs:
            if kind == "sig":
                cats = OVER[x][2]
                rs.append(((len(cats), [rank[k] for k in cats]), "%d %d %d %s" % (x + 1, len(cats), len(cats), " ".join(cats))))
            else:
                rs.append(((1, [20 * len(chain(classes, x))]), "9 1 1 obj:%d:1" % idx[x]))
        # the order in which the generated code tries them: RemapCompareLess (more parameters first, higher get_type_sort first)
        rs.sort(key=lambda r: (-r[0][0], [-k for k in r[0][1]]))
        out[c.name] = "dispatch %d %s %d %s" % (len(classes), parents, len(rs), " ".join(r[1].strip() for r in rs))
    return out
