"""G-bytes: seed corpus and mutators for the front-end totality check (C15)."""
import os
import random

import iglib
from gen import hdrgen, typegen, hiergen, scopegen

DICT = ["#if", "#ifdef", "#ifndef", "#elif", "#else", "#endif", "#define", "#undef", "#include", "#pragma once", "#error", "#line",
        "defined", "__has_include", "__VA_ARGS__", "__VA_OPT__", "##", "#", "R\"(", ")\"", "R\"x(", ")x\"", "u8\"", "L'", "'", "\"", "\\", "\\\n",
        "/*", "*/", "//", "template", "<", ">", ">>", "<<", "typename", "class", "struct", "union", "enum", "namespace", "using", "typedef",
        "operator", "()", "[]", "{", "}", "(", ")", "[", "]", ";", ":", "::", ",", "...", "=", "==", "<=>", "->", "->*", ".*", "?", "~", "!",
        "&", "&&", "|", "||", "^", "%", "/", "*", "+", "-", "0", "1", "0x", "0b", "1'000", "1e", "1.", ".5", "0x1p", "18446744073709551616", "'a'", "'\\x'",
        "sizeof", "alignof", "decltype", "noexcept", "constexpr", "static_assert", "friend", "virtual", "override", "final", "= 0", "= default", "= delete",
        "__published", "__begin_publish", "__end_publish", "MAKE_PROPERTY", "MAKE_SEQ", "BLOCKING", "EXTENSION", "extern \"C\"", "__attribute__((", "[[", "]]",
        "struct nn::", "class ::q::", "enum e::", "#pragma pop_macro(\"x\")", "#pragma push_macro(\"x\")", "auto", "const", "volatile", "mutable", "static", "inline", "explicit", "concept", "requires", "this", "nullptr", "true", "false", "\x00", "\xff", "\r\n", "\t", "\n"]

EDGE = [
    "class K {\n__published:\n  void f(int a, bool b = true);\n  void f(int a);\n};\n", "class N {\n__published:\n  N(const N &o, int depth = 0);\n};\n",
    "class N {\n__published:\n  N(const N &a, int i, bool d = true);\n  N(const N &b, int depth = 0);\n  N(N &&m, int k = 1);\n};\n",

    "#if 1/0\n#endif\n", "#if 1%0\n#endif\n", "#if (\n#endif\n", "#if 1 ? 2\n#endif\n", "#if defined(\n#endif\n", "#if defined\n#endif\n", "#if __has_include(\n#endif\n",
    "#if __has_include(<\n#endif\n", "#if 1 ^ 2\n#endif\n", "#if ~0 && !1 || 2 <=> 3\n#endif\n", "#if 0x\n#endif\n", "#if 'a\n#endif\n", "#if \"s\" == 1\n#endif\n",
    "#else\n", "#endif\n", "#elif 1\n", "#if 1\n", "#if 0\n/* open", "#if 0\n#else\n/* open", "#ifdef\n#endif\n", "#ifndef\n", "#define\n", "#define (\n", "#define F(\n", "#define F(a,\n",
    "#define F(a,a) a\nF(1,2)\n", "#define F(...) __VA_OPT__(\nF()\n", "#define F(x) #\nF(1)\n", "#define F(x) x ##\nF(1)\n", "#define F(x) ## x\nF(1)\n", "#define A B\n#define B A\nint A;\n#if A\n#endif\n",
    "#define A B\n#define B C\n#define C A\n#if A\n#endif\n#define D A\n", "#define f(x) f(x)+1\nint a = f(1);\n#if f(1)\n#endif\n", "#define g(x) h(x)\n#define h(x) g(x)\nint a = g(1);\n#if g(1)\n#endif\n",
    "#define F(x) x\nF(\n", "#define F(x) x\nF(1,2,3)\n", "#define F(x,y) x y\nF(1)\n", "#define F(x) x\nint a = F((,));\n", "#define S(x) #x\nconst char *s = S(\"a\\\"b\");\n", "#define S(x) #x\nconst char *s = S(');\n",
    "#include\"self_including_file.h\" ", "#include \"self_including_file.h\"", "#include\n", "#include <\n", "#include \"\n", "#include \"\"\n", "#include <>\n", "#include MACRO\n", "#define M <x\n#include M\n", "#include \"self_including_file.h\"\n",
    "#pragma\n", "#pragma push_macro(\n", "#pragma pop_macro(\"x\")\n", "#pragma push_macro(\"x\")\n#pragma pop_macro(\"x\")\n#pragma pop_macro(\"x\")\n", "#line\n", "#line 999999999999999999999\n", "#error\n", "#unknown\n", "#\n", "# 1 \"f\"\n",
    "const char *s = R\"(\")\";\n", "const char *s = R\"(", "const char *s = R\"", "const char *s = R\"abcdefghijklmnopqrstuvwxyz(x)abcdefghijklmnopqrstuvwxyz\";\n", "const char *s = \"abc", "char c = '", "char c = '\\", "char c = '\\x';\n",
    "char c = '\\777777';\n", "const char *s = \"\\U99999999\";\n", "const char *s = \"\\u12\";\n", "int x = 1'';\n", "int x = 0x;\n", "int x = 0b;\n", "int x = 1e;\n", "int x = 1e+;\n", "int x = 0x1p;\n", "int x = 1..2;\n",
    "int x = 99999999999999999999999999999999;\n", "double d = 1e99999;\n", "int x = 1uLLuLL;\n", "/*", "/* *", "//\\\n", "\\", "\\\n", "a\\\nb", "??=define X\n",
    "enum E { a = 1/0 };\n", "enum E { a = 1%0, b };\n", "int a[1/0];\n", "enum E { a = 1 << 100, b = -1 >> 100, c = 1 << -1 };\n", "enum E { a = -2147483648/-1 };\n", "enum E { a = 9223372036854775807 + 1 };\n",
    "template<", "template<class T", "template<> struct", "struct S {", "struct S { S(", "struct S : {};\n", "struct S : S {};\n", "struct S; struct S : S {};\n", "class A : B {};\n", "struct S { S() = ; };\n",
    "namespace {", "namespace a::b::", "using namespace ;\n", "using a = ;\n", "typedef ;\n", "typedef int;\n", "typedef int int;\n", "operator", "int operator", "int operator \"\" _x(", "struct S { operator (); };\n",
    "int f(int = );\n", "int f(int a = (1, );\n", "int f(...", "auto f() -> ;\n", "decltype( x;\n", "sizeof(;\n", "static_assert(;\n", "static_assert(1/0, \"\");\n", "alignas( int x;\n", "[[", "__attribute__((",
    "struct S { MAKE_PROPERTY(a, ); };\n", "struct S { MAKE_SEQ(a, b, ); };\n", "struct S {\n__published:\n MAKE_PROPERTY(x, get_x, set_x);\n};\n", "struct S { __published: MAKE_SEQ(xs, get_num_x, get_x); };\n",
    "template<class T> struct A { typename T::x y; }; A<int> a;\n", "template<int N> struct F { enum { v = N * F<N-1>::v }; }; int x = F<5>::v;\n", "template<class T> struct A : A<T*> {}; A<int> a;\n",
    "template<class... T> struct V { V<T..., int> *n; }; V<> v;\n", "template<int N> struct F { enum { v = F<N-1>::v }; static const int x = F<5>::v; };\n",
    "template<int N> struct F { enum { v = N * F<N-1>::v }; int x = F<5>::v; };\n", "template<class T> struct G { typedef typename G<T*>::t t; t x; };\nG<int>::t y;\n", "struct A { A a; };\n", "struct A; struct B { A a; };\n", "typedef struct A A; struct A { A *a; };\n", "enum class E : E {};\n", "int x = x;\n", "int x = sizeof(x)/0;\n",
    "#define FIRST(a, b) a\n#if FIRST(1'0, 5) == 10\n#endif\n", "#define PAIR(a, b) [a + b]\np1 = PAIR(1'000, 2) ;\n", "#define F(a) a\n#if F(')\n#endif\n", "#if 0x == 0x'\n#endif\n",
    "void attach(struct nett::Socket *sock);\n", "struct a::b::C *p;\n", "int x = sizeof(struct q::R *);\n", "template<class T> struct X {}; X<struct zz::Y> v;\n", "enum ee::E f();\n",
    "class ::nope::K *g;\n", "union u::V w(struct s::T);\n", "typedef struct t::U U2;\n", "struct S { struct S::in::X *p; };\n", "void f(enum class m::E e);\n",
    "#pragma push_macro(\"X\")\n#pragma pop_macro(\"X\")\n#pragma pop_macro(\"X\")\nint a = X;\n", "#define X 1\n#pragma push_macro(\"X\")\n#undef X\n#pragma pop_macro(\"X\")\n#pragma pop_macro(\"X\")\nint a = X;\n#if X\n#endif\n",
    "#pragma pop_macro(\"never\")\nint a = never;\n", "#pragma push_macro(\"P\")\n#pragma push_macro(\"P\")\n#define P 2\n#pragma pop_macro(\"P\")\n#pragma pop_macro(\"P\")\n#pragma pop_macro(\"P\")\nint p = P;\n",
    "\x00", "\xff\xfe", "int \xc3\xa9 = 1;\n", "int x;\x00int y;\n", "\r", "int x;\r\nint y;\r\n", "\x1a",
]


def seed_corpus(rng, n_generated=20):
    out = []
    for root in [iglib.REPO / "tests"]:
        for dp, dn, fn in os.walk(root):
            for f in sorted(fn):
                if f.endswith((".h", ".c", ".cxx", ".N", ".I")):
                    p = os.path.join(dp, f)
                    try:
                        out.append((os.path.relpath(p, iglib.REPO), open(p, "rb").read()))
                    except OSError:
                        pass
    inc = iglib.REPO / "parser-inc"
    if inc.is_dir():
        files = sorted(f for f in inc.iterdir() if f.is_file() and f.stat().st_size < 6000)
        for f in rng.sample(files, min(len(files), 25)):
            out.append(("parser-inc/" + f.name, f.read_bytes()))
    for i in range(n_generated):
        r = i % 4
        if r == 0:
            t = hdrgen.gen_header(rng, n_classes=rng.randrange(1, 4)).text()
        elif r == 1:
            t = hiergen.program_text(hiergen.gen_hierarchy(rng, rng.randrange(2, 5)))
        elif r == 2:
            t = scopegen.gen_scope_program(rng)[0]
        else:
            t = scopegen.gen_template_program(rng)[0]
        out.append(("generated/%d" % i, t.encode()))
    from gen import macgen
    for i in range(6):
        out.append(("generated/macros%d" % i, macgen.text(macgen.gen_program(rng)).encode()))
    for form in ("redefine", "redefine-in-place", "undef-only", "undefined-name", "nested", "untouched"):
        for _ in range(300):      # one program per push/pop form
            prog = macgen.gen_program(rng)
            if "push_pop-" + form in prog.features:
                out.append(("generated/macros-push-%s" % form, macgen.text(prog).encode()))
                break
    for i in range(4):
        out.append(("generated/literals%d" % i, udl_program(rng).encode()))
    return out


def udl_program(rng):
    """user-defined literals: literal operators with the parameter lists [over.literal] allows and some it does not, and uses"""
    plists = ["unsigned long long", "long double", "const char *", "char", "const char *, unsigned long", "const char *, size_t", "wchar_t", "const char16_t *, unsigned long",
              "", "...", "int", "unsigned long long, int", "double", "void", "const char *, unsigned long, int"]
    sufs = ["_km", "_raw", "_s", "_v", "_deg"]
    lines = ["typedef unsigned long size_t;"]
    for suf in rng.sample(sufs, rng.randrange(2, 5)):
        for pl in rng.sample(plists, rng.randrange(1, 4)):
            form = rng.choice(['operator "" %s', 'operator ""%s', "operator \"\" %s"])
            lines.append("%s %s(%s);" % (rng.choice(["unsigned long long", "long double", "int", "void"]), form % suf, pl))
        for k in range(rng.randrange(1, 4)):
            lit = rng.choice(["5", "0.5", "'c'", '"str"', "0x1F", "1e3", "7", "1'000"])
            lines.append("auto u%s%d = %s%s;" % (suf, k, lit, suf))
    lines.append("int unknown_suffix = 3_nowhere;")
    return "\n".join(lines) + "\n"


def tokens(b):
    import re
    return re.findall(rb"[A-Za-z_][A-Za-z0-9_]*|\d[\w.']*|\s+|\"(?:\\.|[^\"\\\n])*\"?|'(?:\\.|[^'\\\n])*'?|<<=|>>=|<=>|->\*|\.\.\.|::|->|\+\+|--|<<|>>|<=|>=|==|!=|&&|\|\||##|.", b, re.S)


def mutate(rng, data, corpus):
    kind = rng.randrange(10)
    b = bytearray(data)
    if kind == 0 and b:                      # delete a slice
        i = rng.randrange(len(b))
        del b[i:i + rng.choice([1, 1, 2, 5, 20, 100])]
    elif kind == 1:                          # insert a dictionary token
        i = rng.randrange(len(b) + 1)
        b[i:i] = rng.choice(DICT).encode("latin-1")
    elif kind == 2 and b:                    # replace a byte
        b[rng.randrange(len(b))] = rng.choice([0, 10, 34, 39, 40, 41, 60, 62, 92, 35, 123, 125, 255, rng.randrange(256)])
    elif kind == 3 and b:                    # truncate
        del b[rng.randrange(len(b)):]
    elif kind == 4 and b:                    # duplicate a slice
        i = rng.randrange(len(b))
        j = min(len(b), i + rng.choice([1, 5, 30, 200]))
        b[i:i] = b[i:j] * rng.choice([1, 2, 8])
    elif kind == 5:                          # splice with another corpus entry
        other = rng.choice(corpus)[1]
        i = rng.randrange(len(b) + 1)
        j = rng.randrange(len(other) + 1)
        b = b[:i] + bytearray(other[j:j + rng.choice([10, 50, 300])]) + b[i:]
    elif kind in (6, 7):                     # token-level: delete / swap / replace a token
        ts = tokens(bytes(b))
        if ts:
            i = rng.randrange(len(ts))
            op = rng.randrange(3)
            if op == 0:
                del ts[i]
            elif op == 1:
                j = rng.randrange(len(ts))
                ts[i], ts[j] = ts[j], ts[i]
            else:
                ts[i] = rng.choice(DICT).encode("latin-1")
            b = bytearray(b"".join(ts))
    elif kind == 8:                          # prepend an edge-case directive
        b[0:0] = rng.choice(EDGE).encode("latin-1")
    else:                                    # append an edge case
        b += rng.choice(EDGE).encode("latin-1")
    return bytes(b)
