"""G-lib: a test library (header + instrumented implementation) with ground truth, and the driver that calls every
generated -c wrapper next to the direct C++ call on twin objects (C01)."""
import re

SCALARS = {
    "int": ["0", "-1", "2147483647", "(-2147483647-1)", "12345"],
    "short": ["0", "-32768", "32767", "7"],
    "unsigned short": ["0", "65535", "300"],
    "long": ["0L", "-1L", "9223372036854775807L", "(-9223372036854775807L-1)"],
    "unsigned long": ["0UL", "18446744073709551615UL", "5UL"],
    "long long": ["0LL", "9223372036854775807LL", "(-9223372036854775807LL-1)", "-77LL"],
    "unsigned long long": ["0ULL", "18446744073709551615ULL", "9223372036854775808ULL"],
    "unsigned int": ["0u", "4294967295u", "2147483648u"],
    "char": ["'a'", "'z'", "'\\x7f'", "'\\0'"],
    "signed char": ["(signed char)-128", "(signed char)127", "(signed char)5"],
    "unsigned char": ["(unsigned char)0", "(unsigned char)255", "(unsigned char)128"],
    "bool": ["true", "false"],
    "float": ["0.5f", "-3.25f", "640.0f"],
    "double": ["0.125", "-999.5", "2.5", "1000.0"],
}
RETS = ["int", "long long", "unsigned long long", "double", "bool", "unsigned char", "short", "long", "unsigned long", "unsigned long", "unsigned int",
        "unsigned short", "signed char", "float"]


class M:
    def __init__(self, cls, name, ret, params, static=False, const=False, virtual=False, kind="mix", ndef=0):
        self.cls, self.name, self.ret, self.params, self.static, self.const, self.virtual, self.kind, self.ndef = cls, name, ret, params, static, const, virtual, kind, ndef
        # params: [(type, name, default or None)]

    def scoped(self):
        return "%s::%s" % (self.cls, self.name) if self.cls else self.name

    def decl(self):
        ps = ", ".join("%s %s%s" % (t, n, (" = " + d) if d is not None else "") for t, n, d in self.params)
        return "%s%s%s %s(%s)%s;" % ("static " if self.static else "", "virtual " if self.virtual else "", self.ret, self.name, ps, " const" if self.const else "")


def acc_expr(t, n):
    if t in ("float", "double"):
        return "(unsigned long long)(long long)(%s * 8)" % n
    if t == "bool":
        return "(unsigned long long)(%s ? 1 : 0)" % n
    if t == "E0":
        return "(unsigned long long)(long long)(int)%s" % n
    return "(unsigned long long)(long long)%s" % n


def ret_expr(ret):
    if ret == "double":
        return "(double)(acc % 100000ULL) / 8.0"
    if ret == "float":
        return "(float)(acc % 4096ULL) / 8.0f"
    if ret in ("unsigned long", "long"):
        return "(%s)(acc | ((acc & 2ULL) << 62))" % ret      # the top bit is set in half of the results
    if ret == "bool":
        return "(acc & 1ULL) != 0"
    if ret == "E0":
        return "((acc & 1ULL) ? e_b : e_c)"
    return "(%s)acc" % ret


def body(m, salt):
    lines = []
    state = "_s" if (m.cls and not m.static) else "g_state"
    lines.append("  unsigned long long acc = %s + %dULL;" % ("_s" if (m.cls and not m.static) else "g_state", salt))
    for t, n, d in m.params:
        lines.append("  acc = acc * 1000003ULL + %s;" % acc_expr(t, n))
    args = ", ".join("(long double)%s" % (n if t != "E0" else "(int)" + n) for t, n, d in m.params)
    lines.append("  tr(\"%s\", %s, {%s});" % (m.scoped(), "_id" if (m.cls and not m.static) else "0", args))
    if not m.const:
        lines.append("  %s = acc;" % state)
    lines.append("  return %s;" % ret_expr(m.ret))
    return "\n".join(lines)


def gen_library(rng, string_mode=False):
    classes = []
    methods = []
    nclass = rng.randrange(1, 4)
    hdr = "#ifndef LIB_H\n#define LIB_H\n#include <string>\n#include <vector>\n#include <initializer_list>\n"
    hdr += "enum E0 { e_a = 0, e_b = 5, e_c = -2 };\n"
    hdr += "extern std::vector<std::string> g_trace;\nextern unsigned long long g_state;\nvoid tr(const char *fn, long long id, std::initializer_list<long double> args);\n"
    hdr += "class Payload {\n__published:\n  Payload(int v);\n  int get() const;\npublic:\n  std::string text;\n  int v;\n};\n"
    hdr += "template<class T> class Box {\n__published:\n  Box(T v) : _v(v) {}\n  T get() const { return _v; }\n  void set(T v) { _v = v; }\n  T _v;\n};\ntypedef Box<int> BoxI;\n"
    hdr += "namespace geo { class Pt {\n__published:\n  Pt(int x) : _x(x) {}\n  int norm() const { return _x * _x; }\n  int _x;\n}; }\n"
    impl = '#include "lib.h"\n#include <cstdio>\nstd::vector<std::string> g_trace;\nunsigned long long g_state = 17;\n'
    impl += ('void tr(const char *fn, long long id, std::initializer_list<long double> args) {\n  std::string s = fn; char b[64]; snprintf(b, sizeof b, " #%lld", id % 100); s += b;\n'
             '  for (long double a : args) { snprintf(b, sizeof b, " %.6Lg", a); s += b; }\n  g_trace.push_back(s);\n}\n')
    impl += "Payload::Payload(int v) : text(\"payload-text-long-enough-to-defeat-small-string-optimisation-\" + std::to_string(v)), v(v) {}\nint Payload::get() const { return v; }\n"
    for ci in range(nclass):
        cname = "C%d" % ci
        base = "C%d" % (ci - 1) if ci > 0 and rng.random() < 0.7 else None
        ms = []
        for k in range(rng.randrange(2, 6)):
            np = rng.randrange(0, 4)
            params = [(rng.choice(list(SCALARS) + ["E0"]), "a%d" % j, None) for j in range(np)]
            ndef = rng.randrange(0, np + 1) if rng.random() < 0.4 else 0
            for j in range(np - ndef, np):
                t = params[j][0]
                params[j] = (t, params[j][1], "e_b" if t == "E0" else rng.choice(SCALARS[t]))
            static = rng.random() < 0.15
            ms.append(M(cname, "m%d_%d" % (ci, k), rng.choice(RETS + ["E0"]), params, static=static, const=(not static and rng.random() < 0.3), ndef=ndef))
        # a virtual family shared down the chain
        ms.append(M(cname, "vfun", "int", [("int", "k", None)], virtual=True, kind="virtual"))
        ms.append(M(cname, "vconst", "long long", [], virtual=True, const=True, kind="virtual"))
        ms.append(M(cname, "name", "const char *", [], const=True, kind="name"))
        if string_mode:
            ms.append(M(cname, "label", "std::string", [], const=True, kind="label"))
            ms.append(M(cname, "echo", "std::string", [("const std::string &", "s", None)], kind="echo"))
        ms.append(M(cname, "take", "int", [("Payload", "p", None)], kind="take"))
        ms.append(M(cname, "cref", "int", [("const Payload &", "p", None)], const=True, kind="cref"))
        ms.append(M(cname, "mref", "int", [("Payload &", "p", None)], kind="mref"))
        ms.append(M(cname, "ptr", "int", [("Payload *", "p", None)], kind="ptr"))
        hdr += "class %s%s {\n__published:\n  %s(int seed);\n  virtual ~%s();\n" % (cname, (" : public " + base) if base else "", cname, cname)
        for m in ms:
            hdr += "  " + m.decl() + "\n"
        hdr += "  int operator + (int k) const;\n  bool operator == (const %s &o) const;\n  %s &operator += (int k);\n  int operator () (int a, int b) const;\n  int operator [] (int i) const;\n" % (cname, cname)
        hdr += "  operator int () const;\n"
        # an overload set in which bool competes with int: each wrapper runs the overload it is documented for
        hdr += "  int choose(bool b) const;\n  int choose(int k) const;\n  int toggle(bool on);\n  int toggle(int level);\n"
        impl += ("int %(c)s::choose(bool b) const { tr(\"%(c)s::choose(bool)\", _id, {(long double)b}); return 11 + (b ? 1 : 0); }\n"
                 "int %(c)s::choose(int k) const { tr(\"%(c)s::choose(int)\", _id, {(long double)k}); return 2000 + k; }\n"
                 "int %(c)s::toggle(bool on) { tr(\"%(c)s::toggle(bool)\", _id, {(long double)on}); _s = _s * 3 + (on ? 1 : 2); return on ? 1 : 0; }\n"
                 "int %(c)s::toggle(int level) { tr(\"%(c)s::toggle(int)\", _id, {(long double)level}); _s = _s * 5 + (unsigned long long)(level & 7); return 100 + level; }\n") % {"c": cname}
        hdr += "  %s operator ++ (int);\n  %s &operator ++ ();\n  %s operator -- (int);\n" % (cname, cname, cname)
        if string_mode:
            hdr += ("  int sel(int key, const std::string &s);\n  int sel(int key, bool b);\n  int find(const std::string &s) const;\n  int find(const char *s) const;\n"
                    "  int pick(const std::string &s, int k = 2) const;\n  int pick(bool b, int k = 2) const;\n")
        hdr += "  class Inner%d {\n  __published:\n    Inner%d(int q);\n    int twice() const;\n    int _q;\n  };\n" % (ci, ci)
        hdr += "  BoxI make_box(int v) const;\n  int read_box(const BoxI &b) const;\n  geo::Pt make_pt(int v) const;\n  int read_pt(const geo::Pt &p) const;\n"
        if string_mode:
            hdr += "  static std::string s_tag%d;\n  std::string text%d;\n" % (ci, ci)
            impl += 'std::string %s::s_tag%d = "static tag %d, long enough to live on the heap";\n' % (cname, ci, ci)
        hdr += "  int _pub%d;\npublic:\n  int pubonly%d(int a);\n  unsigned long long _s;\n  long long _id;\n};\n" % (ci, ci)
        impl += "%s::%s(int seed) : %s_pub%d(seed * 3), _s((unsigned long long)seed * 7919ULL + %d), _id(seed) {}\n%s::~%s() {}\n" % (
            cname, cname, (base + "(seed), ") if base else "", ci, ci, cname, cname)
        for k, m in enumerate(ms):
            sig = "%s %s::%s(%s)%s" % (m.ret, cname, m.name, ", ".join("%s %s" % (t, n) for t, n, d in m.params), " const" if m.const else "")
            if m.kind == "mix":
                impl += "%s {\n%s\n}\n" % (sig, body(m, ci * 100 + k))
            elif m.kind == "virtual" and m.name == "vfun":
                impl += "%s {\n  tr(\"%s::vfun\", _id, {(long double)k});\n  _s = _s * %dULL + (unsigned long long)(long long)k;\n  return (int)(_s %% 100003ULL) + %d;\n}\n" % (sig, cname, 31 + ci, ci * 1000)
            elif m.kind == "virtual":
                impl += "%s {\n  tr(\"%s::vconst\", _id, {});\n  return (long long)(_s %% 9973ULL) * %dLL;\n}\n" % (sig, cname, ci + 2)
            elif m.kind == "name":
                impl += "%s { return \"%s-name\"; }\n" % (sig, cname)
            elif m.kind == "label":
                impl += "%s { return \"label-of-object-number-\" + std::to_string(_id) + \"-of-class-%s\"; }\n" % (sig, cname)
            elif m.kind == "echo":
                impl += "%s { _s += s.size(); return s + \"|\" + std::to_string(_s %% 1000ULL); }\n" % sig
            elif m.kind == "take":
                impl += "%s {\n  tr(\"%s::take\", _id, {(long double)p.v, (long double)p.text.size()});\n  _s += (unsigned long long)p.v;\n  return p.v * 2 + (int)p.text.size();\n}\n" % (sig, cname)
            elif m.kind == "cref":
                impl += "%s {\n  tr(\"%s::cref\", _id, {(long double)p.v});\n  return p.v + (int)(_s %% 97ULL);\n}\n" % (sig, cname)
            elif m.kind == "mref":
                impl += "%s {\n  tr(\"%s::mref\", _id, {(long double)p.v});\n  p.v += 11; p.text += \"!\";\n  _s += 1;\n  return p.v;\n}\n" % (sig, cname)
            elif m.kind == "ptr":
                impl += "%s {\n  tr(\"%s::ptr\", _id, {(long double)(p ? p->v : -1)});\n  if (p) { p->v *= 2; }\n  return p ? p->v : -1;\n}\n" % (sig, cname)
        impl += ("int %s::operator + (int k) const { tr(\"%s::operator+\", _id, {(long double)k}); return (int)(_s %% 1000ULL) + k; }\n"
                 "bool %s::operator == (const %s &o) const { return _s == o._s; }\n"
                 "%s &%s::operator += (int k) { tr(\"%s::operator+=\", _id, {(long double)k}); _s += (unsigned long long)(long long)k; return *this; }\n"
                 "int %s::operator () (int a, int b) const { return (int)(_s %% 100ULL) + a * 7 + b; }\n"
                 "int %s::operator [] (int i) const { return (int)(_s %% 50ULL) * 3 + i; }\n"
                 "%s::operator int () const { return (int)(_s %% 30011ULL); }\n") % (cname, cname, cname, cname, cname, cname, cname, cname, cname, cname)
        impl += ("%(c)s %(c)s::operator ++ (int) { tr(\"%(c)s::operator++(int)\", _id, {}); %(c)s old(*this); _s += 5; return old; }\n"
                 "%(c)s &%(c)s::operator ++ () { tr(\"%(c)s::operator++()\", _id, {}); _s += 7; return *this; }\n"
                 "%(c)s %(c)s::operator -- (int) { tr(\"%(c)s::operator--(int)\", _id, {}); %(c)s old(*this); _s -= 3; return old; }\n") % {"c": cname}
        if string_mode:
            impl += ("int %(c)s::sel(int key, const std::string &s) { tr(\"%(c)s::sel(string)\", _id, {(long double)key}); _s += s.size(); return 1000 + key + (int)s.size(); }\n"
                     "int %(c)s::sel(int key, bool b) { tr(\"%(c)s::sel(bool)\", _id, {(long double)key}); _s += 100; return 2000 + key + (b ? 1 : 0); }\n"
                     "int %(c)s::find(const std::string &s) const { tr(\"%(c)s::find(string)\", _id, {}); return 3000 + (int)s.size(); }\n"
                     "int %(c)s::find(const char *s) const { tr(\"%(c)s::find(cstr)\", _id, {}); return 4000 + (s ? (int)std::string(s).size() : -1); }\n"
                     "int %(c)s::pick(const std::string &s, int k) const { tr(\"%(c)s::pick(string)\", _id, {(long double)k}); return 5000 + k * 10 + (int)s.size(); }\n"
                     "int %(c)s::pick(bool b, int k) const { tr(\"%(c)s::pick(bool)\", _id, {(long double)k}); return 6000 + k * 10 + (b ? 1 : 0); }\n") % {"c": cname}
        impl += "%s::Inner%d::Inner%d(int q) : _q(q) {}\nint %s::Inner%d::twice() const { return _q * 2 + %d; }\n" % (cname, ci, ci, cname, ci, ci)
        impl += ("BoxI %s::make_box(int v) const { return BoxI(v + (int)(_s %% 7ULL)); }\nint %s::read_box(const BoxI &b) const { return b.get() * 3; }\n"
                 "geo::Pt %s::make_pt(int v) const { return geo::Pt(v - (int)(_s %% 5ULL)); }\nint %s::read_pt(const geo::Pt &p) const { return p.norm() + 1; }\n") % (cname, cname, cname, cname)
        impl += "int %s::pubonly%d(int a) { tr(\"%s::pubonly\", _id, {(long double)a}); _s += 3; return a + %d; }\n" % (cname, ci, cname, ci)
        classes.append({"name": cname, "base": base, "methods": ms, "field": "_pub%d" % ci, "index": ci})
        methods += ms
    last = classes[-1]["name"]
    hdr += "class Side {\n__published:\n  Side(int q);\n  virtual ~Side();\n  virtual int side_val() const;\n  int _q;\n};\n"
    hdr += "class Multi : public %s, public Side {\n__published:\n  Multi(int seed);\n  virtual int side_val() const;\n  int both() const;\n};\n" % last
    impl += "Side::Side(int q) : _q(q) {}\nSide::~Side() {}\nint Side::side_val() const { return _q * 3; }\n"
    impl += "Multi::Multi(int seed) : %s(seed), Side(seed + 100) {}\nint Multi::side_val() const { return _q * 5 + (int)(_s %% 11ULL); }\nint Multi::both() const { return _q + (int)(_s %% 13ULL); }\n" % last
    multi = {"base": last}
    frees = []
    for k in range(rng.randrange(1, 3)):
        np = rng.randrange(1, 4)
        params = [(rng.choice(list(SCALARS)), "a%d" % j, None) for j in range(np)]
        ndef = rng.randrange(0, np)
        for j in range(np - ndef, np):
            params[j] = (params[j][0], params[j][1], rng.choice(SCALARS[params[j][0]]))
        m = M(None, "free%d" % k, rng.choice(RETS), params, ndef=ndef)
        frees.append(m)
    if string_mode:
        hdr += "__begin_publish\nextern std::string g_title;\n__end_publish\n"
        impl += 'std::string g_title = "a global title that is long enough to live on the heap";\n'
    hdr += "__begin_publish\n" + "".join(m.decl() + "\n" for m in frees) + "__end_publish\n#endif\n"
    for k, m in enumerate(frees):
        impl += "%s %s(%s) {\n%s\n}\n" % (m.ret, m.name, ", ".join("%s %s" % (t, n) for t, n, d in m.params), body(m, 900 + k))
    return {"header": hdr, "impl": impl, "classes": classes, "frees": frees, "multi": multi}


WRAP = re.compile(r"/\*\n \* C wrapper for\n \* ([^\n]*)\n \*/\n([^\n]*)\n(_in\w+)\(([^)]*)\) \{", re.M)


def parse_wrappers(code):
    out = []
    for proto, ret, name, params in WRAP.findall(code):
        ps = [p.strip() for p in params.split(",")] if params.strip() and params.strip() != "void" else []
        m = re.search(r"((?:\w+(?:< [^>]* >)?::)*~?\w+)\(", proto)
        scoped = m.group(1) if m else None
        mo = re.search(r"((?:\w+::)+)operator ?(\S+?)\(", proto)
        if mo:
            scoped = mo.group(1) + "operator" + mo.group(2)
        elif proto.startswith("operator "):
            scoped = "typecast " + proto.split("(")[0][len("operator "):].strip()
        out.append({"proto": proto, "ret": ret.replace("static ", "").strip(), "name": name, "params": ps, "scoped": scoped})
    return out


def cmp_stmt(ret, tag, w, d):
    if ret == "const char *" or ret == "std::string":
        return 'chk("%s", std::string(%s) == std::string(%s));' % (tag, w, d)
    return 'chk("%s", (%s) == (%s));' % (tag, w, d)


def gen_driver(lib, wrappers, rng, string_mode=False, promiscuous=False):
    """C++ source that includes the generated code and compares each wrapper with the direct call"""
    out = ['#include "lib.h"', '#include <cstdio>', '#include <string>', '#include "o.cxx"',
           "static int failures = 0, checks = 0;",
           'static void chk(const char *what, bool ok) { ++checks; if (!ok) { ++failures; std::printf("MISMATCH %s\\n", what); } }',
           "static void trace_pair(const char *what, size_t mark) {",
           "  // the instrumented bodies run since `mark` alternate (wrapper call, direct call): same function, same arguments, same object number",
           "  size_t n = g_trace.size() - mark;",
           '  if (n % 2 != 0) { chk(what, false); return; }',
           "  for (size_t i = 0; i + 1 < n; i += 2) chk(what, g_trace[mark + i] == g_trace[mark + i + 1]);",
           "}",
           "int main() {"]
    by_scoped = {}
    for w in wrappers:
        by_scoped.setdefault(w["scoped"], []).append(w)
    uid = [0]

    def fresh():
        uid[0] += 1
        return uid[0]

    classes = {c["name"]: c for c in lib["classes"]}

    def derived_of(cname):
        return [c["name"] for c in lib["classes"] if chain(c["name"]) and cname in chain(c["name"])[1:]]

    def chain(cname):
        r = [cname]
        while classes[r[-1]]["base"]:
            r.append(classes[r[-1]]["base"])
        return r

    for c in lib["classes"]:
        for m in c["methods"]:
            ws = by_scoped.get(m.scoped(), [])
            for w in ws:
                nthis = 0 if m.static else 1
                arity = len(w["params"]) - nthis
                if arity < len(m.params) - m.ndef or arity > len(m.params):
                    continue
                # objects the wrapper may be called on: the class itself and every class derived from it
                for dyn in [c["name"]] + derived_of(c["name"]):
                    for rep in range(2):
                        k = fresh()
                        seed = rng.randrange(1, 90)
                        out.append("  { // %s on a %s" % (w["proto"], dyn))
                        out.append("    %s ow(%d), od(%d); %s *pw = &ow; %s *pd = &od; size_t mark = g_trace.size();" % (dyn, seed, seed, c["name"], c["name"]))
                        tag = "%s/%d on %s" % (m.scoped(), arity, dyn)
                        if m.kind in ("take", "cref", "mref", "ptr"):
                            out.append("    Payload aw(%d), ad(%d);" % (seed + 3, seed + 3))
                            wa = "&aw"
                            da = {"take": "ad", "cref": "ad", "mref": "ad", "ptr": "&ad"}[m.kind]
                            out.append("    auto rw = %s(pw, %s); auto rd = pd->%s(%s);" % (w["name"], wa, m.name, da))
                            out.append("    " + cmp_stmt(m.ret, tag + " result", "rw", "rd"))
                            out.append('    chk("%s argument afterwards", aw.v == ad.v && aw.text == ad.text);' % tag)
                            # repeated call with the same argument object: each call sees the value of that call
                            out.append("    auto rw2 = %s(pw, %s); auto rd2 = pd->%s(%s);" % (w["name"], wa, m.name, da))
                            out.append("    " + cmp_stmt(m.ret, tag + " second call", "rw2", "rd2"))
                        elif m.kind == "echo":
                            out.append('    const char *rw = %s(pw, "hello \\\\ world"); std::string rd = pd->echo("hello \\\\ world");' % w["name"])
                            out.append("    " + cmp_stmt("std::string", tag, "rw", "rd"))
                        else:
                            tuples = []
                            for t, n, d in m.params[:arity]:
                                tuples.append(["e_a", "e_b", "e_c"] if t == "E0" else SCALARS[t])
                            for trial in range(3):
                                args = [rng.choice(vals) if trial else vals[min(trial, len(vals) - 1)] for vals in tuples]
                                wargs = ", ".join((["pw"] if not m.static else []) + args)
                                dcall = ("pd->%s(%s)" if not m.static else c["name"] + "::%s(%s)") % (m.name, ", ".join(args))
                                if m.static:
                                    out.append("    g_state = %d;" % (trial + 5))
                                if w["ret"] == "void":
                                    # the back-end does not accept this result kind (e.g. char const * without -string): the call is made, the value dropped
                                    out.append("    { %s(%s);" % (w["name"], wargs))
                                    if m.static:
                                        out.append("      g_state = %d;" % (trial + 5))
                                    out.append("      (void)%s; }" % dcall)
                                    continue
                                out.append("    { auto rw = %s(%s);" % (w["name"], wargs))
                                if m.static:
                                    out.append("      g_state = %d;" % (trial + 5))
                                out.append("      auto rd = %s;" % dcall)
                                out.append("      " + cmp_stmt(m.ret, tag + " result", "rw", "rd") + " }")
                        if not m.static:
                            out.append('    chk("%s object state", ow._s == od._s);' % tag)
                        out.append('    trace_pair("%s trace", mark);' % tag)
                        out.append("  }")
                        if m.kind not in ("virtual", "label", "name"):
                            break
        # data member accessors
        cn, fld = c["name"], c["field"]
        for w in by_scoped.get("%s::get%s" % (cn, fld), []):
            out.append("  { %s ow(7), od(7); chk(\"getter %s\", %s(&ow) == od.%s); }" % (cn, fld, w["name"], fld))
        for w in by_scoped.get("%s::set%s" % (cn, fld), []):
            out.append("  { %s ow(7), od(7); %s(&ow, -123456); od.%s = -123456; chk(\"setter %s\", ow.%s == od.%s); }" % (cn, w["name"], fld, fld, fld, fld))
        if string_mode:
            # reading a string-valued variable leaves it as it was: read twice, compare both answers and the variable itself
            for w in by_scoped.get("%s::get_s_tag%d" % (cn, c["index"]), []):
                out.append("  { std::string before = %s::s_tag%d; std::string r1 = %s(); std::string r2 = %s(); chk(\"static string member read twice\", r1 == before && r2 == before && %s::s_tag%d == before); }"
                           % (cn, c["index"], w["name"], w["name"], cn, c["index"]))
            for w in by_scoped.get("%s::get_text%d" % (cn, c["index"]), []):
                out.append("  { %s ow(7); ow.text%d = \"member text long enough to live on the heap\"; std::string before = ow.text%d; std::string r1 = %s(&ow); std::string r2 = %s(&ow); chk(\"string member read twice\", r1 == before && r2 == before && ow.text%d == before); }"
                           % (cn, c["index"], c["index"], w["name"], w["name"], c["index"]))
        # operators, typecast, nested class, typedef'd template instantiation, namespace class
        def first(scoped, pred=lambda w: True):
            ws = [w for w in by_scoped.get(scoped, []) if pred(w)]
            return ws[0] if ws else None
        w = first("%s::operator+" % cn)
        if w:
            out.append("  { %s ow(9), od(9); size_t mark = g_trace.size(); chk(\"%s operator+\", %s(&ow, 5) == (od + 5)); trace_pair(\"%s operator+ trace\", mark); }" % (cn, cn, w["name"], cn))
        w = first("%s::operator==" % cn)
        if w:
            out.append("  { %s a(9), b(9), c2(10); chk(\"%s operator==\", %s(&a, &b) == (a == b) && %s(&a, &c2) == (a == c2)); }" % (cn, cn, w["name"], w["name"]))
        w = first("%s::operator+=" % cn)
        if w:
            out.append("  { %s ow(9), od(9); %s *r = %s(&ow, 4); od += 4; chk(\"%s operator+= returns its object and updates it\", r == &ow && ow._s == od._s); }" % (cn, cn, w["name"], cn))
        # postfix ++ / --: a new object holding the previous value comes back, the operand is advanced
        for op, delta in (("++", "++"), ("--", "--")):
            w = first("%s::operator%s" % (cn, op), lambda w: len(w["params"]) == 2)
            if w:
                out.append("  { %s ow(9), od(9); size_t mark = g_trace.size(); %s *rw = %s(&ow, 0); %s rd = od%s; chk(\"%s postfix %s returns the previous value in a new object\", rw != nullptr && rw != &ow && rw->_s == rd._s); chk(\"%s postfix %s advances the operand\", ow._s == od._s); trace_pair(\"%s postfix %s trace\", mark); if (rw != &ow) delete rw; }"
                           % (cn, cn, w["name"], cn, delta, cn, op, cn, op, cn, op))
        w = first("%s::operator++" % cn, lambda w: len(w["params"]) == 1)
        if w:
            out.append("  { %s ow(9), od(9); %s *rw = %s(&ow); ++od; chk(\"%s prefix ++ returns its object and advances it\", rw == &ow && ow._s == od._s); }" % (cn, cn, w["name"], cn))
        # overload sets in which a std::string parameter competes with bool / char const *: the wrapper documented for the string overload runs it
        for mname, nargs_extra in (("sel", "k"), ("find", ""), ("pick", "")):
            for w in by_scoped.get("%s::%s" % (cn, mname), []):
                if "string" not in w["proto"]:
                    continue
                for text in ('"abc"', '""', '"a longer piece of text"'):
                    if mname == "sel":
                        wcall, dcall = "%s(&ow, 5, %s)" % (w["name"], text), "od.sel(5, std::string(%s))" % text
                    elif mname == "find":
                        wcall, dcall = "%s(&ow, %s)" % (w["name"], text), "od.find(std::string(%s))" % text
                    else:
                        extra = ", 7" if len(w["params"]) == 3 else ""
                        wcall, dcall = "%s(&ow, %s%s)" % (w["name"], text, extra), "od.pick(std::string(%s)%s)" % (text, extra)
                    out.append("  { %s ow(9), od(9); size_t mark = g_trace.size(); chk(\"%s::%s string overload result\", %s == %s); chk(\"%s::%s string overload state\", ow._s == od._s); trace_pair(\"%s::%s string overload trace\", mark); }"
                               % (cn, cn, mname, wcall, dcall, cn, mname, cn, mname))
        for mname in ("choose", "toggle"):
            for w in by_scoped.get("%s::%s" % (cn, mname), []):
                vals = ["true", "false"] if "bool" in w["proto"] else ["5", "0", "1"]
                cast = "(bool)" if "bool" in w["proto"] else "(int)"
                for v in vals:
                    out.append("  { %s ow(9), od(9); size_t mark = g_trace.size(); chk(\"%s::%s bool/int overload result\", %s(&ow, %s) == od.%s(%s%s)); chk(\"%s::%s bool/int overload state\", ow._s == od._s); trace_pair(\"%s::%s bool/int overload trace\", mark); }"
                               % (cn, cn, mname, w["name"], v, mname, cast, v, cn, mname, cn, mname))
        w = first("%s::operator()" % cn)
        if w:
            out.append("  { %s ow(9), od(9); chk(\"%s operator()\", %s(&ow, 2, 3) == od(2, 3)); }" % (cn, cn, w["name"]))
        w = first("%s::operator[]" % cn)
        if w:
            out.append("  { %s ow(9), od(9); chk(\"%s operator[]\", %s(&ow, 6) == od[6]); }" % (cn, cn, w["name"]))
        w = first("typecast int", lambda w: w["params"] and w["params"][0].startswith(cn + " "))
        if w:
            out.append("  { %s ow(9), od(9); chk(\"%s typecast to int\", %s(&ow) == (int)od); }" % (cn, cn, w["name"]))
        inner = "%s::Inner%d" % (cn, c["index"])
        w1, w2 = first("%s::Inner%d" % (inner, c["index"]), lambda w: w["params"] == ["int param0"]), first(inner + "::twice")
        if w1 and w2:
            out.append("  { %s *h = %s(21); %s d(21); chk(\"%s nested class\", h != nullptr && %s(h) == d.twice()); delete h; }" % (inner, w1["name"], inner, cn, w2["name"]))
        w1, w2, w3 = first("%s::make_box" % cn), first("%s::read_box" % cn), first("Box< int >::get")
        if w1 and w2 and w3:
            out.append("  { %s ow(9), od(9); BoxI *bw = %s(&ow, 30); BoxI bd = od.make_box(30); chk(\"%s typedef'd template result\", bw != nullptr && %s(bw) == bd.get()); chk(\"%s typedef'd template argument\", %s(&ow, bw) == od.read_box(bd)); delete bw; }"
                       % (cn, w1["name"], cn, w3["name"], cn, w2["name"]))
        w1, w2, w3 = first("%s::make_pt" % cn), first("%s::read_pt" % cn), first("geo::Pt::norm")
        if w1 and w2 and w3:
            out.append("  { %s ow(9), od(9); geo::Pt *pw2 = %s(&ow, 12); geo::Pt pd2 = od.make_pt(12); chk(\"%s namespace class result\", pw2 != nullptr && %s(pw2) == pd2.norm()); chk(\"%s namespace class argument\", %s(&ow, pw2) == od.read_pt(pd2)); delete pw2; }"
                       % (cn, w1["name"], cn, w3["name"], cn, w2["name"]))
        w = first("%s::pubonly%d" % (cn, c["index"]))
        if w:
            out.append("  { %s ow(9), od(9); size_t mark = g_trace.size(); chk(\"%s public-only method (-promiscuous)\", %s(&ow, 8) == od.pubonly%d(8) && ow._s == od._s); trace_pair(\"%s pubonly trace\", mark); }" % (cn, cn, w["name"], c["index"], cn))
        elif promiscuous:
            out.append("  chk(\"%s::pubonly%d has a wrapper under -promiscuous\", false);" % (cn, c["index"]))
        # labels of different objects, in a row (each call returns the value produced by that call)
        if string_mode:
            ws = [w for w in by_scoped.get("%s::label" % c["name"], [])]
            if ws:
                out.append("  { %s o1(11), o2(22), o3(33);" % c["name"])
                out.append("    std::string l1 = %s(&o1); std::string l2 = %s(&o2); std::string l3 = %s(&o3);" % (ws[0]["name"], ws[0]["name"], ws[0]["name"]))
                out.append('    chk("%s::label of three objects", l1 == o1.label() && l2 == o2.label() && l3 == o3.label()); }' % c["name"])
    # multiple inheritance: the cast wrappers adjust the pointer, and methods reached through them dispatch virtually
    if lib.get("multi"):
        base = lib["multi"]["base"]
        up_s = [w for w in by_scoped.get("Multi::upcast_to_Side", [])]
        up_b = [w for w in by_scoped.get("Multi::upcast_to_%s" % base, [])]
        down_s = [w for w in by_scoped.get("Side::downcast_to_Multi", [])]
        sv = [w for w in by_scoped.get("Side::side_val", [])]
        both = [w for w in by_scoped.get("Multi::both", [])]
        if up_s and up_b:
            out.append("  { Multi ow(6), od(6);")
            out.append("    Side *ps = %s(&ow); %s *pb = %s(&ow);" % (up_s[0]["name"], base, up_b[0]["name"]))
            out.append('    chk("Multi upcast wrappers adjust the pointer", ps == static_cast<Side *>(&ow) && pb == static_cast<%s *>(&ow) && (void *)ps != (void *)pb);' % base)
            if down_s:
                out.append('    chk("Side downcast wrapper", %s(ps) == &ow);' % down_s[0]["name"])
            if sv:
                out.append('    chk("virtual method through the second base", %s(ps) == static_cast<Side *>(&od)->side_val());' % sv[0]["name"])
            if both:
                out.append('    chk("Multi method using both sub-objects", %s(&ow) == od.both());' % both[0]["name"])
            out.append("  }")
        else:
            out.append('  chk("Multi has upcast wrappers", false);')
    for m in lib["frees"]:
        for w in by_scoped.get(m.name, []):
            arity = len(w["params"])
            if arity < len(m.params) - m.ndef or arity > len(m.params):
                continue
            for trial in range(3):
                args = [rng.choice(SCALARS[t]) for t, n, d in m.params[:arity]]
                out.append("  { g_state = %d; auto rw = %s(%s); g_state = %d; auto rd = %s(%s);" % (trial, w["name"], ", ".join(args), trial, m.name, ", ".join(args)))
                out.append("    " + cmp_stmt(m.ret, "%s/%d" % (m.name, arity), "rw", "rd") + " }")
    if string_mode:
        for w in by_scoped.get("get_g_title", []):
            out.append("  { std::string before = g_title; std::string r1 = %s(); std::string r2 = %s(); chk(\"global string read twice\", r1 == before && r2 == before && g_title == before); }" % (w["name"], w["name"]))
    out.append('  std::printf("checks=%d failures=%d\\n", checks, failures);')
    out.append("  return failures ? 1 : 0;")
    out.append("}")
    return "\n".join(out) + "\n"


# ---------------------------------------------------------------------------------------------------- -python back-end

PYWRAP = re.compile(r"/\*\n \* Python simple wrapper for\n \* ([^\n]*)\n \*/\nPyObject \*\n(_in\w+)\(PyObject \*, PyObject \*args\) \{", re.M)


def split_params(proto):
    i = proto.rindex("(") if proto.rstrip().endswith(")") or ") const" in proto else proto.index("(")
    # the parameter list is the last top-level parenthesis group
    depth = 0
    start = None
    groups = []
    for k, ch in enumerate(proto):
        if ch == "(":
            if depth == 0:
                start = k
            depth += 1
        elif ch == ")":
            depth -= 1
            if depth == 0:
                groups.append(proto[start + 1:k])
    inner = groups[-1] if groups else ""
    if inner.strip() in ("", "void"):
        return []
    out, depth, cur = [], 0, ""
    for ch in inner:
        if ch in "(<[":
            depth += 1
        elif ch in ")>]":
            depth -= 1
        if ch == "," and depth == 0:
            out.append(cur.strip())
            cur = ""
        else:
            cur += ch
    out.append(cur.strip())
    return out


def parse_py_wrappers(code):
    out = []
    for mm in PYWRAP.finditer(code):
        proto, name = mm.group(1), mm.group(2)
        body = code[mm.end():code.index("\n}\n", mm.end())]
        m = re.search(r"((?:\w+::)*~?\w+)\(", proto)
        f = re.search(r'PyArg_ParseTuple\(args, "([^"]*)"', body)
        units = len(re.findall(r"[a-zA-Z]", f.group(1))) if f else 0
        has_this = bool(re.search(r"\(\*\(\w+(?: const)? \*\)param0\)", body))
        out.append({"proto": proto, "name": name, "nparams": units - (1 if has_this else 0), "scoped": m.group(1) if m else None, "format": f.group(1) if f else ""})
    return out


def py_arg(t, v):
    if t in ("float", "double"):
        return "PyFloat_FromDouble((double)%s)" % v
    if t == "bool":
        return "PyBool_FromLong(%s ? 1 : 0)" % v
    if t in ("unsigned long long", "unsigned long"):
        return "PyLong_FromUnsignedLongLong((unsigned long long)%s)" % v
    return "PyLong_FromLongLong((long long)%s)" % v


def py_ret_cmp(ret, tag, d):
    if ret in ("double", "float"):
        return 'chk("%s", r != nullptr && PyFloat_AsDouble(r) == (double)(%s) && !PyErr_Occurred());' % (tag, d)
    if ret == "bool":
        return 'chk("%s", r != nullptr && (PyObject_IsTrue(r) == 1) == (bool)(%s));' % (tag, d)
    if ret in ("unsigned long long", "unsigned long"):
        return 'chk("%s", r != nullptr && PyLong_AsUnsignedLongLong(r) == (unsigned long long)(%s) && !PyErr_Occurred());' % (tag, d)
    if ret in ("const char *", "std::string"):
        return 'chk("%s", r != nullptr && PyUnicode_Check(r) && std::string(PyUnicode_AsUTF8(r)) == std::string(%s));' % (tag, d)
    return 'chk("%s", r != nullptr && PyLong_AsLongLong(r) == (long long)(%s) && !PyErr_Occurred());' % (tag, d)


def gen_py_driver(lib, wrappers, rng, string_mode=False):
    out = ['#define PY_SSIZE_T_CLEAN 1', '#include <Python.h>', '#include "lib.h"', '#include <cstdio>', '#include <string>', '#include "p.cxx"',
           "static int failures = 0, checks = 0;",
           'static void chk(const char *what, bool ok) { ++checks; if (!ok) { ++failures; std::printf("MISMATCH %s\\n", what); if (PyErr_Occurred()) { PyErr_Print(); } } PyErr_Clear(); }',
           "static PyObject *tup(std::initializer_list<PyObject *> xs) { PyObject *t = PyTuple_New((Py_ssize_t)xs.size()); Py_ssize_t i = 0; for (PyObject *x : xs) PyTuple_SET_ITEM(t, i++, x); return t; }",
           "static PyObject *H(void *p) { return PyLong_FromSsize_t((Py_ssize_t)p); }",
           "int main() {", "  Py_Initialize();"]
    by_scoped = {}
    for w in wrappers:
        by_scoped.setdefault(w["scoped"], []).append(w)
    classes = {c["name"]: c for c in lib["classes"]}

    def chain(cname):
        r = [cname]
        while classes[r[-1]]["base"]:
            r.append(classes[r[-1]]["base"])
        return r

    def derived_of(cname):
        return [c["name"] for c in lib["classes"] if cname in chain(c["name"])[1:]]

    for c in lib["classes"]:
        for m in c["methods"]:
            for w in by_scoped.get(m.scoped(), []):
                arity = w["nparams"]
                if arity < len(m.params) - m.ndef or arity > len(m.params):
                    continue
                for dyn in [c["name"]] + derived_of(c["name"]):
                    seed = rng.randrange(1, 90)
                    tag = "%s/%d on %s" % (m.scoped(), arity, dyn)
                    out.append("  { // %s" % w["proto"])
                    out.append("    %s ow(%d), od(%d); %s *pw = &ow; %s *pd = &od;" % (dyn, seed, seed, c["name"], c["name"]))
                    if m.kind in ("take", "cref", "mref", "ptr"):
                        da = {"take": "ad", "cref": "ad", "mref": "ad", "ptr": "&ad"}[m.kind]
                        out.append("    Payload aw(%d), ad(%d);" % (seed + 3, seed + 3))
                        out.append("    PyObject *a = tup({H(pw), H(&aw)}); PyObject *r = %s(nullptr, a); auto rd = pd->%s(%s);" % (w["name"], m.name, da))
                        out.append("    " + py_ret_cmp(m.ret, tag + " result", "rd"))
                        out.append('    chk("%s argument afterwards", aw.v == ad.v && aw.text == ad.text);' % tag)
                    elif m.kind == "echo":
                        out.append('    PyObject *a = tup({H(pw), PyUnicode_FromString("hello \\\\ world")}); PyObject *r = %s(nullptr, a); std::string rd = pd->echo("hello \\\\ world");' % w["name"])
                        out.append("    " + py_ret_cmp("std::string", tag, "rd"))
                    else:
                        for trial in range(3):
                            args = []
                            for t, n, d in m.params[:arity]:
                                vals = ["e_a", "e_b", "e_c"] if t == "E0" else SCALARS[t]
                                args.append((t, rng.choice(vals) if trial else vals[0]))
                            pyargs = ", ".join((["H(pw)"] if not m.static else []) + [py_arg(t, v) for t, v in args])
                            dcall = ("pd->%s(%s)" if not m.static else c["name"] + "::%s(%s)") % (m.name, ", ".join(v for t, v in args))
                            out.append("    {%s PyObject *a = tup({%s}); PyObject *r = %s(nullptr, a);%s auto rd = %s;" % (
                                (" g_state = %d;" % (trial + 5)) if m.static else "", pyargs, w["name"], (" g_state = %d;" % (trial + 5)) if m.static else "", dcall))
                            if m.ret == "const char *" and not string_mode:
                                out.append("      (void)rd; (void)r; }")          # result kind not accepted without -string
                            else:
                                out.append("      " + py_ret_cmp(m.ret, tag + " result", "rd") + " }")
                    if not m.static:
                        out.append('    chk("%s object state", ow._s == od._s);' % tag)
                    out.append("  }")
                    if m.kind not in ("virtual", "label", "name"):
                        break
        for mname in ("choose", "toggle"):
            for w in by_scoped.get("%s::%s" % (c["name"], mname), []):
                isb = "bool" in w["proto"]
                for v in (["true", "false"] if isb else ["5", "0", "1"]):
                    out.append("  { // %s" % w["proto"])
                    out.append("    %s ow(9), od(9); PyObject *a = tup({H(&ow), %s}); PyObject *r = %s(nullptr, a); auto rd = od.%s(%s%s);" % (
                        c["name"], py_arg("bool" if isb else "int", v), w["name"], mname, "(bool)" if isb else "(int)", v))
                    out.append("    " + py_ret_cmp("int", "%s::%s bool/int overload result" % (c["name"], mname), "rd"))
                    out.append('    chk("%s::%s bool/int overload state", ow._s == od._s); }' % (c["name"], mname))
        if string_mode:
            ws = by_scoped.get("%s::label" % c["name"], [])
            if ws:
                out.append("  { %s o1(11), o2(22), o3(33);" % c["name"])
                out.append("    PyObject *r1 = %s(nullptr, tup({H(&o1)})); PyObject *r2 = %s(nullptr, tup({H(&o2)})); PyObject *r3 = %s(nullptr, tup({H(&o3)}));" % (ws[0]["name"], ws[0]["name"], ws[0]["name"]))
                out.append('    chk("%s::label of three objects", r1 && r2 && r3 && o1.label() == PyUnicode_AsUTF8(r1) && o2.label() == PyUnicode_AsUTF8(r2) && o3.label() == PyUnicode_AsUTF8(r3)); }' % c["name"])
    for m in lib["frees"]:
        for w in by_scoped.get(m.name, []):
            arity = w["nparams"]
            if arity < len(m.params) - m.ndef or arity > len(m.params):
                continue
            for trial in range(3):
                args = [(t, rng.choice(SCALARS[t])) for t, n, d in m.params[:arity]]
                out.append("  { g_state = %d; PyObject *r = %s(nullptr, tup({%s})); g_state = %d; auto rd = %s(%s);" % (
                    trial, w["name"], ", ".join(py_arg(t, v) for t, v in args), trial, m.name, ", ".join(v for t, v in args)))
                out.append("    " + py_ret_cmp(m.ret, "%s/%d" % (m.name, arity), "rd") + " }")
    out.append('  std::printf("checks=%d failures=%d\\n", checks, failures);')
    out.append("  return failures ? 1 : 0;")
    out.append("}")
    return "\n".join(out) + "\n"
