"""Generated scope / template programs for C06 and their checks (Lean findType model + g++ oracle)."""
import re

import iglib

POOL = ["Handle", "Id", "Key", "Tag"]


def parse_dump(text):
    """the -oh text dump: functions (prototypes), elements (type), types (flags, wrapped_type)"""
    out = {"functions": {}, "elements": {}, "types": {}}
    cur = None
    in_proto = False
    for line in text.split("\n"):
        m = re.match(r'^(function|element|type) "(.*)" \{$', line)
        if m:
            cur = (m.group(1), m.group(2))
            in_proto = False
            if cur[0] == "function":
                out["functions"].setdefault(cur[1], [])
            elif cur[0] == "element":
                out["elements"].setdefault(cur[1], {})
            else:
                out["types"].setdefault(cur[1], {})
            continue
        if line.startswith("}"):
            cur = None
            in_proto = False
            continue
        if cur is None:
            continue
        if cur[0] == "function":
            if line.strip() == "prototype:":
                in_proto = True
                continue
            if in_proto:
                if not line.strip():
                    in_proto = False
                elif line.startswith("    ") and line.rstrip().endswith(";"):
                    out["functions"][cur[1]].append(line.strip()[:-1])
                else:
                    in_proto = False
        else:
            m = re.match(r"^  (\w+): (.*)$", line)
            if m:
                d = out["elements"][cur[1]] if cur[0] == "element" else out["types"][cur[1]]
                d[m.group(1)] = m.group(2)
    return out


def interrogate(bdir, wd, hdr_name, tag):
    cmd = [str(bdir / "bin" / "interrogate"), "-D__cplusplus", "-oc", "%s.cxx" % tag, "-od", "%s.in" % tag, "-oh", "%s.txt" % tag,
           "-module", "m", "-library", "l", "-c", "-fnames", hdr_name]
    rc, so, se = iglib.sh(cmd, cwd=str(wd), timeout=120)
    dump = (wd / ("%s.txt" % tag)).read_text(errors="replace") if (wd / ("%s.txt" % tag)).exists() else ""
    return rc, so + se, dump, " ".join(cmd)


def gxx(wd, text, name):
    p = wd / name
    p.write_text(text)
    rc, out, err = iglib.sh(["g++", "-std=c++17", "-fsyntax-only", "-w", "-D__published=public", "-I", str(wd), str(p)], timeout=300)
    return rc, err


# ---------------------------------------------------------------------------------------------- scopes

class Ent:
    def __init__(self, eid, fq):
        self.eid, self.fq = eid, fq


def gen_scope_program(rng):
    """namespaces with shadowing type names; classes with bases from other namespaces, nested types, and
    unqualified uses.  Returns (text, uses, ents) where uses = [(class fq, method, name, chain encoding)]."""
    ents = []
    ns_paths = [()]
    for a in range(rng.randrange(1, 4)):
        ns_paths.append(("n%d" % a,))
        if rng.random() < 0.5:
            ns_paths.append(("n%d" % a, "m%d" % a))
    ns_types = {p: [] for p in ns_paths}       # path -> [(name, Ent)]

    def new_ent(fq):
        e = Ent(len(ents) + 1, fq)
        ents.append(e)
        return e

    text = ""
    for p in ns_paths:
        names = [n for n in POOL if rng.random() < (0.75 if p == () else 0.5)]
        body = ""
        for n in names:
            e = new_ent("::".join(p + (n,)))
            ns_types[p].append((n, e))
            body += "struct %s { int u%d; };\n" % (n, e.eid)
        text += "".join("namespace %s { " % x for x in p) + "\n" + body + "}" * len(p) + "\n"

    classes = []        # dict(name, path, fq, bases, nested)
    uses = []

    def scope_enc(c):
        return "S %d%s 0 %d%s" % (len(c["nested"]), "".join(" %s %d" % (n, e.eid) for n, e in c["nested"]),
                                  len(c["bases"]), "".join(" " + scope_enc(b) for b in c["bases"]))

    def ns_enc(p):
        ts = ns_types[p]
        return "S %d%s 0 0" % (len(ts), "".join(" %s %d" % (n, e.eid) for n, e in ts))

    for k in range(rng.randrange(2, 6)):
        p = rng.choice(ns_paths)
        name = "C%d" % k
        fq = "::".join(p + (name,))
        bases = rng.sample(classes, min(len(classes), rng.choice([0, 1, 1, 2]))) if classes else []
        c = {"name": name, "path": p, "fq": fq, "bases": bases, "nested": []}
        nested_part, use_part = "", ""
        for n in POOL:
            if rng.random() < 0.2:
                e = new_ent(fq + "::" + n)
                c["nested"].append((n, e))
                nested_part += "  struct %s { int u%d; };\n" % (n, e.eid)
        for j in range(rng.randrange(2, 5)):
            n = rng.choice(POOL)
            chain = [scope_enc(c)] + [ns_enc(p[:i]) for i in range(len(p), -1, -1)]
            uses.append({"cls": fq, "method": "m%d" % j, "name": n, "op": "find %s %d %s" % (n, len(chain), " ".join(chain))})
            form = rng.randrange(3)
            if form == 0:
                use_part += "  %s m%d();\n" % (n, j)
            elif form == 1:
                use_part += "  %s *m%d(const %s &key);\n" % (n, j, n)
            else:
                use_part += "  %s &m%d(%s *a, int b) const;\n" % (n, j, n)
        base_txt = (" : " + ", ".join("public ::" + b["fq"] for b in bases)) if bases else ""
        text += ("".join("namespace %s { " % x for x in p) + "\nstruct %s%s {\npublic:\n%s__published:\n%s};\n" % (name, base_txt, nested_part, use_part)
                 + "}" * len(p) + "\n")
        classes.append(c)
    text += "struct Registry {\n__published:\n" + "".join("  ::%s *get%d();\n" % (c["fq"], i) for i, c in enumerate(classes)) + "};\n"
    return text, uses, ents


def run_scopes(ck, wd, bdir, n):
    rng = ck.rng
    done = 0
    tries = 0
    while done < n and tries < n * 6:
        tries += 1
        text, uses, ents = gen_scope_program(rng)
        hp = wd / "scopes.h"
        hp.write_text(text)
        rc, err = gxx(wd, '#include "scopes.h"\n', "sc0.cpp")
        if rc != 0:
            ck.extra["scope_programs_rejected_by_gxx"] = ck.extra.get("scope_programs_rejected_by_gxx", 0) + 1
            continue
        done += 1
        rc, log, dump, cmd = interrogate(bdir, wd, "scopes.h", "scopes")
        ck.search_case("scope-program-accepted")
        if rc != 0 or re.search(r"\berror\b", log):
            ck.violation("rejects-valid-scope-program", "interrogate reports an error on a namespace/class program that g++ accepts", {"scopes.h": text, "cmd.txt": cmd}, log[-2000:])
            continue
        d = parse_dump(dump)
        by_id = {e.eid: e for e in ents}
        model = iglib.run_driver("scope", [u["op"] for u in uses])
        for u, m in zip(uses, model):
            protos = d["functions"].get("%s::%s" % (u["cls"], u["method"]))
            if not protos:
                continue
            proto = protos[0]
            mm = re.match(r"^(?:inline |static |virtual )*(.*?)\s*[*&]?\s*%s::%s\(" % (re.escape(u["cls"]), u["method"]), proto)
            got = mm.group(1).strip() if mm else "?"
            got = re.sub(r"\s*(const)?\s*[*&]*$", "", got).strip()
            want = by_id[int(m)].fq if m.isdigit() else m
            ck.corr_case("unqualified-name-vs-findType-model", "%s in %s" % (u["name"], u["cls"]), got == want,
                         detail="prototype `%s` names `%s`; the model resolves %s to `%s`\n%s" % (proto, got, u["name"], want, text),
                         nontrivial=True, feature=["nested" if want.count("::") > u["cls"].count("::") - 1 and want.startswith(u["cls"].rsplit("::", 1)[0]) else "outer",
                                                   "global" if "::" not in want else "namespaced"])
        # g++ oracle: every printed prototype must be an out-of-class definition of a declared member
        chk = '#include "scopes.h"\n'
        lines = []
        for fn, protos in sorted(d["functions"].items()):
            for p in protos:
                if "= default" in p or "~" in p or "Registry::" in p or not re.search(r"::m\d+\(", p):
                    continue          # only the members declared in the header (not upcast_to_*/getters made by interrogate)
                lines.append(re.sub(r"^(inline |static |virtual )+", "", p) + " { throw 0; }")
        chk += "\n".join(lines) + "\n"
        rc, err = gxx(wd, chk, "sc1.cpp")
        for _ in lines:
            ck.search_case("prototype-denotes-declared-member")
        if rc != 0:
            first = [l for l in err.split("\n") if "error" in l][:2]
            ck.violation("scope-prototype-mismatch", "a printed prototype does not name the types written in the class (g++: %s)" % " | ".join(f.split("error: ")[-1] for f in first),
                         {"scopes.h": text, "check.cpp": chk, "cmd.txt": cmd}, err[-2500:])


# ---------------------------------------------------------------------------------------------- templates

ELEMS = ["int", "float", "double", "unsigned char", "short"]


def gen_template_program(rng):
    text = ""
    insts = []
    world = ""
    for k in range(rng.randrange(1, 4)):
        kind = rng.choice(["TN", "NN", "T", "TT", "DEF", "NDEF"])
        name = "Tp%d" % k
        if kind == "TN":
            params, args = "class T, int N", lambda: "%s, %d" % (rng.choice(ELEMS), rng.choice([2, 3, 4, 8]))
            members = ["T slots[N];", "int counts[N];", "unsigned char used[N];", "T *get(int i);", "void assign(const T values[N]);",
                       "int count(const unsigned char mask[N]) const;", "const T &first() const;", "T *(*rows())[N];", "typedef T Row[N];"]
        elif kind == "NN":
            params, args = "int Rows, int Cols", lambda: "%d, %d" % (rng.choice([2, 3]), rng.choice([4, 5]))
            members = ["double cell[Rows][Cols];", "void load(const double src[Rows][Cols]);", "int rows() const;", "double (*row(int r))[Cols];"]
        elif kind == "T":
            params, args = "class T", lambda: rng.choice(ELEMS)
            members = ["T value;", "T *ptr;", "const T &get() const;", "void set(const T &v);", "T (*fn)(T, int);", "typedef T *Pointer;", "typedef const T &Ref;",
                       "void msg(T a, const char *fmt, ...);", "int count(const T *first, ...) const;"]
        elif kind == "DEF":
            # default arguments that refer to earlier parameters, which may themselves be left defaulted
            params = "class T, class P = T *, class R = P const &"
            args = lambda: rng.choice(["%s", "%s", "%s, char *", "%s, int *, int *const &"]) % rng.choice(ELEMS)
            members = ["P slot;", "R peek(P where) const;", "void put(P where, R value);", "typedef R Ref;", "typedef P Ptr;", "T *raw;", "P *table[3];"]
        elif kind == "NDEF":
            params = "int Rows, int Cols = Rows, int Cells = Rows * Cols"
            args = lambda: rng.choice(["%d", "%d", "%d, 3", "%d, 3, 7"]) % rng.choice([2, 4])
            members = ["int cells[Cells];", "void fill(int (&c)[Cells], int r);", "double grid[Rows][Cols];", "int (*row(int r))[Cols];", "typedef int Line[Cols];"]
        else:
            params, args = "class A, class B", lambda: "%s, %s" % (rng.choice(ELEMS), rng.choice(ELEMS))
            members = ["A first;", "B second;", "A convert(const B &b) const;", "B *other(A a, const A *pa);", "typedef A First;"]
        ms = rng.sample(members, rng.randrange(2, len(members) + 1))
        text += "template<%s>\nstruct %s {\n__published:\n%s};\n" % (params, name, "".join("  %s\n" % m for m in ms))
        for j in range(rng.randrange(1, 3)):
            a = args()
            insts.append("%s<%s>" % (name, a))
            world += "  %s<%s> make%d_%d();\n" % (name, a, k, j)
    text += "struct World {\n__published:\n" + world + "};\n"
    return text, insts


def run_templates(ck, wd, bdir, n):
    rng = ck.rng
    for r in range(n):
        text, insts = gen_template_program(rng)
        (wd / "templ.h").write_text(text)
        rc, err = gxx(wd, '#include "templ.h"\n', "tp0.cpp")
        if rc != 0:
            ck.extra["template_programs_rejected_by_gxx"] = ck.extra.get("template_programs_rejected_by_gxx", 0) + 1
            continue
        rc, log, dump, cmd = interrogate(bdir, wd, "templ.h", "templ")
        ck.search_case("template-program-accepted")
        if rc != 0 or re.search(r"\berror\b", log):
            ck.violation("rejects-valid-template-program", "interrogate reports an error on a class-template program that g++ accepts", {"templ.h": text, "cmd.txt": cmd}, log[-2000:])
            continue
        d = parse_dump(dump)
        declared = set(re.findall(r"(\w+)\(", text))
        chk = '#include <type_traits>\n#include "templ.h"\n'
        nchk = 0
        for en, e in sorted(d["elements"].items()):
            if "type" in e and "<" in en:
                chk += 'static_assert(std::is_same< decltype(%s), %s >::value, "member");\n' % (en, e["type"])
                nchk += 1
        for tn, t in sorted(d["types"].items()):
            if "typedef" in t.get("flags", "") and "wrapped_type" in t and "<" in tn:
                chk += 'static_assert(std::is_same< %s, %s >::value, "typedef");\n' % (tn, t["wrapped_type"])
                nchk += 1
        for fn, protos in sorted(d["functions"].items()):
            for p in protos:
                if "= default" in p or "~" in p or "World::" in p or "<" not in fn or fn.rsplit("::", 1)[-1] not in declared:
                    continue          # only the members declared in the header (not the getters/setters made by interrogate)
                chk += "template<> " + re.sub(r"^(inline |static |virtual )+", "", p) + " { throw 0; }\n"
                nchk += 1
        for _ in range(nchk):
            ck.search_case("instantiated-member-type-is-written-type")
        rc, err = gxx(wd, chk, "tp1.cpp")
        if rc != 0:
            first = [l for l in err.split("\n") if "error" in l][:2]
            ck.violation("template-printed-type-mismatch", "a member type / typedef target / prototype printed for a template instantiation is not the written type (g++: %s)" % " | ".join(f.split("error: ")[-1] for f in first),
                         {"templ.h": text, "check.cpp": chk, "cmd.txt": cmd}, err[-2500:])


# ---------------------------------------------------------------------------------------------- known limits

KNOWN = [
    ("classname-paren-declarator", "struct Node { int v; };\nextern Node (*v)[3];\n",
     "a declaration that starts with a class name followed by a parenthesised declarator other than `(*id)(...)` is a syntax error (e.g. `Node (*v)[3];`)"),
    ("volatile-dropped", None, None),
]


def run_known(ck, wd, bdir):
    for key, src, what in KNOWN:
        if src is None:
            continue
        (wd / "known.h").write_text(src)
        rc, so, se = iglib.sh([str(bdir / "bin" / "parse_file"), "known.h"], cwd=str(wd), timeout=60)
        ck.search_case("known-limit-probe")
        if rc != 0 or "error" in se.lower():
            ck.violation("known:" + key, what, {"known.h": src}, se[-1500:])
    # volatile: the qualifier is dropped by unroll_type ("Just pass it through for now")
    src = "// CHECK: x\nextern int *volatile vp;\n"
    (wd / "known.h").write_text(src)
    rc, so, se = iglib.sh([str(bdir / "bin" / "parse_file"), "-T", "known.h"], cwd=str(wd), timeout=60)
    m = re.search(r"^actual: (.*)$", se, re.M)
    ck.search_case("known-limit-probe")
    if m and "volatile" not in m.group(1):
        ck.violation("known:volatile-dropped", "`extern int *volatile vp;` is printed as `%s`: the volatile qualifier of a declarator is dropped" % m.group(1), {"known.h": src}, se[-1500:])
