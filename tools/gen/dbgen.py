"""G-db: synthetic interrogate databases (as Python dicts), an independent writer
for the .in format (any minor version), and query-op generators.

The record layouts come from the translator (tools/extract/dbschema.py), i.e.
from the current C++ source, so the generator follows the code.
"""
import os
import sys

sys.path.insert(0, os.path.dirname(os.path.dirname(os.path.abspath(__file__))))
from extract import dbschema

KINDS = ["function", "wrapper", "type", "manifest", "element", "makeSeq"]
SECTION_ORDER = ["function", "wrapper", "type", "manifest", "element", "makeSeq"]

NASTY = [b"", b" ", b"a b", b"\n", b"x\ny", b'"q"', b"\xff", b"\x80\xfe", b"12", b"0 ", b"3 abc", b"/* c */",
         b"\t", b"a\x00b", b"\x00", b"tail\x00", b"\x00\x00 x", b"::", b"operator <<", b"na\xc3\xafve", b"\xff\xff\xff", b"-1", b"  lead", b"trail  "]


class Layouts:
    def __init__(self):
        import iglib
        try:
            r = dbschema.extract()
        except Exception:
            iglib.PINNED = True
            try:
                r = dbschema.extract()
            finally:
                iglib.PINNED = False
        self.cls = r["classes"]
        self.out = {k: self.cls[k].out for k in KINDS}
        self.inp = {k: self.cls[k].inp for k in KINDS}
        self.index_members = {}
        for k in KINDS:
            ci = self.cls[k]
            im = {}
            for name, ty in ci.members.items():
                if ty in dbschema.INDEX_KINDS:
                    im[name] = dbschema.INDEX_KINDS[ty]
                elif ty in ci.typedefs:
                    el = ci.typedefs[ty]
                    if el in dbschema.INDEX_KINDS:
                        im[name] = dbschema.INDEX_KINDS[el]
                    elif el in ci.subs:
                        for sn, sty in ci.subs[el].members.items():
                            if sty in dbschema.INDEX_KINDS:
                                im[name + "." + sn] = dbschema.INDEX_KINDS[sty]
            self.index_members[k] = im
        self.since = {}
        for f in self.inp["element"]:
            if f[0] == "intSince":
                self.since[f[1]] = f[2]
        self.enums = {k: self.cls[k].enums for k in KINDS}


def rstr(rng, nasty=0.3, maxlen=12):
    if rng.random() < nasty:
        return rng.choice(NASTY)
    n = rng.randrange(0, maxlen)
    return bytes(rng.choice(b"abcdefghijklmnopqrstuvwxyzABC_:0123456789 ") for _ in range(n))


def ident(rng, prefix=""):
    return (prefix + "".join(rng.choice("abcdefghXYZ_") for _ in range(rng.randrange(1, 7)))).encode()


class DbGen:
    """Generates a closed (referentially consistent) database with arbitrary indices."""

    def __init__(self, lay, rng, shared_names=None, nasty=0.3, max_per_kind=5, index_space=60, closed=True, canonical=False):
        self.lay, self.rng, self.nasty = lay, rng, nasty
        self.shared = shared_names or []
        self.closed = closed
        n = {k: rng.randrange(0, max_per_kind + 1) for k in KINDS}
        n["type"] = max(1, n["type"])
        total = sum(n.values())
        pool = rng.sample(range(1, max(index_space, total + 5)), total)
        self.idx = {}
        p = 0
        for k in KINDS:
            self.idx[k] = sorted(pool[p:p + n[k]])
            p += n[k]
        if canonical:
            # the numbering interrogate itself produces (remap_indices order): wrappers, functions, types, ...
            nxt = 1
            for k in ["wrapper", "function", "type", "manifest", "element", "makeSeq"]:
                self.idx[k] = list(range(nxt, nxt + n[k]))
                nxt += n[k]

    def ref(self, kind, allow_zero=True, member=None):
        c = self.idx[kind]
        # read_new() dereferences a type's constructors/destructor while loading, so those stay valid
        # even in a deliberately dangling database (a corrupt file is outside every property)
        if not self.closed and member not in ("_constructors", "_destructor") and self.rng.random() < 0.15:
            return self.rng.randrange(-3, 90)
        if not c or (allow_zero and self.rng.random() < 0.3):
            return 0
        return self.rng.choice(c)

    def flags(self, kind, sub=None):
        en = self.lay.enums[kind]
        bits = [v for n, v in en.items() if n.startswith("F_")] if sub is None else sub
        f = 0
        for b in bits:
            if self.rng.random() < 0.35:
                f |= b
        return f

    def record(self, kind):
        rng = self.rng
        rec = {}
        im = self.lay.index_members[kind]
        for f in self.lay.out[kind]:
            k, name = f[0], f[1]
            if k == "str":
                if name == "_true_name" and self.shared and rng.random() < 0.6:
                    rec[name] = rng.choice(self.shared)
                elif name in ("_name", "_scoped_name", "_true_name"):
                    rec[name] = ident(rng) if rng.random() > self.nasty else rstr(rng, 1.0)
                else:
                    rec[name] = rstr(rng, self.nasty, 30)
            elif k == "strs":
                rec[name] = [rstr(rng, self.nasty) for _ in range(rng.choice([0, 0, 0, 1, 2, 3]))]
            elif k in ("int", "intIf"):
                if name == "_flags":
                    rec[name] = self.flags(kind)
                elif name in im:
                    rec[name] = self.ref(im[name], member=name)
                elif name == "_atomic_token":
                    rec[name] = rng.randrange(0, 10)
                elif name == "_int_value":
                    rec[name] = rng.choice([0, 1, -1, 2147483647, -2147483648, rng.randrange(-1000, 1000)])
                elif name == "_array_size":
                    rec[name] = rng.choice([0, 1, 3, 1000])
                else:
                    rec[name] = rng.randrange(0, 100)
            elif k == "ints":
                cnt = rng.choice([0, 0, 1, 2, 3, 5])
                rec[name] = [self.ref(im[name], allow_zero=False, member=name) if name in im else rng.randrange(0, 9) for _ in range(cnt)]
                if self.closed or name == "_constructors":
                    rec[name] = [x for x in rec[name] if x != 0]
            elif k == "recs":
                cnt = rng.choice([0, 0, 1, 2, 3])
                subs = []
                for _ in range(cnt):
                    s = {}
                    for a in f[2]:
                        if a[0] == "str":
                            s[a[1]] = rstr(rng, self.nasty)
                        else:
                            key = name + "." + a[1]
                            if key in im:
                                s[a[1]] = self.ref(im[key])
                            elif a[1] in ("_flags", "_parameter_flags"):
                                s[a[1]] = rng.randrange(0, 8)
                            elif a[1] == "_value":
                                s[a[1]] = rng.choice([0, 1, -1, 2147483647, -2147483648, rng.randrange(-99, 99)])
                            else:
                                s[a[1]] = rng.randrange(0, 50)
                    subs.append(s)
                rec[name] = subs
        # intIf members hold their default unless the flag is set
        for f in self.lay.out[kind]:
            if f[0] == "intIf":
                if (rec.get(f[2], 0) & f[3]) == 0:
                    rec[f[1]] = f[4]
        return rec

    def generate(self, minor=3):
        db = {"fileId": self.rng.choice([0, 1, 12345, 2147483647, self.rng.randrange(1, 10 ** 9)]),
              "lib": ident(self.rng, "lib"), "hash": ident(self.rng)[:4].ljust(4, b"h"), "mod": ident(self.rng, "m"),
              "minor": minor}
        for k in KINDS:
            ents = []
            for i in self.idx[k]:
                r = self.record(k)
                if k == "element":
                    for m, since in self.lay.since.items():
                        if since > minor:
                            r[m] = 0
                ents.append((i, r))
            db[k] = ents
        if self.closed:
            # what interrogate writes: a type's constructors/destructor carry F_constructor/F_destructor
            # (read_new sets these flags on load, for files of older writers)
            fen = self.lay.enums["function"]
            fmap = dict(db["function"])
            for _, t in db["type"]:
                for c in t.get("_constructors", []):
                    if c in fmap:
                        fmap[c]["_flags"] |= fen["F_constructor"]
                d = t.get("_destructor", 0)
                if d in fmap:
                    fmap[d]["_flags"] |= fen["F_destructor"]
        return db


def enc_int(i):
    return str(int(i)).encode()


def enc_str(s, ws):
    w = bytes([ws])
    return enc_int(len(s)) + w + (s + w if s else b"")


def enc_cstr(s):
    return b"0 " if not s else enc_int(len(s)) + b" " + s + b" "


def enc_record(lay, kind, rec, minor=3):
    out = b""
    since = lay.since if kind == "element" else {}
    for f in lay.out[kind]:
        k, name = f[0], f[1]
        if k == "int":
            if name in since and since[name] > minor:
                continue
            out += enc_int(rec[name]) + bytes(f[2])
        elif k == "str":
            out += enc_str(rec[name], f[2])
        elif k == "strs":
            out += enc_int(len(rec[name])) + b" " + b"".join(enc_str(s, 32) for s in rec[name])
        elif k == "ints":
            out += enc_int(len(rec[name])) + b" " + b"".join(enc_int(i) + b" " for i in rec[name])
        elif k == "recs":
            out += enc_int(len(rec[name])) + b" "
            for s in rec[name]:
                for a in f[2]:
                    if a[0] == "int":
                        out += enc_int(s[a[1]]) + bytes(a[2])
                    else:
                        out += enc_str(s[a[1]], a[2])
                out += b" "
        elif k == "intIf":
            if rec[f[2]] & f[3]:
                out += enc_int(rec[name]) + bytes(f[5])
    return out


def enc_file(lay, db, minor=None, major=3):
    minor = db.get("minor", 3) if minor is None else minor
    out = enc_int(db["fileId"]) + b"\n" + enc_int(major) + b" " + enc_int(minor) + b"\n"
    out += enc_cstr(db["lib"]) + enc_cstr(db["hash"]) + enc_cstr(db["mod"]) + b"\n"
    for k in SECTION_ORDER:
        out += enc_int(len(db[k])) + b"\n"
        for i, r in db[k]:
            out += enc_int(i) + b" " + enc_record(lay, k, r, minor) + b"\n"
    return out


def hexs(b):
    return b.hex() if b else "-"


def query_ops(lay, rng, indices, positions, names, budget=400):
    """A mixed list of query ops over the given candidate indices / positions / names."""
    ops = []
    cand = []
    for k in KINDS:
        for f in lay.out[k]:
            kind, name = f[0], f[1]
            if kind in ("int", "intIf"):
                cand.append(("q int %s {i} %s" % (k, name), 1))
            elif kind == "str":
                cand.append(("q str %s {i} %s" % (k, name), 1))
            elif kind in ("ints", "strs"):
                cand.append(("q cnt %s {i} %s" % (k, name), 1))
                cand.append(("q at %s {i} %s {p}" % (k, name), 2))
            elif kind == "recs":
                cand.append(("q cnt %s {i} %s" % (k, name), 1))
                for a in f[2]:
                    cand.append(("q sub %s {i} %s {p} %s" % (k, name, a[1]), 2))
        for pred in sorted(lay.cls[k].preds):
            if lay.cls[k].preds[pred][0] == "_flags":
                cand.append(("q flag %s {i} %s" % (k, pred), 1))
    lks = ["type_name", "type_scoped_name", "type_true_name", "manifest_name", "element_name", "element_scoped_name"]
    enums = ["global_types", "all_types", "global_functions", "all_functions", "global_manifests", "global_elements"]
    for _ in range(budget):
        r = rng.random()
        if r < 0.6:
            tmpl, _ = rng.choice(cand)
            ops.append(tmpl.format(i=rng.choice(indices), p=rng.choice(positions)))
        elif r < 0.8:
            ops.append("lookup %s %s" % (rng.choice(lks), hexs(rng.choice(names))))
        elif r < 0.9:
            e = rng.choice(enums)
            ops.append("enumcnt " + e)
            ops.append("enum %s %d" % (e, rng.choice(positions)))
        else:
            ops.append("sweepall %d %d" % (rng.choice(indices), rng.choice(positions)))
    return ops


UNSUPPORTED_BY_HARNESS = set()


def all_names(db):
    out = set()
    for k in KINDS:
        for _, r in db[k]:
            for key in ("_name", "_scoped_name", "_true_name"):
                if key in r:
                    out.add(r[key])
    return sorted(out)


# ---------------------------------------------------------------------------
# independent reader of the .in format (used by the oracles to look inside what
# the real library wrote)
# ---------------------------------------------------------------------------

class _Rd:
    def __init__(self, data):
        self.d, self.i = data, 0

    def ws(self):
        while self.i < len(self.d) and self.d[self.i] in b" \t\n\r\v\f":
            self.i += 1

    def int(self):
        self.ws()
        j = self.i
        if j < len(self.d) and self.d[j] in b"+-":
            j += 1
        k = j
        while k < len(self.d) and 48 <= self.d[k] <= 57:
            k += 1
        if k == j:
            raise ValueError("int expected at %d" % self.i)
        v = int(self.d[self.i:k])
        self.i = k
        return v

    def str(self):
        n = self.int()
        self.i += 1
        if n <= 0:
            return b""
        s = self.d[self.i:self.i + n]
        if len(s) < n:
            raise ValueError("short string")
        self.i += n
        return s

    def cstr(self):
        n = self.int()
        if n == 0:
            return b""
        self.i += 1
        s = self.d[self.i:self.i + n]
        self.i += n
        return s


def dec_record(lay, kind, rd, minor=3):
    rec = {}
    for f in lay.inp[kind]:
        k, name = f[0], f[1]
        if k == "int":
            rec[name] = rd.int()
        elif k == "intSince":
            rec[name] = rd.int() if minor >= f[2] else 0
        elif k == "str":
            rec[name] = rd.str()
        elif k == "strs":
            rec[name] = [rd.str() for _ in range(rd.int())]
        elif k == "ints":
            rec[name] = [rd.int() for _ in range(rd.int())]
        elif k == "recs":
            out = []
            for _ in range(rd.int()):
                s = {}
                for a in f[2]:
                    s[a[1]] = rd.int() if a[0] == "int" else rd.str()
                out.append(s)
            rec[name] = out
        elif k == "intIf":
            rec[name] = rd.int() if rec[f[2]] & f[3] else f[4]
    return rec


def dec_file(lay, data):
    rd = _Rd(data)
    db = {"fileId": rd.int(), "major": rd.int(), "minor": rd.int()}
    db["lib"], db["hash"], db["mod"] = rd.cstr(), rd.cstr(), rd.cstr()
    for k in SECTION_ORDER:
        n = rd.int()
        ents = []
        for _ in range(n):
            i = rd.int()
            ents.append((i, dec_record(lay, k, rd, db["minor"])))
        db[k] = ents
    return db


def canon(lay, db):
    """canonical, index-free form of a parsed database: key -> record with references replaced by keys"""
    keyof = {}
    for kind in KINDS:
        for i, r in db[kind]:
            nm = r.get("_true_name") if kind == "type" else (r.get("_unique_name") if kind == "wrapper" else r.get("_scoped_name", r.get("_name")))
            if kind == "manifest":
                nm = r["_name"]
            keyof[i] = (kind, nm)
    out = {}
    dup = []
    for kind in KINDS:
        im = lay.index_members[kind]
        for i, r in db[kind]:
            c = {}
            for f in lay.out[kind]:
                name = f[1]
                v = r[name]
                if f[0] == "recs":
                    v2 = []
                    for s in v:
                        s2 = {}
                        for a in f[2]:
                            key = name + "." + a[1]
                            s2[a[1]] = (keyof.get(s[a[1]], ("dangling", s[a[1]])) if s[a[1]] != 0 else None) if key in im else s[a[1]]
                        v2.append(tuple(sorted(s2.items())))
                    c[name] = tuple(v2)
                elif name in im:
                    if isinstance(v, list):
                        c[name] = tuple(keyof.get(x, ("dangling", x)) if x != 0 else None for x in v)
                    else:
                        c[name] = keyof.get(v, ("dangling", v)) if v != 0 else None
                else:
                    c[name] = tuple(v) if isinstance(v, list) else v
            k = keyof[i]
            if k in out:
                dup.append(k)
            out[k] = c
    return out, dup




def uniquify(db, tag=""):
    """give every entry a unique identifying name (so that canon() keys are unique)"""
    for kind in KINDS:
        for i, r in db[kind]:
            base = ("%s%s%d" % (tag, kind[0], i)).encode()
            for key in ("_name", "_scoped_name", "_true_name", "_unique_name"):
                if key in r:
                    r[key] = base
    return db
