import IgVerif.Model.Mirror
import IgVerif.Model.Query
import IgVerif.Gen.DbSchema
/-! The record layouts the models run on: the combination of what the C++
`output()` and `input()` bodies say *now* (see Gen/DbSchema.lean). -/
namespace IgVerif

def schema : Schema := (mergeSchema Gen.outSchema Gen.inSchema).getD emptySchema

def assocGet (l : List (String × List String)) (k : String) : List String :=
  match l.find? (fun p => p.1 == k) with
  | some p => p.2
  | none => []

/-- every member written by `output()` survives `operator=` and the copy constructor -/
def copyComplete : Bool :=
  Gen.serialisedMembers.all fun p => p.2.all fun m => (assocGet Gen.copiedMembers p.1).contains m

def maskOf (n : String) : Nat :=
  match Gen.flagMasks.find? (fun p => p.1 == n) with
  | some p => p.2
  | none => 0

def flagCfg : FlagCfg :=
  { typeGlobal := maskOf "type.is_global", typeFullyDefined := maskOf "type.is_fully_defined",
    functionGlobal := maskOf "function.is_global", elementGlobal := maskOf "element.is_global",
    functionConstructor := maskOf "function.F_constructor", functionDestructor := maskOf "function.F_destructor" }

def cfg : Cfg := { sch := schema, fc := flagCfg, rc := Gen.remapMembers }

end IgVerif
