import IgVerif.Model.OutProto
/-! REGENERATED on every run by tools/extract/c19_proto.py from interrogate.cxx / interrogate_module.cxx. -/
namespace IgVerif.Gen
open IgVerif.OP

def protoExtractionFailed : Bool := false
def protoExtractionError : String := ""
def interrogateProto : Proto := { returnsStatus := true, body := [
  .s (.open 0),
  .s (.write 0),
  .s (.write 0),
  .ifFailElse 0 true [.write 0, .close 0, .setIfFail 0],
  .s (.open 1),
  .ifFailElse 1 true [.write 1, .close 1, .setIfFail 1],
  .s (.open 2),
  .ifFailElse 2 true [.write 2, .close 2, .setIfFail 2]
] }
def moduleProto : Proto := { returnsStatus := true, body := [
  .s (.open 0),
  .ifFailElse 0 true [.write 0, .write 0, .write 0, .write 0, .close 0, .setIfFail 0]
] }

end IgVerif.Gen
