/-! REGENERATED on every run by tools/extract/c14_facts.py from interfaceMakerPythonNative.cxx and interrogate.cxx. -/
namespace IgVerif.Gen

def c14ExtractionFailed : Bool := false
def c14ExtractionError : String := ""
/-- the last `return` of RemapCompareLess compares the signatures -/
def c14TieBreakBySignature : Bool := true
/-- what each `return` of RemapCompareLess compares, in order -/
def c14CompareSteps : List String := ["const", "arity", "rank", "sig"]
/-- shape of the SOURCE_DATE_EPOCH branch -/
def c14EpochShape : String := "nonempty->atoi|else->time"

end IgVerif.Gen
