/-! REGENERATED on every run by tools/extract/c09_cmds.py from cppPreprocessor.cxx. -/
namespace IgVerif.Gen

def c09ExtractionFailed : Bool := false
def c09ExtractionError : String := ""
/-- directive name -> what process_directive() does with it (code of the branch) -/
def activeTable : List (String × String) := [
  ("ifdef", "handle_ifdef_directive(args, loc);"),
  ("ifndef", "handle_ifndef_directive(args, loc);"),
  ("if", "handle_if_directive(args, loc);"),
  ("else", "skip_false_if_block(false);"),
  ("elif", "skip_false_if_block(false);"),
  ("elifdef", "skip_false_if_block(false);"),
  ("elifndef", "skip_false_if_block(false);"),
  ("endif", "")
]
/-- directive name -> what skip_false_if_block() does with it -/
def skipTable : List (String × String) := [
  ("if", "level++;"),
  ("ifdef", "level++;"),
  ("ifndef", "level++;"),
  ("else", "if (level == 0 && consider_elifs) { _save_comments = true; return; }"),
  ("elif", "if (level == 0 && consider_elifs) { _save_comments = true; handle_if_directive(args, loc); return; }"),
  ("elifdef", "if (level == 0 && consider_elifs) { _save_comments = true; handle_ifdef_directive(args, loc); return; }"),
  ("elifndef", "if (level == 0 && consider_elifs) { _save_comments = true; handle_ifndef_directive(args, loc); return; }"),
  ("endif", "if (level == 0) { _save_comments = true; return; } level--;")
]
def handlerTable : List (String × String) := [
  ("handle_ifdef_directive", "if (!is_manifest_defined(args)) { skip_false_if_block(true); }"),
  ("handle_ifndef_directive", "if (is_manifest_defined(args)) { skip_false_if_block(true); }"),
  ("handle_if_directive.tail", "if (expression_result) { return; } skip_false_if_block(true);")
]
def skipInit : String := "int level = 0; _save_comments = false; int c = skip_comment(get());"

end IgVerif.Gen
