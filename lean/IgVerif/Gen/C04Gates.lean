/-! REGENERATED on every run by tools/extract/c04_gates.py from interrogateBuilder.cxx. -/
namespace IgVerif.Gen

def c04ExtractionFailed : Bool := false
def c04ExtractionError : String := ""
/-- guards of `scan_function`, in order; `!` marks a block that returns only on some inner path -/
def c04_scan_function : List String := ["scoped_decl!", "template", "cfile", "notlocal", "vis", "static_or_deleted", "involves_protected", "ignoreinvolved", "rvalue"]
/-- guards of `scan_struct_type`, in order; `!` marks a block that returns only on some inner path -/
def c04_scan_struct_type : List String := ["null", "template", "cfile", "notlocal", "vis!"]
/-- guards of `scan_enum_type`, in order; `!` marks a block that returns only on some inner path -/
def c04_scan_enum_type : List String := ["null", "template", "cfile", "notlocal", "vis"]
/-- guards of `scan_manifest`, in order; `!` marks a block that returns only on some inner path -/
def c04_scan_manifest : List String := ["null", "cfile", "notlocal", "vis", "function_like"]
/-- guards of `scan_element`, in order; `!` marks a block that returns only on some inner path -/
def c04_scan_element : List String := ["null", "template", "scoped_decl!", "cfile", "notlocal_global", "vis", "untyped"]
/-- guards of `define_method`, in order; `!` marks a block that returns only on some inner path -/
def c04_define_method : List String := ["template", "deleted", "destructor_rule!", "vis_unless_forced", "involves_protected", "ignoreinvolved", "ignoremember", "inherited_virtual_rule!", "rvalue"]
/-- guards of `define_struct_type`, in order; `!` marks a block that returns only on some inner path -/
def c04_define_struct_type : List String := ["anonymous", "cfile", "notlocal_unless_forced", "unpublished_struct", "involves_protected"]

end IgVerif.Gen
