/-! REGENERATED on every run by tools/extract/c20_guards.py from /repo/src/interrogatedb. -/
namespace IgVerif.Gen

def guardExtractionFailed : Bool := false
def guardExtractionError : String := ""
/-- (file, function, container, index variable, indexing is inside `if (i >= 0 && i < bound)`) -/
def accessors : List (String × String × String × String × Bool) := [
  ("interrogateComponent.I", "InterrogateComponent::get_alt_name", "_alt_names", "n", true),
  ("interrogateFunction.I", "InterrogateFunction::get_c_wrapper", "_c_wrappers", "n", true),
  ("interrogateFunction.I", "InterrogateFunction::get_python_wrapper", "_python_wrappers", "n", true),
  ("interrogateFunctionWrapper.I", "InterrogateFunctionWrapper::parameter_get_type", "_parameters", "n", true),
  ("interrogateFunctionWrapper.I", "InterrogateFunctionWrapper::parameter_has_name", "_parameters", "n", true),
  ("interrogateFunctionWrapper.I", "InterrogateFunctionWrapper::parameter_get_name", "_parameters", "n", true),
  ("interrogateFunctionWrapper.I", "InterrogateFunctionWrapper::parameter_is_this", "_parameters", "n", true),
  ("interrogateFunctionWrapper.I", "InterrogateFunctionWrapper::parameter_is_optional", "_parameters", "n", true),
  ("interrogateType.I", "InterrogateType::get_enum_value_name", "_enum_values", "n", true),
  ("interrogateType.I", "InterrogateType::get_enum_value_scoped_name", "_enum_values", "n", true),
  ("interrogateType.I", "InterrogateType::get_enum_value_comment", "_enum_values", "n", true),
  ("interrogateType.I", "InterrogateType::get_enum_value", "_enum_values", "n", true),
  ("interrogateType.I", "InterrogateType::get_constructor", "_constructors", "n", true),
  ("interrogateType.I", "InterrogateType::get_element", "_elements", "n", true),
  ("interrogateType.I", "InterrogateType::get_method", "_methods", "n", true),
  ("interrogateType.I", "InterrogateType::get_make_seq", "_make_seqs", "n", true),
  ("interrogateType.I", "InterrogateType::get_cast", "_casts", "n", true),
  ("interrogateType.I", "InterrogateType::get_derivation", "_derivations", "n", true),
  ("interrogateType.I", "InterrogateType::derivation_has_upcast", "_derivations", "n", true),
  ("interrogateType.I", "InterrogateType::derivation_get_upcast", "_derivations", "n", true),
  ("interrogateType.I", "InterrogateType::derivation_downcast_is_impossible", "_derivations", "n", true),
  ("interrogateType.I", "InterrogateType::derivation_has_downcast", "_derivations", "n", true),
  ("interrogateType.I", "InterrogateType::derivation_get_downcast", "_derivations", "n", true),
  ("interrogateType.I", "InterrogateType::get_nested_type", "_nested_types", "n", true),
  ("interrogateDatabase.cxx", "InterrogateDatabase::get_global_type", "_global_types", "n", true),
  ("interrogateDatabase.cxx", "InterrogateDatabase::get_all_type", "_all_types", "n", true),
  ("interrogateDatabase.cxx", "InterrogateDatabase::get_global_function", "_global_functions", "n", true),
  ("interrogateDatabase.cxx", "InterrogateDatabase::get_all_function", "_all_functions", "n", true),
  ("interrogateDatabase.cxx", "InterrogateDatabase::get_global_manifest", "_global_manifests", "n", true),
  ("interrogateDatabase.cxx", "InterrogateDatabase::get_global_element", "_global_elements", "n", true),
  ("interrogateDatabase.cxx", "InterrogateDatabase::get_fptr", "def->fptrs", "module_index", true)
]
def lookupBits : List (String × Nat) := [("LT_type_name", 1), ("LT_type_scoped_name", 2), ("LT_type_true_name", 4), ("LT_manifest_name", 8), ("LT_element_name", 16), ("LT_element_scoped_name", 32)]

end IgVerif.Gen
