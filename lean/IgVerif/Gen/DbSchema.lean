import IgVerif.Model.DbFile
/-! REGENERATED on every run by tools/extract/dbschema.py from /repo/src/interrogatedb.
Do not edit: the committed copy is what the pinned tree yields. -/
namespace IgVerif.Gen
open IgVerif

/-- counts that input() reads into an uninitialised local and uses (loop bound, reserve) without looking at the stream state -/
def unguardedCounts : List String := []

def dbSchemaExtractionFailed : Bool := false
def dbSchemaExtractionError : String := ""

def out_function : List Field := [
  .atom (.str "_name" 32),
  .strs "_alt_names",
  .atom (.int "_flags" [32]),
  .atom (.int "_class" [32]),
  .atom (.str "_scoped_name" 32),
  .ints "_c_wrappers",
  .ints "_python_wrappers",
  .atom (.str "_comment" 10),
  .atom (.str "_prototype" 10)
]
def out_wrapper : List Field := [
  .atom (.str "_name" 32),
  .strs "_alt_names",
  .atom (.int "_flags" [32]),
  .atom (.int "_function" [32]),
  .atom (.int "_return_type" [32]),
  .atom (.int "_return_value_destructor" [32]),
  .atom (.str "_unique_name" 32),
  .atom (.str "_comment" 32),
  .recs "_parameters" [.str "_name" 32, .int "_parameter_flags" [32], .int "_type" [32]]
]
def out_type : List Field := [
  .atom (.str "_name" 32),
  .strs "_alt_names",
  .atom (.int "_flags" [32]),
  .atom (.str "_scoped_name" 32),
  .atom (.str "_true_name" 32),
  .atom (.int "_outer_class" [32]),
  .atom (.int "_atomic_token" [32]),
  .atom (.int "_wrapped_type" [32]),
  .intIf "_array_size" "_flags" 4194304 (1) [32],
  .ints "_constructors",
  .atom (.int "_destructor" [32]),
  .ints "_elements",
  .ints "_methods",
  .ints "_make_seqs",
  .ints "_casts",
  .recs "_derivations" [.int "_flags" [32], .int "_base" [32], .int "_upcast" [32], .int "_downcast" []],
  .recs "_enum_values" [.str "_name" 32, .str "_scoped_name" 32, .str "_comment" 10, .int "_value" []],
  .ints "_nested_types",
  .atom (.str "_comment" 10)
]
def out_manifest : List Field := [
  .atom (.str "_name" 32),
  .strs "_alt_names",
  .atom (.int "_flags" [32]),
  .atom (.int "_int_value" [32]),
  .atom (.int "_type" [32]),
  .atom (.int "_getter" [32]),
  .atom (.str "_definition" 32)
]
def out_element : List Field := [
  .atom (.str "_name" 32),
  .strs "_alt_names",
  .atom (.int "_flags" [32]),
  .atom (.int "_type" [32]),
  .atom (.int "_getter" [32]),
  .atom (.int "_setter" [32]),
  .atom (.int "_has_function" [32]),
  .atom (.int "_clear_function" [32]),
  .atom (.int "_del_function" [32]),
  .atom (.int "_length_function" [32]),
  .atom (.int "_insert_function" [32]),
  .atom (.int "_getkey_function" [32]),
  .atom (.str "_scoped_name" 32),
  .atom (.str "_comment" 10)
]
def out_makeSeq : List Field := [
  .atom (.str "_name" 32),
  .strs "_alt_names",
  .atom (.int "_length_getter" [32]),
  .atom (.int "_element_getter" [32]),
  .atom (.str "_scoped_name" 32),
  .atom (.str "_comment" 10)
]
def outSchema : Schema := ⟨out_function, out_wrapper, out_type, out_manifest, out_element, out_makeSeq⟩

def in_function : List Field := [
  .atom (.str "_name" 32),
  .strs "_alt_names",
  .atom (.int "_flags" []),
  .atom (.int "_class" []),
  .atom (.str "_scoped_name" 32),
  .ints "_c_wrappers",
  .ints "_python_wrappers",
  .atom (.str "_comment" 32),
  .atom (.str "_prototype" 32)
]
def in_wrapper : List Field := [
  .atom (.str "_name" 32),
  .strs "_alt_names",
  .atom (.int "_flags" []),
  .atom (.int "_function" []),
  .atom (.int "_return_type" []),
  .atom (.int "_return_value_destructor" []),
  .atom (.str "_unique_name" 32),
  .atom (.str "_comment" 32),
  .recs "_parameters" [.str "_name" 32, .int "_parameter_flags" [], .int "_type" []]
]
def in_type : List Field := [
  .atom (.str "_name" 32),
  .strs "_alt_names",
  .atom (.int "_flags" []),
  .atom (.str "_scoped_name" 32),
  .atom (.str "_true_name" 32),
  .atom (.int "_outer_class" []),
  .atom (.int "_atomic_token" []),
  .atom (.int "_wrapped_type" []),
  .intIf "_array_size" "_flags" 4194304 (1) [],
  .ints "_constructors",
  .atom (.int "_destructor" []),
  .ints "_elements",
  .ints "_methods",
  .ints "_make_seqs",
  .ints "_casts",
  .recs "_derivations" [.int "_flags" [], .int "_base" [], .int "_upcast" [], .int "_downcast" []],
  .recs "_enum_values" [.str "_name" 32, .str "_scoped_name" 32, .str "_comment" 32, .int "_value" []],
  .ints "_nested_types",
  .atom (.str "_comment" 32)
]
def in_manifest : List Field := [
  .atom (.str "_name" 32),
  .strs "_alt_names",
  .atom (.int "_flags" []),
  .atom (.int "_int_value" []),
  .atom (.int "_type" []),
  .atom (.int "_getter" []),
  .atom (.str "_definition" 32)
]
def in_element : List Field := [
  .atom (.str "_name" 32),
  .strs "_alt_names",
  .atom (.int "_flags" []),
  .atom (.int "_type" []),
  .atom (.int "_getter" []),
  .atom (.int "_setter" []),
  .intSince "_has_function" 1 [],
  .intSince "_clear_function" 1 [],
  .intSince "_del_function" 2 [],
  .intSince "_length_function" 2 [],
  .intSince "_insert_function" 3 [],
  .intSince "_getkey_function" 3 [],
  .atom (.str "_scoped_name" 32),
  .atom (.str "_comment" 32)
]
def in_makeSeq : List Field := [
  .atom (.str "_name" 32),
  .strs "_alt_names",
  .atom (.int "_length_getter" []),
  .atom (.int "_element_getter" []),
  .atom (.str "_scoped_name" 32),
  .atom (.str "_comment" 32)
]
def inSchema : Schema := ⟨in_function, in_wrapper, in_type, in_manifest, in_element, in_makeSeq⟩

/-- members whose C++ type is an index type (or a vector / sub-record field of one), with the kind they refer to -/
def indexMembers : List (String × List (String × String)) := [
  ("function", [("_c_wrappers", "wrapper"), ("_class", "type"), ("_python_wrappers", "wrapper")]),
  ("wrapper", [("_function", "function"), ("_parameters._type", "type"), ("_return_type", "type"), ("_return_value_destructor", "function")]),
  ("type", [("_casts", "function"), ("_constructors", "function"), ("_derivations._base", "type"), ("_derivations._downcast", "function"), ("_derivations._upcast", "function"), ("_destructor", "function"), ("_elements", "element"), ("_make_seqs", "makeSeq"), ("_methods", "function"), ("_nested_types", "type"), ("_outer_class", "type"), ("_wrapped_type", "type")]),
  ("manifest", [("_getter", "function"), ("_type", "type")]),
  ("element", [("_clear_function", "function"), ("_del_function", "function"), ("_getkey_function", "function"), ("_getter", "function"), ("_has_function", "function"), ("_insert_function", "function"), ("_length_function", "function"), ("_setter", "function"), ("_type", "type")]),
  ("makeSeq", [("_element_getter", "function"), ("_length_getter", "function")])
]
/-- members passed through remap.map_from() by remap_indices() -/
def remapMembers : List (String × List String) := [
  ("function", ["_c_wrappers", "_class", "_python_wrappers"]),
  ("wrapper", ["_function", "_parameters._type", "_return_type", "_return_value_destructor"]),
  ("type", ["_casts", "_constructors", "_derivations._base", "_derivations._downcast", "_derivations._upcast", "_destructor", "_elements", "_make_seqs", "_methods", "_nested_types", "_outer_class", "_wrapped_type"]),
  ("manifest", ["_getter", "_type"]),
  ("element", ["_clear_function", "_del_function", "_getkey_function", "_getter", "_has_function", "_insert_function", "_length_function", "_setter", "_type"]),
  ("makeSeq", ["_element_getter", "_length_getter"])
]
/-- members written by output() (incl. InterrogateComponent's) -/
def serialisedMembers : List (String × List String) := [
  ("function", ["_name", "_alt_names", "_flags", "_class", "_scoped_name", "_c_wrappers", "_python_wrappers", "_comment", "_prototype"]),
  ("wrapper", ["_name", "_alt_names", "_flags", "_function", "_return_type", "_return_value_destructor", "_unique_name", "_comment", "_parameters"]),
  ("type", ["_name", "_alt_names", "_flags", "_scoped_name", "_true_name", "_outer_class", "_atomic_token", "_wrapped_type", "_array_size", "_constructors", "_destructor", "_elements", "_methods", "_make_seqs", "_casts", "_derivations", "_enum_values", "_nested_types", "_comment"]),
  ("manifest", ["_name", "_alt_names", "_flags", "_int_value", "_type", "_getter", "_definition"]),
  ("element", ["_name", "_alt_names", "_flags", "_type", "_getter", "_setter", "_has_function", "_clear_function", "_del_function", "_length_function", "_insert_function", "_getkey_function", "_scoped_name", "_comment"]),
  ("makeSeq", ["_name", "_alt_names", "_length_getter", "_element_getter", "_scoped_name", "_comment"])
]
/-- members preserved by operator= AND the copy constructor chain -/
def copiedMembers : List (String × List String) := [
  ("function", ["_alt_names", "_c_wrappers", "_class", "_comment", "_def", "_expression", "_flags", "_instances", "_name", "_prototype", "_python_wrappers", "_scoped_name"]),
  ("wrapper", ["_alt_names", "_comment", "_def", "_flags", "_function", "_name", "_parameters", "_return_type", "_return_value_destructor", "_unique_name"]),
  ("type", ["_alt_names", "_array_size", "_atomic_token", "_casts", "_comment", "_constructors", "_cppscope", "_cpptype", "_def", "_derivations", "_destructor", "_elements", "_enum_values", "_flags", "_make_seqs", "_methods", "_name", "_nested_types", "_outer_class", "_scoped_name", "_true_name", "_wrapped_type"]),
  ("manifest", ["_alt_names", "_def", "_definition", "_flags", "_getter", "_int_value", "_name", "_type"]),
  ("element", ["_alt_names", "_clear_function", "_comment", "_def", "_del_function", "_flags", "_getkey_function", "_getter", "_has_function", "_insert_function", "_length_function", "_make_property", "_name", "_scoped_name", "_setter", "_type"]),
  ("makeSeq", ["_alt_names", "_comment", "_def", "_element_getter", "_length_getter", "_name", "_scoped_name"])
]
/-- flag predicates `is_x() { return (_flags & F_x) != 0; }` and the F_ enumerators, per record kind -/
def flagMasks : List (String × Nat) := [
  ("function.is_constructor", 256),
  ("function.is_destructor", 512),
  ("function.is_getter", 16),
  ("function.is_global", 1),
  ("function.is_method", 4),
  ("function.is_operator_typecast", 128),
  ("function.is_setter", 32),
  ("function.is_unary_op", 64),
  ("function.is_virtual", 2),
  ("function.F_constructor", 256),
  ("function.F_destructor", 512),
  ("function.F_getter", 16),
  ("function.F_global", 1),
  ("function.F_item_assignment", 1024),
  ("function.F_method", 4),
  ("function.F_operator_typecast", 128),
  ("function.F_setter", 32),
  ("function.F_typecast", 8),
  ("function.F_unary_op", 64),
  ("function.F_virtual", 2),
  ("wrapper.caller_manages_return_value", 1),
  ("wrapper.has_return_value", 2),
  ("wrapper.is_callable_by_name", 4),
  ("wrapper.is_coerce_constructor", 16),
  ("wrapper.is_copy_constructor", 8),
  ("wrapper.is_deprecated", 64),
  ("wrapper.is_extension", 32),
  ("wrapper.F_callable_by_name", 4),
  ("wrapper.F_caller_manages", 1),
  ("wrapper.F_coerce_constructor", 16),
  ("wrapper.F_copy_constructor", 8),
  ("wrapper.F_deprecated", 64),
  ("wrapper.F_extension", 32),
  ("wrapper.F_has_return", 2),
  ("type.destructor_is_implicit", 131072),
  ("type.destructor_is_inherited", 65536),
  ("type.is_array", 4194304),
  ("type.is_atomic", 2),
  ("type.is_class", 2048),
  ("type.is_const", 512),
  ("type.is_deprecated", 33554432),
  ("type.is_enum", 524288),
  ("type.is_final", 16777216),
  ("type.is_fully_defined", 8192),
  ("type.is_global", 1),
  ("type.is_long", 16),
  ("type.is_longlong", 32),
  ("type.is_nested", 262144),
  ("type.is_pointer", 256),
  ("type.is_scoped_enum", 8388608),
  ("type.is_short", 64),
  ("type.is_signed", 8),
  ("type.is_struct", 1024),
  ("type.is_typedef", 2097152),
  ("type.is_union", 4096),
  ("type.is_unpublished", 1048576),
  ("type.is_unsigned", 4),
  ("type.is_wrapped", 128),
  ("type.F_array", 4194304),
  ("type.F_atomic", 2),
  ("type.F_class", 2048),
  ("type.F_const", 512),
  ("type.F_deprecated", 33554432),
  ("type.F_enum", 524288),
  ("type.F_final", 16777216),
  ("type.F_fully_defined", 8192),
  ("type.F_global", 1),
  ("type.F_implicit_destructor", 131072),
  ("type.F_inherited_destructor", 65536),
  ("type.F_long", 16),
  ("type.F_longlong", 32),
  ("type.F_nested", 262144),
  ("type.F_pointer", 256),
  ("type.F_private_destructor", 32768),
  ("type.F_scoped_enum", 8388608),
  ("type.F_short", 64),
  ("type.F_signed", 8),
  ("type.F_struct", 1024),
  ("type.F_true_destructor", 16384),
  ("type.F_typedef", 2097152),
  ("type.F_union", 4096),
  ("type.F_unpublished", 1048576),
  ("type.F_unsigned", 4),
  ("type.F_wrapped", 128),
  ("manifest.has_getter", 2),
  ("manifest.has_int_value", 4),
  ("manifest.has_type", 1),
  ("manifest.F_has_getter", 2),
  ("manifest.F_has_int_value", 4),
  ("manifest.F_has_type", 1),
  ("element.has_clear_function", 16),
  ("element.has_del_function", 32),
  ("element.has_getkey_function", 512),
  ("element.has_getter", 2),
  ("element.has_has_function", 8),
  ("element.has_insert_function", 256),
  ("element.has_setter", 4),
  ("element.is_global", 1),
  ("element.is_mapping", 128),
  ("element.is_sequence", 64),
  ("element.F_global", 1),
  ("element.F_has_clear_function", 16),
  ("element.F_has_del_function", 32),
  ("element.F_has_getkey_function", 512),
  ("element.F_has_getter", 2),
  ("element.F_has_has_function", 8),
  ("element.F_has_insert_function", 256),
  ("element.F_has_setter", 4),
  ("element.F_mapping", 128),
  ("element.F_sequence", 64)
]

end IgVerif.Gen
