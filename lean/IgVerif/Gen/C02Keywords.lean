/-! REGENERATED on every run by tools/extract/c02_keywords.py from interfaceMakerPythonNative.cxx. -/
namespace IgVerif.Gen

def c02ExtractionFailed : Bool := false
def c02ExtractionError : String := ""
/-- names that `checkKeyword` prefixes with `_` -/
def c02PythonKeywords : List String := ["False", "None", "True", "and", "as", "assert", "async", "await", "break", "class", "continue", "def", "del", "elif", "else", "except", "exec", "finally", "for", "from", "global", "if", "import", "in", "is", "lambda", "nonlocal", "not", "or", "pass", "print", "raise", "return", "try", "while", "with", "yield"]
/-- `get_type_sort`: the rank that decides which overload is tried first -/
def c02TypeRanks : List (String × Nat) := [("string", 9), ("char_pointer", 8), ("unsigned_longlong", 7), ("longlong", 6), ("integer", 5), ("double", 4), ("float", 3), ("bool", 1), ("class", 20)]

end IgVerif.Gen
