import IgVerif.Model.Bytes
/-! Lemmas about the decimal codec: `decInt (ws ++ showInt i ++ rest) = (i, rest)`. -/
namespace IgVerif

theorem readAcc_append (ds : Bytes) (hd : ∀ d ∈ ds, isDigit d = true) (rest : Bytes)
    (hr : NoDigitHead rest) (acc : Nat) :
    readAcc acc (ds ++ rest) = (ds.foldl (fun a d => a * 10 + (d - 48)) acc, rest) := by
  induction ds generalizing acc with
  | nil =>
    cases rest with
    | nil => simp [readAcc]
    | cons c cs => simp [readAcc, hr c rfl]
  | cons d ds ih =>
    have h1 : isDigit d = true := hd d (by simp)
    simp only [List.cons_append, readAcc, h1, if_true, List.foldl_cons]
    exact ih (fun x hx => hd x (by simp [hx])) _

theorem digitsRev_spec : ∀ (f n : Nat), n < f →
    (∀ d ∈ digitsRev f n, isDigit d = true) ∧
    (digitsRev f n).foldr (fun d a => a * 10 + (d - 48)) 0 = n ∧ digitsRev f n ≠ []
  | 0, n, h => by omega
  | f+1, n, h => by
    unfold digitsRev
    by_cases hn : n < 10
    · simp only [hn, if_true]
      refine ⟨?_, ?_, by simp⟩
      · intro d hd; simp at hd; subst hd; simp [isDigit]; omega
      · simp
    · simp only [hn, if_false]
      have hlt : n / 10 < f := by omega
      obtain ⟨h1, h2, _⟩ := digitsRev_spec f (n / 10) hlt
      refine ⟨?_, ?_, by simp⟩
      · intro d hd
        simp at hd
        rcases hd with rfl | hd
        · simp [isDigit]; omega
        · exact h1 d hd
      · simp only [List.foldr_cons, h2]; omega

theorem showNat_digits (n : Nat) : ∀ d ∈ showNat n, isDigit d = true := by
  intro d hd
  exact (digitsRev_spec (n+1) n (by omega)).1 d (by simpa [showNat] using hd)

theorem showNat_ne_nil (n : Nat) : showNat n ≠ [] := by
  simpa [showNat] using (digitsRev_spec (n+1) n (by omega)).2.2

theorem readNat_showNat (n : Nat) (rest : Bytes) (hr : NoDigitHead rest) :
    readNat (showNat n ++ rest) = some (n, rest) := by
  obtain ⟨_, h2, _⟩ := digitsRev_spec (n+1) n (by omega)
  have hd := showNat_digits n
  have hne := showNat_ne_nil n
  match hs : showNat n, hne with
  | c :: cs, _ =>
    have hc : isDigit c = true := hd c (by simp [hs])
    simp only [List.cons_append, readNat, hc, if_true]
    have := readAcc_append (c :: cs) (by simpa [hs] using hd) rest hr 0
    rw [List.cons_append] at this
    rw [this, ← hs, showNat, List.foldl_reverse]
    simp [h2]

theorem digit_not_space {c : Nat} (h : isDigit c = true) : isSpace c = false := by
  simp [isDigit, isSpace] at *; omega

theorem skipWs_allSpace_append (w s : Bytes) (hw : AllSpace w) : skipWs (w ++ s) = skipWs s := by
  induction w with
  | nil => rfl
  | cons c cs ih =>
    have hc : isSpace c = true := hw c (by simp)
    simp only [List.cons_append, skipWs, hc, if_true]
    exact ih (fun x hx => hw x (by simp [hx]))

theorem skipWs_of_head_nonspace (s : Bytes) (h : ∀ c, s.head? = some c → isSpace c = false) :
    skipWs s = s := by
  cases s with
  | nil => rfl
  | cons c cs => simp [skipWs, h c rfl]

theorem showNat_head (n : Nat) : ∃ c cs, showNat n = c :: cs ∧ isDigit c = true := by
  have hne := showNat_ne_nil n
  match hs : showNat n, hne with
  | c :: cs, _ => exact ⟨c, cs, rfl, showNat_digits n c (by simp [hs])⟩

/-- The central codec lemma: what `ostream << int` writes, `istream >> int` reads
back, after any leading whitespace and provided the next byte is not a digit. -/
theorem decInt_showInt (i : Int) (hi : FitsInt i) (pre rest : Bytes) (hp : AllSpace pre)
    (hr : NoDigitHead rest) : decInt (pre ++ (showInt i ++ rest)) = .ok (i, rest) := by
  unfold decInt
  rw [skipWs_allSpace_append _ _ hp]
  unfold showInt
  by_cases hneg : i < 0
  · simp only [hneg, if_true, List.cons_append]
    have : skipWs (45 :: (showNat i.natAbs ++ rest)) = 45 :: (showNat i.natAbs ++ rest) := by
      simp [skipWs, isSpace]
    rw [this]
    simp only [readNat_showNat _ _ hr]
    have h1 : (-(i.natAbs : Int)) = i := by omega
    have h2 : ¬ (-(i.natAbs : Int)) < intMin := by
      unfold FitsInt at hi; omega
    simp only [h1]
    have h3 : intMin ≤ i := hi.1
    simp [h3]
  · simp only [hneg, if_false]
    obtain ⟨c, cs, hs, hc⟩ := showNat_head i.toNat
    have hsk : skipWs (showNat i.toNat ++ rest) = showNat i.toNat ++ rest := by
      rw [hs]; simp [skipWs, digit_not_space hc]
    rw [hsk]
    have hc45 : c ≠ 45 := by intro h; subst h; simp [isDigit] at hc
    have hc43 : c ≠ 43 := by intro h; subst h; simp [isDigit] at hc
    have hrd := readNat_showNat i.toNat rest hr
    rw [hs] at hrd ⊢
    simp only [List.cons_append] at hrd ⊢
    split
    · rename_i h; injection h with h _; exact absurd h hc45
    · rename_i h; injection h with h _; exact absurd h hc43
    · rw [hrd]
      have h1 : ((i.toNat : Nat) : Int) = i := by omega
      have h2 : ¬ ((i.toNat : Nat) : Int) > intMax := by unfold FitsInt at hi; omega
      simp only [h1]
      have h3 : i ≤ intMax := hi.2
      simp [h3]

theorem noDigitHead_of_space (c : Nat) (s : Bytes) (h : isSpace c = true) : NoDigitHead (c :: s) := by
  intro d hd
  simp at hd; subst hd
  cases hdg : isDigit c with
  | false => rfl
  | true => have := digit_not_space hdg; simp [this] at h

theorem noDigitHead_append_space (w rest : Bytes) (hw : AllSpace w) (hr : NoDigitHead rest) :
    NoDigitHead (w ++ rest) := by
  cases w with
  | nil => simpa using hr
  | cons c cs => exact noDigitHead_of_space c _ (hw c (by simp))

theorem noDigitHead_nil : NoDigitHead [] := by intro c h; simp at h

end IgVerif
