import IgVerif.Model.CType
/-! The printed text of a type derives, in the declarator grammar, exactly that type. -/
namespace IgVerif.CT
open Tok

/-- the pointer operators collected in the prename, outermost first -/
inductive PreOps : List Tok → ADecl → ADecl → Prop
  | nil {d} : PreOps [] d d
  | ptr {ts d0 d} : PreOps ts d0 d → PreOps (star :: ts) d0 (.ptr false d)
  | ptrc {ts d0 d} : PreOps ts d0 d → PreOps (star :: kconst :: ts) d0 (.ptr true d)
  | lref {ts d0 d} : PreOps ts d0 d → PreOps (amp :: ts) d0 (.lref d)
  | rref {ts d0 d} : PreOps ts d0 d → PreOps (ampamp :: ts) d0 (.rref d)

theorem preOps_ptrD {pre nm dn d} (hp : PreOps pre dn d) (hn : NoPtrD nm dn) : PtrD (pre ++ nm) d := by
  induction hp with
  | nil => exact PtrD.noptr hn
  | ptr _ ih => exact PtrD.ptr (ih hn)
  | ptrc _ ih => exact PtrD.ptrc (ih hn)
  | lref _ ih => exact PtrD.lref (ih hn)
  | rref _ ih => exact PtrD.rref (ih hn)

theorem preOps_name {pre dn d} (hp : PreOps pre dn d) : declName d = declName dn := by
  induction hp with
  | nil => rfl
  | ptr _ ih => simpa [declName] using ih
  | ptrc _ ih => simpa [declName] using ih
  | lref _ ih => simpa [declName] using ih
  | rref _ ih => simpa [declName] using ih

theorem preOps_noops {pre dn d} (hp : PreOps pre dn d) (h : pre.any isPtrOp = false) : pre = [] ∧ d = dn := by
  cases hp with
  | nil => exact ⟨rfl, rfl⟩
  | ptr _ => simp [isPtrOp] at h
  | ptrc _ => simp [isPtrOp] at h
  | lref _ => simp [isPtrOp] at h
  | rref _ => simp [isPtrOp] at h

theorem preOps_empty {pre dn d} (hp : PreOps pre dn d) (h : pre.isEmpty = true) : pre = [] ∧ d = dn := by
  cases hp with
  | nil => exact ⟨rfl, rfl⟩
  | ptr _ => simp at h
  | ptrc _ => simp at h
  | lref _ => simp at h
  | rref _ => simp at h

theorem preOps_ops {pre dn d} (hp : PreOps pre dn d) (h : pre.isEmpty = false) : pre.any isPtrOp = true := by
  cases hp with
  | nil => simp at h
  | ptr _ => simp [isPtrOp]
  | ptrc _ => simp [isPtrOp]
  | lref _ => simp [isPtrOp]
  | rref _ => simp [isPtrOp]

mutual
/-- **Main lemma.** If the name part derives the noptr-declarator `dn` and the prename is a
stack of pointer operators turning `dn` into `d`, then the text printed for `t` derives the
declaration whose type is `denote d t`. -/
theorem oi_denotes : (t : CType) → WF t = true → (pre nm : List Tok) → (dn d : ADecl) →
    NoPtrD nm dn → PreOps pre dn d → DeclG (oi t pre nm) (denote d t) (declName dn)
  | .base s, _, pre, nm, dn, d, hn, hp => by
    simp only [oi]
    rw [← preOps_name hp]
    exact DeclG.plain (preOps_ptrD hp hn)
  | .const (.base s), _, pre, nm, dn, d, hn, hp => by
    simp only [oi]
    rw [← preOps_name hp]
    exact DeclG.cst (preOps_ptrD hp hn)
  | .const (.ptr u), hw, pre, nm, dn, d, hn, hp => by
    simp only [oi]
    have := oi_denotes u (by simpa [WF] using hw) (star :: kconst :: pre) nm dn (.ptr true d) hn (PreOps.ptrc hp)
    simpa [denote] using this
  | .const (.const _), hw, _, _, _, _, _, _ => by simp [WF] at hw
  | .const (.lref _), hw, _, _, _, _, _, _ => by simp [WF] at hw
  | .const (.rref _), hw, _, _, _, _, _, _ => by simp [WF] at hw
  | .const (.arr _ _), hw, _, _, _, _, _, _ => by simp [WF] at hw
  | .const (.fn _ _ _), hw, _, _, _, _, _, _ => by simp [WF] at hw
  | .ptr u, hw, pre, nm, dn, d, hn, hp => by
    simp only [oi]
    have := oi_denotes u (by simpa [WF] using hw) (star :: pre) nm dn (.ptr false d) hn (PreOps.ptr hp)
    simpa [denote] using this
  | .lref u, hw, pre, nm, dn, d, hn, hp => by
    simp only [oi]
    have := oi_denotes u (by simpa [WF] using hw) (amp :: pre) nm dn (.lref d) hn (PreOps.lref hp)
    simpa [denote] using this
  | .rref u, hw, pre, nm, dn, d, hn, hp => by
    simp only [oi]
    have := oi_denotes u (by simpa [WF] using hw) (ampamp :: pre) nm dn (.rref d) hn (PreOps.rref hp)
    simpa [denote] using this
  | .arr u n, hw, pre, nm, dn, d, hn, hp => by
    simp only [oi]
    have hu : WF u = true := by simpa [WF] using hw
    by_cases hops : pre.any isPtrOp = true
    · rw [if_pos hops]
      have hnm : NoPtrD (lp :: (pre ++ nm) ++ rp :: brackets n) (.arr d n) := by
        have h1 : NoPtrD (lp :: ((pre ++ nm) ++ [rp])) d := NoPtrD.paren (preOps_ptrD hp hn)
        have h2 := NoPtrD.arr n h1
        simpa using h2
      have := oi_denotes u hu [] _ (.arr d n) (.arr d n) hnm PreOps.nil
      rw [← preOps_name hp]
      simpa [denote, declName] using this
    · rw [if_neg hops]
      have hops' : pre.any isPtrOp = false := by simpa using hops
      obtain ⟨hpre, hd⟩ := preOps_noops hp hops'
      subst hpre; subst hd
      have := oi_denotes u hu [] (nm ++ brackets n) (.arr d n) (.arr d n) (NoPtrD.arr n hn) PreOps.nil
      simpa [denote, declName] using this
  | .fn r ps v, hw, pre, nm, dn, d, hn, hp => by
    simp only [oi]
    have hr : WF r = true := by
      have : WF r = true ∧ WFs ps = true := by simpa [WF] using hw
      exact this.1
    have hps : WFs ps = true := by
      have : WF r = true ∧ WFs ps = true := by simpa [WF] using hw
      exact this.2
    have hpar := oparams_denotes ps hps v
    by_cases hemp : pre.isEmpty = true
    · rw [if_pos hemp]
      obtain ⟨hpre, hd⟩ := preOps_empty hp hemp
      subst hpre; subst hd
      have := oi_denotes r hr [] (nm ++ lp :: (oparams ps v ++ [rp])) (.fn d ps v) (.fn d ps v) (NoPtrD.fn hn hpar) PreOps.nil
      simpa [denote, declName] using this
    · rw [if_neg hemp]
      have hnm : NoPtrD (lp :: (pre ++ nm) ++ rp :: lp :: (oparams ps v ++ [rp])) (.fn d ps v) := by
        have h1 : NoPtrD (lp :: ((pre ++ nm) ++ [rp])) d := NoPtrD.paren (preOps_ptrD hp hn)
        have h2 := NoPtrD.fn h1 hpar
        simpa using h2
      have := oi_denotes r hr [] _ (.fn d ps v) (.fn d ps v) hnm PreOps.nil
      rw [← preOps_name hp]
      simpa [denote, declName] using this
/-- the printed parameter list derives the parameter types, in order -/
theorem oparams_denotes : (ps : CParams) → WFs ps = true → (v : Bool) → ParamsG (oparams ps v) ps v
  | .nil, _, v => by
    cases v
    · simp only [oparams]; exact ParamsG.voidp
    · simp only [oparams]; exact ParamsG.dots
  | .cons t n rest, hw, v => by
    have h : WF t = true ∧ WFs rest = true := by simpa [WFs] using hw
    have hd : DeclG (oi t [] (nameToks n)) t n := by
      have := oi_denotes t h.1 [] (nameToks n) (.name n) (.name n) (NoPtrD.id n) PreOps.nil
      simpa [denote, declName] using this
    simp only [oparams]
    exact ParamsG.list (otail_denotes rest h.2 v t n _ hd)
theorem otail_denotes : (rest : CParams) → WFs rest = true → (v : Bool) → (t : CType) → (n : Option String) →
    (ts : List Tok) → DeclG ts t n → ParamList (ts ++ otail rest v) (.cons t n rest) v
  | .nil, _, v, t, n, ts, hd => by
    cases v
    · simp only [otail]; simpa using ParamList.one hd
    · simp only [otail]; exact ParamList.oneV hd
  | .cons t' n' rest', hw, v, t, n, ts, hd => by
    have h : WF t' = true ∧ WFs rest' = true := by simpa [WFs] using hw
    have hd' : DeclG (oi t' [] (nameToks n')) t' n' := by
      have := oi_denotes t' h.1 [] (nameToks n') (.name n') (.name n') (NoPtrD.id n') PreOps.nil
      simpa [denote, declName] using this
    simp only [otail]
    exact ParamList.cons hd (otail_denotes rest' h.2 v t' n' _ hd')
end

/-! ## unroll -/

theorem unroll_append (xs ys : List Mod) (b : CType) : unroll (xs ++ ys) b = unroll xs (unroll ys b) := by
  induction xs with
  | nil => rfl
  | cons x xs ih => simp [unroll, ih]

theorem unroll_mods (cd : CDecl) : ∀ b, unroll (mods cd) b = denote (erase cd) b := by
  induction cd with
  | name n => intro b; rfl
  | ptr c d ih => intro b; cases c <;> simp [mods, erase, denote, unroll_append, unroll, wrap, ih]
  | lref d ih => intro b; simp [mods, erase, denote, unroll_append, unroll, wrap, ih]
  | rref d ih => intro b; simp [mods, erase, denote, unroll_append, unroll, wrap, ih]
  | arr d n ih => intro b; simp [mods, erase, denote, unroll_append, unroll, wrap, ih]
  | fn d ps v ih => intro b; simp [mods, erase, denote, unroll_append, unroll, wrap, ih]
  | paren d ih => intro b; simp [mods, erase, unroll_append, unroll, wrap, ih]

end IgVerif.CT
