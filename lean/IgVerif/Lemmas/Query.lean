import IgVerif.Model.Query
/-! Lemmas for the query interface: lookup tables, cache coherence, binary search. -/
namespace IgVerif

/-! ## string-keyed maps -/

theorem SMap.find_filter_ne (m : SMap) (k k' : Bytes) (h : k' ≠ k) :
    SMap.find (m.filter (fun p => p.1 != k)) k' = SMap.find m k' := by
  induction m with
  | nil => rfl
  | cons p rest ih =>
    by_cases hp : p.1 = k
    · have : (p.1 != k) = false := by simp [hp]
      have hne : (p.1 == k') = false := by
        simp only [beq_eq_false_iff_ne]; intro h'; exact h (h'.symm.trans hp)
      simp only [List.filter, this, SMap.find, hne, ih]
      simp
    · have : (p.1 != k) = true := by simp [hp]
      simp only [List.filter, this, SMap.find, ih]

theorem SMap.find_set (m : SMap) (k k' : Bytes) (v : Int) :
    SMap.find (m.set k v) k' = if k == k' then some v else SMap.find m k' := by
  unfold SMap.set
  by_cases h : k = k'
  · subst h; simp [SMap.find]
  · have h' : (k == k') = false := by simp [h]
    simp only [SMap.find, h']
    simp only [Bool.false_eq_true, if_false]
    exact SMap.find_filter_ne m k k' (fun e => h e.symm)

/-- the index of the last entry of `m` whose `member` equals `name` (what `freshen` +
`find` compute: later entries overwrite earlier ones) -/
def lastBearing (spec : List Field) (member : String) (name : Bytes) (m : IMap (List Val)) (init : Option Int) : Option Int :=
  m.foldl (fun o p => if getStr spec p.2 member == name then some p.1 else o) init

theorem freshen_fold_find (spec : List Field) (member : String) (name : Bytes) (m : IMap (List Val)) (acc : SMap) :
    SMap.find (m.foldl (fun (a : SMap) p => a.set (getStr spec p.2 member) p.1) acc) name =
      lastBearing spec member name m (SMap.find acc name) := by
  induction m generalizing acc with
  | nil => rfl
  | cons p rest ih =>
    simp only [List.foldl_cons, lastBearing]
    rw [ih]
    simp only [lastBearing, SMap.find_set]

theorem freshen_find (spec : List Field) (member : String) (name : Bytes) (m : IMap (List Val)) :
    SMap.find (freshen spec m member) name = lastBearing spec member name m none := by
  unfold freshen
  rw [freshen_fold_find]
  rfl

theorem lastBearing_some (spec : List Field) (member : String) (name : Bytes) (m : IMap (List Val))
    (init : Option Int) (i : Int) (h : lastBearing spec member name m init = some i) :
    init = some i ∨ ∃ r, (i, r) ∈ m ∧ getStr spec r member = name := by
  induction m generalizing init with
  | nil => left; simpa [lastBearing] using h
  | cons p rest ih =>
    simp only [lastBearing, List.foldl_cons] at h
    rcases ih _ h with h1 | ⟨r, hr, hn⟩
    · by_cases hp : getStr spec p.2 member == name
      · simp only [hp, if_true] at h1
        right
        refine ⟨p.2, ?_, by simpa using hp⟩
        have : p.1 = i := by simpa using h1
        rw [← this]; simp
      · simp only [hp] at h1
        left; simpa using h1
    · right; exact ⟨r, by simp [hr], hn⟩

theorem lastBearing_none (spec : List Field) (member : String) (name : Bytes) (m : IMap (List Val))
    (init : Option Int) (h : ∀ p ∈ m, getStr spec p.2 member ≠ name) :
    lastBearing spec member name m init = init := by
  induction m generalizing init with
  | nil => rfl
  | cons p rest ih =>
    have hp : (getStr spec p.2 member == name) = false := by
      simp only [beq_eq_false_iff_ne]; exact h p (by simp)
    simp only [lastBearing, List.foldl_cons, hp]
    exact ih _ (fun q hq => h q (by simp [hq]))

theorem lastBearing_append_last (spec : List Field) (member : String) (name : Bytes)
    (l1 l2 : IMap (List Val)) (p : Int × List Val) (init : Option Int)
    (hp : getStr spec p.2 member = name) (h2 : ∀ q ∈ l2, getStr spec q.2 member ≠ name) :
    lastBearing spec member name (l1 ++ p :: l2) init = some p.1 := by
  unfold lastBearing
  rw [List.foldl_append, List.foldl_cons]
  have : (getStr spec p.2 member == name) = true := by simp [hp]
  simp only [this, if_true]
  exact lastBearing_none spec member name l2 (some p.1) h2

/-! ## cache coherence -/

/-- every table whose fresh bit is set equals what `freshen` would compute now -/
def CacheInv (c : Cfg) (s : St) : Prop := ∀ k, k ∈ s.fresh → s.cache k = s.freshMap c k

theorem cacheInv_init (c : Cfg) : CacheInv c {} := by
  intro k hk; simp at hk

theorem freshMap_congr (c : Cfg) (s t : St) (h : s.db = t.db) (k : LookupKind) :
    s.freshMap c k = t.freshMap c k := by
  cases k <;> simp [St.freshMap, h]

/-- the part of the state `CacheInv` talks about -/
def St.view (s : St) :=
  (s.fresh, s.typesByName, s.typesByScopedName, s.typesByTrueName, s.manifestsByName, s.elementsByName,
   s.elementsByScopedName, s.db.types, s.db.manifests, s.db.elements)

theorem cacheInv_of_view (c : Cfg) (s t : St) (hv : t.view = s.view) (h : CacheInv c s) : CacheInv c t := by
  simp only [St.view, Prod.mk.injEq] at hv
  obtain ⟨h0, h1, h2, h3, h4, h5, h6, h7, h8, h9⟩ := hv
  intro k hk
  have := h k (h0 ▸ hk)
  cases k <;> simp only [St.cache, St.freshMap] at this ⊢ <;> simp [*]

theorem view_rmAssign (s : St) (d : ModDef) : (s.rmAssign d).1.view = s.view := by
  unfold St.rmAssign; simp only; split <;> rfl

theorem view_rmHash (s : St) (d : ModDef) : (s.rmHash d).view = s.view := by
  unfold St.rmHash; split <;> rfl

theorem view_rmRequest (s : St) (d : ModDef) : (s.rmRequest d).view = s.view := by
  unfold St.rmRequest; split <;> rfl

theorem cacheInv_requestModule (c : Cfg) (s : St) (d : ModDef) (h : CacheInv c s) :
    CacheInv c (s.requestModule d) := by
  apply cacheInv_of_view c s _ _ h
  unfold St.requestModule
  rw [view_rmRequest, view_rmHash, view_rmAssign]

theorem cacheInv_of_fresh_nil (c : Cfg) (s : St) (h : s.fresh = []) : CacheInv c s := by
  intro k hk; rw [h] at hk; simp at hk

theorem cacheInv_errorFlag (c : Cfg) (s : St) (h : CacheInv c s) : CacheInv c { s with errorFlag := true } := by
  intro k hk
  have := h k hk
  cases k <;> simpa [St.cache, St.freshMap] using this

theorem cacheInv_loadOne (c : Cfg) (s : St) (d : ModDef) (h : CacheInv c s) : CacheInv c (s.loadOne c d) := by
  unfold St.loadOne
  split
  · exact h
  · exact cacheInv_errorFlag c s h
  · exact cacheInv_of_fresh_nil c _ rfl

theorem cacheInv_foldl_loadOne (c : Cfg) (ds : List ModDef) (s : St) (h : CacheInv c s) :
    CacheInv c (ds.foldl (St.loadOne c) s) := by
  induction ds generalizing s with
  | nil => exact h
  | cons d ds ih => exact ih _ (cacheInv_loadOne c s d h)

theorem cacheInv_checkLatest (c : Cfg) (s : St) (h : CacheInv c s) : CacheInv c (s.checkLatest c) := by
  unfold St.checkLatest
  split
  · exact h
  · apply cacheInv_foldl_loadOne
    intro k hk
    have := h k hk
    cases k <;> simpa [St.cache, St.freshMap] using this

theorem cache_setCache_self (s : St) (k : LookupKind) (m : SMap) : (s.setCache k m).cache k = m := by
  cases k <;> rfl

theorem cache_setCache_ne (s : St) (k k' : LookupKind) (m : SMap) (h : k' ≠ k) :
    (s.setCache k m).cache k' = s.cache k' := by
  cases k <;> cases k' <;> first | rfl | exact absurd rfl h

theorem freshMap_setCache (c : Cfg) (s : St) (k k' : LookupKind) (m : SMap) :
    (s.setCache k m).freshMap c k' = s.freshMap c k' := by
  cases k <;> cases k' <;> rfl

/-- **Lookup answers from the current database**, whatever was cached before. -/
theorem lookup_answer (c : Cfg) (s : St) (k : LookupKind) (name : Bytes) (h : CacheInv c s) :
    (s.lookup c k name).2 = (SMap.find ((s.checkLatest c).freshMap c k) name).getD 0 := by
  have h1 := cacheInv_checkLatest c s h
  unfold St.lookup
  simp only
  split
  · rename_i hc
    simp only [St.rebuild, cache_setCache_self]
    have : ({ (St.setCache (s.checkLatest c) k ((s.checkLatest c).freshMap c k)) with
              fresh := k :: (s.checkLatest c).fresh } : St).cache k
          = (St.setCache (s.checkLatest c) k ((s.checkLatest c).freshMap c k)).cache k := by
      cases k <;> rfl
    rw [this, cache_setCache_self]
  · rename_i hc
    have hm : k ∈ (s.checkLatest c).fresh := by
      simpa using hc
    rw [h1 k hm]

theorem cacheInv_lookup (c : Cfg) (s : St) (k : LookupKind) (name : Bytes) (h : CacheInv c s) :
    CacheInv c (s.lookup c k name).1 := by
  have h1 := cacheInv_checkLatest c s h
  unfold St.lookup
  simp only
  split
  · intro k' hk'
    have hk'' : k' = k ∨ k' ∈ (s.checkLatest c).fresh := by simpa using hk'
    have e1 : ∀ k'', ({ (St.rebuild c (s.checkLatest c) k) with fresh := k :: (s.checkLatest c).fresh } : St).cache k''
        = (St.rebuild c (s.checkLatest c) k).cache k'' := by intro k''; cases k'' <;> rfl
    have e2 : ∀ k'', ({ (St.rebuild c (s.checkLatest c) k) with fresh := k :: (s.checkLatest c).fresh } : St).freshMap c k''
        = (s.checkLatest c).freshMap c k'' := by
      intro k''
      rw [← freshMap_setCache c (s.checkLatest c) k k'' ((s.checkLatest c).freshMap c k)]
      cases k'' <;> rfl
    rw [e1, e2]
    by_cases hkk : k' = k
    · subst hkk; simp [St.rebuild, cache_setCache_self]
    · rcases hk'' with h' | h'
      · exact absurd h' hkk
      · simp only [St.rebuild]
        rw [cache_setCache_ne _ _ _ _ hkk]
        exact h1 k' h'
  · exact h1

/-! ## every reachable state satisfies the cache invariant -/

inductive QOp where
  | request (d : ModDef)                       -- interrogate_request_module / _database
  | lookup (k : LookupKind) (name : Bytes)     -- interrogate_get_*_by_*name
  | touch                                      -- any other accessor (calls check_latest)

def qstep (c : Cfg) (s : St) : QOp → St
  | .request d => s.requestModule d
  | .lookup k name => (s.lookup c k name).1
  | .touch => s.checkLatest c

theorem cacheInv_reachable (c : Cfg) (ops : List QOp) : CacheInv c (ops.foldl (qstep c) {}) := by
  suffices ∀ s, CacheInv c s → CacheInv c (ops.foldl (qstep c) s) from this {} (cacheInv_init c)
  induction ops with
  | nil => intro s h; exact h
  | cons op ops ih =>
    intro s h
    apply ih
    cases op with
    | request d => exact cacheInv_requestModule c s d h
    | lookup k name => exact cacheInv_lookup c s k name h
    | touch => exact cacheInv_checkLatest c s h

/-! ## binary search over the unique-name table -/

theorem bsearchFuel_terminates (names : List (Bytes × Int)) (key : Bytes) :
    ∀ (fuel b e : Nat), e - b < fuel → (bsearchFuel names key fuel b e).isSome = true
  | 0, b, e, h => by omega
  | fuel+1, b, e, h => by
    unfold bsearchFuel
    split
    · rfl
    · simp only
      split
      · rfl
      · split
        · exact bsearchFuel_terminates names key fuel _ _ (by omega)
        · split
          · exact bsearchFuel_terminates names key fuel _ _ (by omega)
          · rfl

end IgVerif

namespace IgVerif

/-- the table interrogate_module emits is strictly ascending by name -/
def SortedNames (names : List (Bytes × Int)) : Prop := names.Pairwise (fun p q => p.1 < q.1)

instance (names : List (Bytes × Int)) : Decidable (SortedNames names) := by
  unfold SortedNames; exact inferInstance

theorem SortedNames.index {names : List (Bytes × Int)} (h : SortedNames names) :
    ∀ (i j : Nat) (p q : Bytes × Int), i < j → names[i]? = some p → names[j]? = some q → p.1 < q.1 := by
  intro i j p q hij hp hq
  have hi : i < names.length := by
    rcases Nat.lt_or_ge i names.length with h' | h'
    · exact h'
    · rw [List.getElem?_eq_none h'] at hp; simp at hp
  have hj : j < names.length := by
    rcases Nat.lt_or_ge j names.length with h' | h'
    · exact h'
    · rw [List.getElem?_eq_none h'] at hq; simp at hq
  have := (List.pairwise_iff_getElem.mp h) i j hi hj hij
  rw [List.getElem?_eq_getElem hi] at hp
  rw [List.getElem?_eq_getElem hj] at hq
  simp at hp hq
  rw [← hp, ← hq]; exact this

theorem bytes_trichotomy (a b : Bytes) (h1 : ¬ a < b) (h2 : ¬ b < a) : a = b := by
  have h1' : b ≤ a := List.not_lt.mp h1
  have h2' : a ≤ b := List.not_lt.mp h2
  exact List.le_antisymm h2' h1'

theorem bsearchFuel_found (names : List (Bytes × Int)) (key : Bytes) (off : Int) (hs' : SortedNames names)
    (i : Nat) (hi : names[i]? = some (key, off)) :
    ∀ (fuel b e : Nat), e - b < fuel → b ≤ i → i < e → e ≤ names.length →
      bsearchFuel names key fuel b e = some off
  | 0, b, e, h, _, _, _ => by omega
  | fuel+1, b, e, h, hb, he, hl => by
    have hs := hs'.index
    unfold bsearchFuel
    have hne : ¬ e ≤ b := by omega
    simp only [hne, if_false]
    have hmid : b + (e - b) / 2 < names.length := by omega
    have hget : names[b + (e - b) / 2]? = some names[b + (e - b) / 2] := List.getElem?_eq_getElem hmid
    rw [hget]
    simp only
    generalize hm : b + (e - b) / 2 = mid at *
    by_cases h1 : (names[mid]).1 < key
    · simp only [h1, if_true]
      have : mid < i := by
        rcases Nat.lt_trichotomy mid i with h' | h' | h'
        · exact h'
        · subst h'; rw [hget] at hi
          have : names[mid] = (key, off) := by simpa using hi
          rw [this] at h1; exact absurd h1 (List.lt_irrefl _)
        · have := hs i mid (key, off) names[mid] h' hi hget
          exact absurd h1 (List.lt_asymm this)
      exact bsearchFuel_found names key off hs' i hi fuel _ _ (by omega) (by omega) he hl
    · simp only [h1, if_false]
      by_cases h2 : key < (names[mid]).1
      · simp only [h2, if_true]
        have : i < mid := by
          rcases Nat.lt_trichotomy mid i with h' | h' | h'
          · have := hs mid i names[mid] (key, off) h' hget hi
            exact absurd h2 (List.lt_asymm this)
          · subst h'; rw [hget] at hi
            have : names[mid] = (key, off) := by simpa using hi
            rw [this] at h2; exact absurd h2 (List.lt_irrefl _)
          · exact h'
        exact bsearchFuel_found names key off hs' i hi fuel _ _ (by omega) hb this (by omega)
      · simp only [h2, if_false]
        have heq : (names[mid]).1 = key := bytes_trichotomy _ _ h1 h2
        have : mid = i := by
          rcases Nat.lt_trichotomy mid i with h' | h' | h'
          · have := hs mid i names[mid] (key, off) h' hget hi
            rw [heq] at this; exact absurd this (List.lt_irrefl _)
          · exact h'
          · have := hs i mid (key, off) names[mid] h' hi hget
            rw [heq] at this; exact absurd this (List.lt_irrefl _)
        subst this
        rw [hget] at hi
        have : names[mid] = (key, off) := by simpa using hi
        rw [this]

theorem bsearchFuel_absent (names : List (Bytes × Int)) (key : Bytes) (ha : ∀ p ∈ names, p.1 ≠ key) :
    ∀ (fuel b e : Nat), e - b < fuel → e ≤ names.length → bsearchFuel names key fuel b e = some (-1)
  | 0, b, e, h, _ => by omega
  | fuel+1, b, e, h, hl => by
    unfold bsearchFuel
    by_cases hne : e ≤ b
    · simp [hne]
    · simp only [hne, if_false]
      have hmid : b + (e - b) / 2 < names.length := by omega
      have hget : names[b + (e - b) / 2]? = some names[b + (e - b) / 2] := List.getElem?_eq_getElem hmid
      rw [hget]
      simp only
      by_cases h1 : (names[b + (e - b) / 2]).1 < key
      · simp only [h1, if_true]
        exact bsearchFuel_absent names key ha fuel _ _ (by omega) hl
      · simp only [h1, if_false]
        by_cases h2 : key < (names[b + (e - b) / 2]).1
        · simp only [h2, if_true]
          exact bsearchFuel_absent names key ha fuel _ _ (by omega) (by omega)
        · exact absurd (bytes_trichotomy _ _ h1 h2) (ha _ (List.getElem_mem hmid))

theorem bsearch_found (names : List (Bytes × Int)) (key : Bytes) (off : Int) (hs : SortedNames names)
    (i : Nat) (hi : names[i]? = some (key, off)) : bsearch names key = off := by
  unfold bsearch
  have hlt : i < names.length := by
    rcases Nat.lt_or_ge i names.length with h | h
    · exact h
    · rw [List.getElem?_eq_none h] at hi; simp at hi
  rw [bsearchFuel_found names key off hs i hi (names.length + 1) 0 names.length (by omega) (by omega) hlt (Nat.le_refl _)]
  rfl

theorem bsearch_absent (names : List (Bytes × Int)) (key : Bytes) (ha : ∀ p ∈ names, p.1 ≠ key) :
    bsearch names key = -1 := by
  unfold bsearch
  rw [bsearchFuel_absent names key ha (names.length + 1) 0 names.length (by omega) (Nat.le_refl _)]
  rfl

end IgVerif
