import IgVerif.Lemmas.Query
import IgVerif.Lemmas.Remap
/-! Lemmas about `merge_with` (flag algebra) and about what `check_latest` leaves behind. -/
namespace IgVerif

theorem findVal_setVal_self (spec : List Field) (r : List Val) (n : String) (x : Val)
    (h : (findVal spec r n).isSome = true) : findVal spec (setVal spec r n x) n = some x := by
  induction spec generalizing r with
  | nil => simp [findVal] at h
  | cons f fs ih =>
    cases r with
    | nil => simp [findVal] at h
    | cons v vs =>
      by_cases hf : (fieldName f == n) = true
      · simp [findVal, setVal, hf]
      · have hf' : (fieldName f == n) = false := by simpa using hf
        simp only [findVal, hf'] at h
        simp only [setVal, hf', Bool.false_eq_true, if_false, findVal]
        exact ih vs h

/-- the record has an integer `_flags` member holding a non-negative value -/
def HasFlags (spec : List Field) (r : List Val) : Prop :=
  ∃ f : Int, findVal spec r "_flags" = some (.a (.int f)) ∧ 0 ≤ f

theorem hasFlag_orFlag (spec : List Field) (r : List Val) (m m' : Nat) (h : HasFlags spec r) :
    hasFlag spec (orFlag spec r m) m' = (hasFlag spec r m' || (m &&& m' != 0)) := by
  obtain ⟨f, hf, hpos⟩ := h
  have hs : (findVal spec r "_flags").isSome = true := by simp [hf]
  unfold hasFlag orFlag
  simp only [getInt, findVal_setVal_self spec r "_flags" _ hs, hf]
  have : (Int.ofNat (f.toNat ||| m)).toNat = f.toNat ||| m := by simp
  rw [this, Nat.and_or_distrib_right]
  cases h1 : (f.toNat &&& m' != 0) <;> cases h2 : (m &&& m' != 0) <;> simp_all

theorem hasFlags_orFlag (spec : List Field) (r : List Val) (m : Nat) (h : HasFlags spec r) :
    HasFlags spec (orFlag spec r m) := by
  obtain ⟨f, hf, _⟩ := h
  have hs : (findVal spec r "_flags").isSome = true := by simp [hf]
  exact ⟨_, findVal_setVal_self spec r "_flags" _ hs, by simp⟩

theorem loadOne_requests (c : Cfg) (s : St) (d : ModDef) : (s.loadOne c d).requests = s.requests := by
  unfold St.loadOne; split <;> rfl

theorem foldl_loadOne_requests (c : Cfg) (ds : List ModDef) (s : St) :
    (ds.foldl (St.loadOne c) s).requests = s.requests := by
  induction ds generalizing s with
  | nil => rfl
  | cons d ds ih => simp only [List.foldl_cons]; rw [ih, loadOne_requests]

/-- after `check_latest()` no database file is pending -/
theorem checkLatest_requests (c : Cfg) (s : St) : (s.checkLatest c).requests = [] := by
  unfold St.checkLatest
  split
  · rename_i h; simpa using h
  · rw [foldl_loadOne_requests]

theorem lookup_requests (c : Cfg) (s : St) (k : LookupKind) (name : Bytes) :
    (s.lookup c k name).1.requests = [] := by
  unfold St.lookup
  simp only
  split
  · have : ({ (St.rebuild c (s.checkLatest c) k) with fresh := k :: (s.checkLatest c).fresh } : St).requests
        = (s.checkLatest c).requests := by
      cases k <;> rfl
    rw [this, checkLatest_requests]
  · exact checkLatest_requests c s

end IgVerif
