import IgVerif.Model.ModuleOrder
/-! Basic facts about the association-list model of `std::map<string, std::set<string>>`. -/
namespace IgVerif.MO

theorem has_iff (d : Deps) (k : String) : d.has k = true ↔ k ∈ d.keys := by
  induction d with
  | nil => simp [Deps.has, Deps.keys]
  | cons p rest ih =>
    simp only [Deps.has, Deps.keys, List.any_cons, Bool.or_eq_true, beq_iff_eq, List.map_cons, List.mem_cons] at *
    rw [ih]; constructor
    · rintro (h | h); exact Or.inl h.symm; exact Or.inr h
    · rintro (h | h); exact Or.inl h.symm; exact Or.inr h

theorem has_cons (p : String × List String) (rest : Deps) (k : String) :
    Deps.has (p :: rest) k = (p.1 == k || Deps.has rest k) := by
  simp [Deps.has]

theorem get_of_not_has (d : Deps) (k : String) (h : d.has k = false) : d.get k = [] := by
  induction d with
  | nil => rfl
  | cons p rest ih =>
    simp only [Deps.has, List.any_cons, Bool.or_eq_false_iff] at h
    simp only [Deps.get, h.1, Bool.false_eq_true, if_false]
    exact ih (by simpa [Deps.has] using h.2)

/-! ### replace -/
theorem get_replace_self (d : Deps) (k : String) (v : List String) (h : d.has k = true) :
    (d.replace k v).get k = v := by
  induction d with
  | nil => simp [Deps.has] at h
  | cons p rest ih =>
    obtain ⟨k', v'⟩ := p
    unfold Deps.replace
    split
    · simp [Deps.get]
    · rename_i h1
      have h1' : (k' == k) = false := by simpa using h1
      simp only [Deps.get, h1', Bool.false_eq_true, if_false]
      apply ih
      rw [has_cons] at h; simpa [h1'] using h

theorem get_replace_ne (d : Deps) (k k' : String) (v : List String) (h : k' ≠ k) :
    (d.replace k v).get k' = d.get k' := by
  induction d with
  | nil => rfl
  | cons p rest ih =>
    obtain ⟨k2, v2⟩ := p
    unfold Deps.replace
    split
    · rename_i h1
      have e : k2 = k := by simpa using h1
      have n1 : (k == k') = false := by simp; exact fun e => h e.symm
      have n2 : (k2 == k') = false := by rw [e]; exact n1
      simp [Deps.get, n1, n2]
    · simp only [Deps.get]
      split
      · rfl
      · exact ih

theorem keys_replace (d : Deps) (k : String) (v : List String) : (d.replace k v).keys = d.keys := by
  induction d with
  | nil => rfl
  | cons p rest ih =>
    obtain ⟨k2, v2⟩ := p
    unfold Deps.replace
    split
    · rename_i h1
      have e : k2 = k := by simpa using h1
      simp [Deps.keys, e]
    · simp only [Deps.keys, List.map_cons, List.cons.injEq, true_and] at *
      exact ih

theorem length_replace (d : Deps) (k : String) (v : List String) : (d.replace k v).length = d.length := by
  have := congrArg List.length (keys_replace d k v)
  simpa [Deps.keys] using this

theorem edges_replace (d : Deps) (k : String) (v : List String) (h : d.has k = true) :
    (d.replace k v).edges + (d.get k).length = d.edges + v.length := by
  induction d with
  | nil => simp [Deps.has] at h
  | cons p rest ih =>
    obtain ⟨k2, v2⟩ := p
    unfold Deps.replace
    split
    · rename_i h1
      simp only [Deps.edges, List.map_cons, List.sum_cons, Deps.get, h1, if_true]
      omega
    · rename_i h1
      have h1' : (k2 == k) = false := by simpa using h1
      have hr : Deps.has rest k = true := by rw [has_cons] at h; simpa [h1'] using h
      have := ih hr
      simp only [Deps.edges, List.map_cons, List.sum_cons, Deps.get, h1', Bool.false_eq_true, if_false] at *
      omega

/-! ### insert -/
theorem keys_insert_perm (d : Deps) (k : String) (v : List String) : (d.insert k v).keys.Perm (k :: d.keys) := by
  induction d with
  | nil => simp [Deps.insert, Deps.keys]
  | cons p rest ih =>
    obtain ⟨k2, v2⟩ := p
    unfold Deps.insert
    split
    · simp [Deps.keys]
    · simp only [Deps.keys, List.map_cons] at *
      exact (List.Perm.cons k2 ih).trans (List.Perm.swap k k2 _)

theorem length_insert (d : Deps) (k : String) (v : List String) : (d.insert k v).length = d.length + 1 := by
  have := (keys_insert_perm d k v).length_eq
  simpa [Deps.keys] using this

theorem get_insert_self (d : Deps) (k : String) (v : List String) (h : d.has k = false) :
    (d.insert k v).get k = v := by
  induction d with
  | nil => simp [Deps.insert, Deps.get]
  | cons p rest ih =>
    obtain ⟨k2, v2⟩ := p
    rw [has_cons] at h
    simp only [Bool.or_eq_false_iff] at h
    unfold Deps.insert
    split
    · simp [Deps.get]
    · simp only [Deps.get, h.1, Bool.false_eq_true, if_false]
      exact ih h.2

theorem get_insert_ne (d : Deps) (k k' : String) (v : List String) (h : k' ≠ k) :
    (d.insert k v).get k' = d.get k' := by
  have n1 : (k == k') = false := by simp; exact fun e => h e.symm
  induction d with
  | nil => simp [Deps.insert, Deps.get, n1]
  | cons p rest ih =>
    obtain ⟨k2, v2⟩ := p
    unfold Deps.insert
    split
    · simp [Deps.get, n1]
    · simp only [Deps.get]
      split
      · rfl
      · exact ih

theorem edges_insert (d : Deps) (k : String) (v : List String) : (d.insert k v).edges = d.edges + v.length := by
  induction d with
  | nil => simp [Deps.insert, Deps.edges]
  | cons p rest ih =>
    obtain ⟨k2, v2⟩ := p
    unfold Deps.insert
    split
    · simp [Deps.edges]; omega
    · simp only [Deps.edges, List.map_cons, List.sum_cons] at *
      omega

/-! ### set, touch -/
theorem get_set_self (d : Deps) (k : String) (v : List String) : (d.set k v).get k = v := by
  unfold Deps.set
  split
  · rename_i h; exact get_replace_self d k v h
  · rename_i h; exact get_insert_self d k v (by simpa using h)

theorem get_set_ne (d : Deps) (k k' : String) (v : List String) (h : k' ≠ k) :
    (d.set k v).get k' = d.get k' := by
  unfold Deps.set
  split
  · exact get_replace_ne d k k' v h
  · exact get_insert_ne d k k' v h

theorem get_touch (d : Deps) (k k' : String) : (d.touch k).get k' = d.get k' := by
  unfold Deps.touch
  split
  · rfl
  · rename_i h
    have h' : d.has k = false := by simpa using h
    by_cases e : k' = k
    · subst e; rw [get_set_self, get_of_not_has d k' h']
    · exact get_set_ne d k k' [] e

theorem has_set (d : Deps) (k k' : String) (v : List String) :
    (d.set k v).has k' = true ↔ k' = k ∨ d.has k' = true := by
  unfold Deps.set
  split
  · rename_i h
    rw [has_iff, keys_replace, ← has_iff]
    constructor
    · exact Or.inr
    · rintro (e | e); subst e; exact h; exact e
  · rw [has_iff, (keys_insert_perm d k v).mem_iff, List.mem_cons, ← has_iff]

theorem has_touch (d : Deps) (k k' : String) : (d.touch k).has k' = true ↔ k' = k ∨ d.has k' = true := by
  unfold Deps.touch
  split
  · rename_i h
    constructor
    · exact Or.inr
    · rintro (e | e); subst e; exact h; exact e
  · exact has_set d k k' []

theorem length_set_has (d : Deps) (k : String) (v : List String) (h : d.has k = true) :
    (d.set k v).length = d.length := by
  unfold Deps.set; rw [if_pos h]; exact length_replace d k v

theorem keys_set_has (d : Deps) (k : String) (v : List String) (h : d.has k = true) :
    (d.set k v).keys = d.keys := by
  unfold Deps.set; rw [if_pos h]; exact keys_replace d k v

theorem edges_set_has (d : Deps) (k : String) (v : List String) (h : d.has k = true) :
    (d.set k v).edges + (d.get k).length = d.edges + v.length := by
  unfold Deps.set; rw [if_pos h]; exact edges_replace d k v h

end IgVerif.MO
