import IgVerif.Model.Codec
import IgVerif.Lemmas.Bytes
/-! Round-trip lemmas for the generic record codec. Shape of every lemma:
`∃ w, AllSpace w ∧ dec (pre ++ (enc v ++ rest)) = .ok (v, w ++ rest)` for all-space `pre`
(the reader leaves behind only whitespace that the next reader skips). -/
namespace IgVerif

theorem allSpace_nil : AllSpace [] := by intro c h; simp at h
theorem allSpace_single {c : Nat} (h : isSpace c = true) : AllSpace [c] := by
  intro d hd; simp at hd; subst hd; exact h
theorem allSpace_of_all {w : Bytes} (h : w.all isSpace = true) : AllSpace w := by
  intro c hc; exact (List.all_eq_true.mp h) c hc

theorem showInt_ofNat (n : Nat) : showInt (n : Int) = showNat n := by
  unfold showInt
  have : ¬ ((n : Int) < 0) := by omega
  simp [this]

theorem takeN_append (s rest : Bytes) : takeN s.length (s ++ rest) = some (s, rest) := by
  induction s with
  | nil => simp [takeN]
  | cons c cs ih => simp [takeN, ih]

theorem decInt_sep (i : Int) (hi : FitsInt i) (sep pre rest : Bytes) (hp : AllSpace pre)
    (hs : AllSpace sep) (h : sep ≠ [] ∨ NoDigitHead rest) :
    decInt (pre ++ (showInt i ++ (sep ++ rest))) = .ok (i, sep ++ rest) := by
  apply decInt_showInt i hi pre _ hp
  cases sep with
  | nil => cases h with
    | inl h => exact absurd rfl h
    | inr h => simpa using h
  | cons c cs => exact noDigitHead_of_space c _ (hs c (by simp))

theorem decStr_encStr (ws : Nat) (hws : isSpace ws = true) (s : Bytes)
    (hs : (s.length : Int) ≤ intMax) (pre rest : Bytes) (hp : AllSpace pre) :
    ∃ w, AllSpace w ∧ decStr (pre ++ (encStr ws s ++ rest)) = .ok (s, w ++ rest) := by
  have hfit : FitsInt (s.length : Int) := by unfold FitsInt intMin; omega
  unfold decStr encStr
  cases s with
  | nil =>
    refine ⟨[], allSpace_nil, ?_⟩
    have h := decInt_sep 0 (by decide) [ws] pre rest hp (allSpace_single hws) (Or.inl (by simp))
    have h0 : showInt 0 = showNat 0 := showInt_ofNat 0
    simp only [List.length_nil, List.isEmpty_nil, if_true, List.append_nil, List.append_assoc]
    rw [← h0, h]
    simp [takeN]
  | cons c cs =>
    refine ⟨[ws], allSpace_single hws, ?_⟩
    have h := decInt_sep ((c :: cs).length : Int) hfit [ws] pre ((c :: cs) ++ [ws] ++ rest) hp
      (allSpace_single hws) (Or.inl (by simp))
    rw [showInt_ofNat] at h
    simp only [List.isEmpty_cons, Bool.false_eq_true, if_false, List.append_assoc] at h ⊢
    rw [h]
    simp only [List.singleton_append, Int.toNat_natCast]
    have := takeN_append (c :: cs) (ws :: rest)
    simp only [List.cons_append] at this ⊢
    rw [this]

theorem decAtom_encAtom (last : Bool) (a : Atom) (v : AVal) (hwf : atomOk last a = true)
    (hc : AtomConf a v) (pre rest : Bytes) (hp : AllSpace pre)
    (hr : last = true → NoDigitHead rest) :
    ∃ w, AllSpace w ∧ decAtom a (pre ++ (encAtom a v ++ rest)) = .ok (v, w ++ rest) := by
  cases a with
  | int n sep =>
    cases v with
    | str s => exact absurd hc (by simp [AtomConf])
    | int i =>
      simp only [atomOk, Bool.and_eq_true, Bool.or_eq_true, Bool.not_eq_true'] at hwf
      have hsp := allSpace_of_all hwf.1
      refine ⟨sep, hsp, ?_⟩
      have hcond : sep ≠ [] ∨ NoDigitHead rest := by
        cases hwf.2 with
        | inl h => exact Or.inr (hr h)
        | inr h => left; intro he; subst he; simp at h
      have := decInt_sep i hc sep pre rest hp hsp hcond
      simp only [decAtom, encAtom, List.append_assoc, this]
  | str n ws =>
    cases v with
    | int i => exact absurd hc (by simp [AtomConf])
    | str s =>
      simp only [atomOk] at hwf
      obtain ⟨w, hw, h⟩ := decStr_encStr ws hwf s hc pre rest hp
      exact ⟨w, hw, by simp only [decAtom, encAtom, h]⟩

theorem decAtoms_encAtoms (as : List Atom) (vs : List AVal) (hwf : atomsWF as = true)
    (hc : AtomsConf as vs) (pre rest : Bytes) (hp : AllSpace pre) (hr : NoDigitHead rest) :
    ∃ w, AllSpace w ∧ decAtoms as (pre ++ (encAtoms as vs ++ rest)) = .ok (vs, w ++ rest) := by
  induction as generalizing vs pre with
  | nil =>
    cases vs with
    | nil => exact ⟨pre, hp, by simp [decAtoms, encAtoms]⟩
    | cons v vs => exact absurd hc (by simp [AtomsConf])
  | cons a as ih =>
    cases vs with
    | nil => exact absurd hc (by simp [AtomsConf])
    | cons v vs =>
      simp only [atomsWF, Bool.and_eq_true] at hwf
      obtain ⟨hca, hcs⟩ := hc
      have hrest : as.isEmpty = true → NoDigitHead (encAtoms as vs ++ rest) := by
        intro he
        cases as with
        | nil => simpa [encAtoms] using hr
        | cons _ _ => simp at he
      obtain ⟨w, hw, h⟩ := decAtom_encAtom as.isEmpty a v hwf.1 hca pre (encAtoms as vs ++ rest) hp hrest
      obtain ⟨w', hw', h'⟩ := ih vs hwf.2 hcs w hw
      refine ⟨w', hw', ?_⟩
      simp only [decAtoms, encAtoms, List.append_assoc, h, h']

theorem decN_encList {α : Type} (d : Dec α) (encE : α → Bytes) (l : List α)
    (h : ∀ a ∈ l, ∀ pre rest, AllSpace pre →
      ∃ w, AllSpace w ∧ d (pre ++ (encE a ++ rest)) = .ok (a, w ++ rest))
    (pre rest : Bytes) (hp : AllSpace pre) :
    ∃ w, AllSpace w ∧ decN d l.length (pre ++ (encList encE l ++ rest)) = .ok (l, w ++ rest) := by
  induction l generalizing pre with
  | nil => exact ⟨pre, hp, by simp [decN, encList]⟩
  | cons a as ih =>
    obtain ⟨w, hw, h1⟩ := h a (by simp) pre (encList encE as ++ rest) hp
    obtain ⟨w', hw', h2⟩ := ih (fun x hx => h x (by simp [hx])) w hw
    exact ⟨w', hw', by simp only [List.length_cons, decN, encList, List.append_assoc, h1, h2]⟩

theorem decVec_enc {α : Type} (d : Dec α) (encE : α → Bytes) (l : List α)
    (hlen : (l.length : Int) ≤ intMax)
    (h : ∀ a ∈ l, ∀ pre rest, AllSpace pre →
      ∃ w, AllSpace w ∧ d (pre ++ (encE a ++ rest)) = .ok (a, w ++ rest))
    (pre rest : Bytes) (hp : AllSpace pre) :
    ∃ w, AllSpace w ∧
      decVec d (pre ++ ((showNat l.length ++ [32] ++ encList encE l) ++ rest)) = .ok (l, w ++ rest) := by
  have hfit : FitsInt (l.length : Int) := by unfold FitsInt intMin; omega
  have h1 := decInt_sep (l.length : Int) hfit [32] pre (encList encE l ++ rest) hp
    (allSpace_single (by decide)) (Or.inl (by simp))
  rw [showInt_ofNat] at h1
  obtain ⟨w, hw, h2⟩ := decN_encList d encE l h [32] rest (allSpace_single (by decide))
  refine ⟨w, hw, ?_⟩
  unfold decVec
  simp only [List.append_assoc] at h1 ⊢
  rw [h1]
  have : ¬ ((l.length : Int) < 0) := by omega
  simp only [this, if_false, Int.toNat_natCast]
  simpa using h2

theorem decField_encField (minor : Nat) (e : Env) (last : Bool) (f : Field) (v : Val)
    (hwf : fieldOk last f = true) (hc : FieldConf minor e f v)
    (pre rest : Bytes) (hp : AllSpace pre) (hr : last = true → NoDigitHead rest) :
    ∃ w, AllSpace w ∧ decField minor e f (pre ++ (encField minor e f v ++ rest)) = .ok (v, w ++ rest) := by
  cases f with
  | atom a =>
    cases v with
    | a av =>
      obtain ⟨w, hw, h⟩ := decAtom_encAtom last a av hwf hc pre rest hp hr
      exact ⟨w, hw, by simp only [decField, encField, h]⟩
    | ints _ => exact absurd hc (by simp [FieldConf])
    | strs _ => exact absurd hc (by simp [FieldConf])
    | recs _ => exact absurd hc (by simp [FieldConf])
  | ints n =>
    cases v with
    | ints l =>
      obtain ⟨hl, hi⟩ := hc
      obtain ⟨w, hw, h⟩ := decVec_enc decInt (fun i => showInt i ++ [32]) l hl
        (fun a ha pre rest hp => ⟨[32], allSpace_single (by decide), by
          have := decInt_sep a (hi a ha) [32] pre rest hp (allSpace_single (by decide)) (Or.inl (by simp))
          simpa using this⟩) pre rest hp
      exact ⟨w, hw, by simp only [decField, encField, encInts, h]⟩
    | a _ => exact absurd hc (by simp [FieldConf])
    | strs _ => exact absurd hc (by simp [FieldConf])
    | recs _ => exact absurd hc (by simp [FieldConf])
  | strs n =>
    cases v with
    | strs l =>
      obtain ⟨hl, hs⟩ := hc
      obtain ⟨w, hw, h⟩ := decVec_enc decStr (encStr 32) l hl
        (fun a ha pre rest hp => decStr_encStr 32 (by decide) a (hs a ha) pre rest hp) pre rest hp
      exact ⟨w, hw, by simp only [decField, encField, encStrs, h]⟩
    | a _ => exact absurd hc (by simp [FieldConf])
    | ints _ => exact absurd hc (by simp [FieldConf])
    | recs _ => exact absurd hc (by simp [FieldConf])
  | recs n sub =>
    cases v with
    | recs l =>
      obtain ⟨hl, hs⟩ := hc
      simp only [fieldOk] at hwf
      obtain ⟨w, hw, h⟩ := decVec_enc (decAtoms sub) (fun r => encAtoms sub r ++ [32]) l hl
        (fun a ha pre rest hp => by
          obtain ⟨w, hw, h⟩ := decAtoms_encAtoms sub a hwf (hs a ha) pre ([32] ++ rest) hp
            (noDigitHead_of_space 32 _ (by decide))
          exact ⟨w ++ [32], by
            intro c hc
            rcases List.mem_append.mp hc with h1 | h1
            · exact hw c h1
            · simp at h1; subst h1; decide, by simpa using h⟩) pre rest hp
      exact ⟨w, hw, by simp only [decField, encField, encRecs, h]⟩
    | a _ => exact absurd hc (by simp [FieldConf])
    | ints _ => exact absurd hc (by simp [FieldConf])
    | strs _ => exact absurd hc (by simp [FieldConf])
  | intIf n flag mask dflt sep =>
    cases v with
    | a av =>
      cases av with
      | int i =>
        obtain ⟨hfit, hd⟩ := hc
        simp only [fieldOk, Bool.and_eq_true, Bool.not_eq_true'] at hwf
        by_cases hfl : flagSet e flag mask = true
        · have hsp := allSpace_of_all hwf.1
          have hne : sep ≠ [] := by intro he; subst he; simp at hwf
          have := decInt_sep i hfit sep pre rest hp hsp (Or.inl hne)
          exact ⟨sep, hsp, by simp only [decField, encField, hfl, if_true, List.append_assoc, this]⟩
        · have hfl' : flagSet e flag mask = false := by simpa using hfl
          have := hd hfl'
          subst this
          exact ⟨pre, hp, by simp [decField, encField, hfl']⟩
      | str _ => exact absurd hc (by simp [FieldConf])
    | ints _ => exact absurd hc (by simp [FieldConf])
    | strs _ => exact absurd hc (by simp [FieldConf])
    | recs _ => exact absurd hc (by simp [FieldConf])
  | intSince n m sep =>
    cases v with
    | a av =>
      cases av with
      | int i =>
        obtain ⟨hfit, hd⟩ := hc
        simp only [fieldOk, Bool.and_eq_true, Bool.not_eq_true'] at hwf
        by_cases hm' : minor ≥ m
        · have hsp := allSpace_of_all hwf.1
          have hne : sep ≠ [] := by intro he; subst he; simp at hwf
          have := decInt_sep i hfit sep pre rest hp hsp (Or.inl hne)
          exact ⟨sep, hsp, by simp only [decField, encField, hm', if_true, List.append_assoc, this]⟩
        · have := hd (by omega)
          subst this
          exact ⟨pre, hp, by simp [decField, encField, hm']⟩
      | str _ => exact absurd hc (by simp [FieldConf])
    | ints _ => exact absurd hc (by simp [FieldConf])
    | strs _ => exact absurd hc (by simp [FieldConf])
    | recs _ => exact absurd hc (by simp [FieldConf])

/-- Generic round trip: for every well-formed layout and every conforming record,
the reader returns exactly the record written and leaves only whitespace. -/
theorem decFields_encFields (minor : Nat) (fs : List Field) (e : Env) (vs : List Val)
    (hwf : fieldsWF fs = true) (hc : FieldsConf minor e fs vs)
    (pre rest : Bytes) (hp : AllSpace pre) (hr : NoDigitHead rest) :
    ∃ w, AllSpace w ∧ decFields minor e fs (pre ++ (encFields minor e fs vs ++ rest)) = .ok (vs, w ++ rest) := by
  induction fs generalizing vs pre e with
  | nil =>
    cases vs with
    | nil => exact ⟨pre, hp, by simp [decFields, encFields]⟩
    | cons v vs => exact absurd hc (by simp [FieldsConf])
  | cons f fs ih =>
    cases vs with
    | nil => exact absurd hc (by simp [FieldsConf])
    | cons v vs =>
      simp only [fieldsWF, Bool.and_eq_true] at hwf
      obtain ⟨hcf, hcs⟩ := hc
      have hrest : fs.isEmpty = true → NoDigitHead (encFields minor (envAdd e f v) fs vs ++ rest) := by
        intro he
        cases fs with
        | nil => simpa [encFields] using hr
        | cons _ _ => simp at he
      obtain ⟨w, hw, h⟩ := decField_encField minor e fs.isEmpty f v hwf.1 hcf pre _ hp hrest
      obtain ⟨w', hw', h'⟩ := ih (envAdd e f v) vs hwf.2 hcs w hw
      exact ⟨w', hw', by simp only [decFields, encFields, List.append_assoc, h, h']⟩

end IgVerif
