import IgVerif.Lemmas.Deps
/-! Invariants of the library ordering loop: no library twice; every dependency
that was not explicitly broken is emitted before its dependent. -/
namespace IgVerif.MO

theorem findCycle_get (fuel : Nat) (d : Deps) (vis path rest : List String) (k : String) :
    (findCycle fuel d vis path rest).1.get k = d.get k := by
  induction fuel generalizing d vis path rest with
  | zero => simp [findCycle]
  | succ fuel ih =>
    cases rest with
    | nil => simp [findCycle]
    | cons x rest =>
      unfold findCycle
      split
      · rfl
      · split
        · exact ih d vis path rest
        · simp only
          split
          · rename_i d' vis' c heq
            have := ih (d.touch x) (x :: vis) (path ++ [x]) ((d.touch x).get x)
            rw [heq] at this
            simp only at this
            rw [this, get_touch]
          · rename_i d' vis' heq
            have h1 := ih (d.touch x) (x :: vis) (path ++ [x]) ((d.touch x).get x)
            rw [heq] at h1
            simp only at h1
            rw [ih d' vis' path rest, h1, get_touch]

/-- `b` is emitted strictly before `a` -/
def Before (libs : List String) (b a : String) : Prop :=
  ∃ l1 l2, libs = l1 ++ a :: l2 ∧ b ∈ l1

theorem Before.append {libs : List String} {b a : String} (h : Before libs b a) (x : List String) :
    Before (libs ++ x) b a := by
  obtain ⟨l1, l2, e, hb⟩ := h
  exact ⟨l1, l2 ++ x, by rw [e]; simp, hb⟩

/-- the loop invariant, relative to the dependency map `orig` the loop started with -/
structure Inv (orig : Deps) (d : Deps) (libs : List String) (broken : List (String × String)) : Prop where
  nodup : libs.Nodup
  respected : ∀ a ∈ libs, ∀ b ∈ orig.get a, (a, b) ∈ broken ∨ Before libs b a
  pending : ∀ a, a ∉ libs → ∀ b ∈ orig.get a, b ∈ d.get a ∨ (a, b) ∈ broken ∨ b ∈ libs

theorem inv_init (orig : Deps) : Inv orig orig [] [] :=
  ⟨List.nodup_nil, by intro a h; simp at h, by intro a _ b hb; exact Or.inl hb⟩

theorem inv_passOne (orig d : Deps) (libs : List String) (broken : List (String × String)) (added : Bool)
    (name : String) (h : Inv orig d libs broken) :
    Inv orig (passOne (d, libs, added) name).1 (passOne (d, libs, added) name).2.1 broken := by
  unfold passOne
  simp only
  have hpend : ∀ a, a ∉ libs → ∀ b ∈ orig.get a,
      b ∈ (d.set name ((d.get name).filter fun x => !libs.contains x)).get a ∨ (a, b) ∈ broken ∨ b ∈ libs := by
    intro a ha b hb
    by_cases e : a = name
    · subst e
      rw [get_set_self]
      rcases h.pending a ha b hb with h1 | h1 | h1
      · by_cases hl : b ∈ libs
        · exact Or.inr (Or.inr hl)
        · left; simp [List.mem_filter, h1, hl]
      · exact Or.inr (Or.inl h1)
      · exact Or.inr (Or.inr h1)
    · rw [get_set_ne _ _ _ _ e]; exact h.pending a ha b hb
  split
  · rename_i hc
    simp only [Bool.and_eq_true, List.isEmpty_iff, Bool.not_eq_true', List.contains_eq_mem,
      decide_eq_false_iff_not] at hc
    obtain ⟨hempty, hnot⟩ := hc
    refine ⟨?_, ?_, ?_⟩
    · exact List.nodup_append.mpr ⟨h.nodup, by simp, by
        intro x hx y hy; simp at hy; subst hy; intro e; subst e; exact hnot hx⟩
    · intro a ha b hb
      rcases List.mem_append.mp ha with ha' | ha'
      · rcases h.respected a ha' b hb with h1 | h1
        · exact Or.inl h1
        · exact Or.inr (h1.append _)
      · simp at ha'; subst ha'
        rcases h.pending a hnot b hb with h1 | h1 | h1
        · have : b ∈ libs := by
            by_cases hl : b ∈ libs
            · exact hl
            · have : b ∈ List.filter (fun x => !decide (x ∈ libs)) (d.get a) := by simp [List.mem_filter, h1, hl]
              rw [hempty] at this; simp at this
          exact Or.inr ⟨libs, [], rfl, this⟩
        · exact Or.inl h1
        · exact Or.inr ⟨libs, [], rfl, h1⟩
    · intro a ha b hb
      have ha' : a ∉ libs := fun x => ha (List.mem_append_left _ x)
      rcases hpend a ha' b hb with h1 | h1 | h1
      · exact Or.inl h1
      · exact Or.inr (Or.inl h1)
      · exact Or.inr (Or.inr (List.mem_append_left _ h1))
  · exact ⟨h.nodup, h.respected, hpend⟩

theorem inv_pass_fold (orig : Deps) (keys : List String) (st : Deps × List String × Bool)
    (broken : List (String × String)) (h : Inv orig st.1 st.2.1 broken) :
    Inv orig (keys.foldl passOne st).1 (keys.foldl passOne st).2.1 broken := by
  induction keys generalizing st with
  | nil => exact h
  | cons k ks ih =>
    simp only [List.foldl_cons]
    apply ih
    obtain ⟨d, libs, added⟩ := st
    exact inv_passOne orig d libs broken added k h

theorem inv_pass (orig d : Deps) (libs : List String) (broken : List (String × String))
    (h : Inv orig d libs broken) : Inv orig (pass d libs).1 (pass d libs).2.1 broken :=
  inv_pass_fold orig d.keys (d, libs, false) broken h

theorem inv_mono_broken (orig d : Deps) (libs : List String) (b1 b2 : List (String × String))
    (h : Inv orig d libs b1) : Inv orig d libs (b1 ++ b2) :=
  ⟨h.nodup,
   fun a ha b hb => (h.respected a ha b hb).imp (List.mem_append_left _) id,
   fun a ha b hb => (h.pending a ha b hb).imp id (Or.imp (List.mem_append_left _) id)⟩

theorem inv_breakOne (orig : Deps) (fuel : Nat) (libs : List String) (pre : List (String × String))
    (st : Deps × List (String × String)) (name : String) (h : Inv orig st.1 libs (pre ++ st.2)) :
    Inv orig (breakOne fuel st name).1 libs (pre ++ (breakOne fuel st name).2) := by
  obtain ⟨d, broken⟩ := st
  unfold breakOne
  simp only
  split
  · exact h
  · have hget : ∀ k, (findCycle fuel (d.touch name) [] [name] ((d.touch name).get name)).1.get k = d.get k := by
      intro k; rw [findCycle_get, get_touch]
    generalize hfc : findCycle fuel (d.touch name) [] [name] ((d.touch name).get name) = res at hget
    obtain ⟨d', vis', o⟩ := res
    have hd' : ∀ k, d'.get k = d.get k := hget
    have keep : Inv orig d' libs (pre ++ broken) :=
      ⟨h.nodup, h.respected, fun x hx y hy => by rw [hd']; exact h.pending x hx y hy⟩
    match o with
    | none => exact keep
    | some [] => exact keep
    | some [_] => exact keep
    | some (a :: b :: tl) =>
      simp only
      refine ⟨h.nodup, ?_, ?_⟩
      · intro x hx y hy
        rcases h.respected x hx y hy with h1 | h1
        · left; rw [← List.append_assoc]; exact List.mem_append_left _ h1
        · exact Or.inr h1
      · intro x hx y hy
        rcases h.pending x hx y hy with h1 | h1 | h1
        · by_cases e : x = a
          · subst e
            by_cases e2 : y = b
            · subst e2; right; left; rw [← List.append_assoc]; simp
            · left; rw [get_set_self, hd']; simp [List.mem_filter, h1, e2]
          · left; rw [get_set_ne _ _ _ _ e, hd']; exact h1
        · right; left; rw [← List.append_assoc]; exact List.mem_append_left _ h1
        · exact Or.inr (Or.inr h1)

theorem inv_breakCycles_fold (orig : Deps) (fuel : Nat) (libs : List String) (pre : List (String × String))
    (keys : List String) (st : Deps × List (String × String)) (h : Inv orig st.1 libs (pre ++ st.2)) :
    Inv orig (keys.foldl (breakOne fuel) st).1 libs (pre ++ (keys.foldl (breakOne fuel) st).2) := by
  induction keys generalizing st with
  | nil => exact h
  | cons k ks ih =>
    simp only [List.foldl_cons]
    exact ih _ (inv_breakOne orig fuel libs pre st k h)

theorem inv_breakCycles (orig d : Deps) (fuel : Nat) (libs : List String) (pre : List (String × String))
    (h : Inv orig d libs pre) :
    Inv orig (breakCycles fuel d).1 libs (pre ++ (breakCycles fuel d).2) :=
  inv_breakCycles_fold orig fuel libs pre d.keys (d, []) (by simpa using h)

/-- the invariant holds for whatever the loop returns, for any fuel -/
theorem inv_run (orig : Deps) (fuel : Nat) (d : Deps) (libs : List String) (broken : List (String × String))
    (h : Inv orig d libs broken) :
    ∃ d', Inv orig d' (run fuel d libs broken).libs (run fuel d libs broken).broken := by
  induction fuel generalizing d libs broken with
  | zero => exact ⟨d, h⟩
  | succ fuel ih =>
    unfold run
    split
    · have hp := inv_pass orig d libs broken h
      simp only
      split
      · exact ih _ _ _ hp
      · exact ih _ _ _ (inv_breakCycles orig _ _ _ broken hp)
    · exact ⟨d, h⟩

end IgVerif.MO
