import IgVerif.Lemmas.ModuleTerm
/-! Only edges of genuine cycles are broken: the cycle the search reports is a closed walk
of the current dependency map, whose edges are edges of the map the loop started with. -/
namespace IgVerif.MO

/-- `y` can be reached from `x` along dependency edges -/
inductive Reach (d : Deps) : String → String → Prop
  | refl (x : String) : Reach d x x
  | step {x y z : String} : y ∈ d.get x → Reach d y z → Reach d x z

theorem linked_tail {d : Deps} {a : String} {l : List String} (h : Linked d (a :: l)) : Linked d l := by
  cases l with
  | nil => trivial
  | cons b t => exact h.2

theorem linked_reach (d : Deps) (u v : String) (l : List String) (h : Linked d (u :: (l ++ [v]))) : Reach d u v := by
  induction l generalizing u with
  | nil => exact Reach.step h.1 (Reach.refl v)
  | cons w l ih => exact Reach.step h.1 (ih w h.2)

theorem linked_dropWhile (d : Deps) (p : String → Bool) (l : List String) (h : Linked d l) : Linked d (l.dropWhile p) := by
  induction l with
  | nil => trivial
  | cons a t ih =>
    simp only [List.dropWhile]
    split
    · exact ih (linked_tail h)
    · exact h

/-- the reported cycle is a closed walk `x → … → x` of the map -/
def CycleOk (d : Deps) (c : List String) : Prop := ∃ x mid, c = x :: (mid ++ [x]) ∧ Linked d c

theorem cycle_closed (d : Deps) (pre : List String) (last x : String) (hl : Linked d (pre ++ [last]))
    (hx : x ∈ d.get last) (hm : x ∈ pre ++ [last]) :
    CycleOk d ((pre ++ [last]).dropWhile (fun y => y != x) ++ [x]) := by
  obtain ⟨tl, htl⟩ := dropWhile_ne_mem (pre ++ [last]) x hm
  have hlk : Linked d (x :: tl) := by rw [← htl]; exact linked_dropWhile d _ _ hl
  -- the kept suffix still ends in `last`
  have hsuf : ∃ s, x :: tl = s ++ [last] := by
    have : ∀ (l : List String), x ∈ l ++ [last] → ∃ s, (l ++ [last]).dropWhile (fun y => y != x) = s ++ [last] := by
      intro l
      induction l with
      | nil =>
        intro hm
        have e : x = last := by simpa using hm
        have hne : (last != x) = false := by simp [e]
        exact ⟨[], by simp only [List.nil_append, List.dropWhile, hne]⟩
      | cons a t ih =>
        intro hm
        by_cases e : a = x
        · exact ⟨a :: t, by simp [List.dropWhile, e]⟩
        · have hne : (a != x) = true := by simp [e]
          have hm' : x ∈ t ++ [last] := by
            rcases List.mem_cons.mp hm with h1 | h1
            · exact absurd h1.symm e
            · exact h1
          obtain ⟨s, hs⟩ := ih hm'
          exact ⟨s, by simp only [List.cons_append, List.dropWhile, hne]; exact hs⟩
    obtain ⟨s, hs⟩ := this pre hm
    exact ⟨s, by rw [← htl]; exact hs⟩
  obtain ⟨s, hs⟩ := hsuf
  refine ⟨x, tl, by rw [htl]; rfl, ?_⟩
  rw [htl, hs]
  have : Linked d (s ++ [last]) := by rw [← hs]; exact hlk
  have := linked_snoc d s last x this hx
  simpa using this

theorem findCycle_cycle (fuel : Nat) (d : Deps) (vis pre : List String) (last : String) (rest : List String)
    (hrest : ∀ x ∈ rest, x ∈ d.get last) (hlink : Linked d (pre ++ [last])) :
    ∀ c, (findCycle fuel d vis (pre ++ [last]) rest).2.2 = some c → CycleOk (findCycle fuel d vis (pre ++ [last]) rest).1 c := by
  induction fuel generalizing d vis pre last rest with
  | zero => intro c h; simp [findCycle] at h
  | succ fuel ih =>
    cases rest with
    | nil => intro c h; simp [findCycle] at h
    | cons x rest =>
      have hxl : x ∈ d.get last := hrest x (List.mem_cons_self ..)
      have hrest' : ∀ y ∈ rest, y ∈ d.get last := fun y hy => hrest y (List.mem_cons_of_mem _ hy)
      unfold findCycle
      split
      · rename_i hc
        have hx : x ∈ pre ++ [last] := by simpa using hc
        intro c h
        simp only [Option.some.injEq] at h
        rw [← h]
        exact cycle_closed d pre last x hlink hxl hx
      · split
        · exact ih d vis pre last rest hrest' hlink
        · simp only
          have hg : ∀ k, (d.touch x).get k = d.get k := get_touch d x
          have hl1 : Linked (d.touch x) ((pre ++ [last]) ++ [x]) :=
            linked_congr hg _ (linked_snoc d pre last x hlink hxl)
          have ih1 := ih (d.touch x) (x :: vis) (pre ++ [last]) x ((d.touch x).get x) (fun y hy => hy) hl1
          have hget1 := findCycle_get fuel (d.touch x) (x :: vis) ((pre ++ [last]) ++ [x]) ((d.touch x).get x)
          generalize findCycle fuel (d.touch x) (x :: vis) ((pre ++ [last]) ++ [x]) ((d.touch x).get x) = r1 at ih1 hget1
          obtain ⟨d', vis', o⟩ := r1
          cases o with
          | some c => exact ih1
          | none =>
            simp only
            have hg' : ∀ k, d'.get k = d.get k := fun k => by rw [hget1 k, hg k]
            exact ih d' vis' pre last rest (fun y hy => by rw [hg']; exact hrest' y hy) (linked_congr hg' _ hlink)

/-! ### through the loop -/
def Sub (d orig : Deps) : Prop := ∀ k y, y ∈ d.get k → y ∈ orig.get k

def BrokenOk (orig : Deps) (broken : List (String × String)) : Prop :=
  ∀ p ∈ broken, p.2 ∈ orig.get p.1 ∧ Reach orig p.2 p.1

theorem reach_mono {d orig : Deps} (h : Sub d orig) {x y : String} (r : Reach d x y) : Reach orig x y := by
  induction r with
  | refl x => exact Reach.refl x
  | step h1 _ ih => exact Reach.step (h _ _ h1) ih

theorem sub_set_filter (d orig : Deps) (k : String) (p : String → Bool) (h : Sub d orig) :
    Sub (d.set k ((d.get k).filter p)) orig := by
  intro k' y hy
  by_cases e : k' = k
  · subst e; rw [get_set_self] at hy; exact h _ _ (List.mem_filter.mp hy).1
  · rw [get_set_ne _ _ _ _ e] at hy; exact h _ _ hy

theorem sub_passFold (orig : Deps) (ks : List String) (st : Deps × List String × Bool) (h : Sub st.1 orig) :
    Sub (ks.foldl passOne st).1 orig := by
  induction ks generalizing st with
  | nil => exact h
  | cons k ks ih =>
    simp only [List.foldl_cons]
    apply ih
    obtain ⟨d, libs, added⟩ := st
    unfold passOne
    simp only
    split <;> exact sub_set_filter d orig k _ h

theorem breakOne_ok (orig : Deps) (fuel : Nat) (pre : List (String × String)) (st : Deps × List (String × String)) (name : String)
    (hs : Sub st.1 orig) (hb : BrokenOk orig (pre ++ st.2)) :
    Sub (breakOne fuel st name).1 orig ∧ BrokenOk orig (pre ++ (breakOne fuel st name).2) := by
  obtain ⟨d, broken⟩ := st
  unfold breakOne
  simp only
  split
  · exact ⟨hs, hb⟩
  · rename_i hne
    have hne' : d.get name ≠ [] := by simpa using hne
    have hhas := has_of_get_ne_nil d name hne'
    rw [length_touch_has d name hhas]
    have hc := findCycle_cycle fuel d [] [] name (d.get name) (fun _ h => h) trivial
    have hget := findCycle_get fuel d [] [name] (d.get name)
    simp only [List.nil_append] at hc
    generalize findCycle fuel d [] [name] (d.get name) = r at hc hget
    obtain ⟨d', vis', o⟩ := r
    have hs' : Sub d' orig := fun k y hy => hs k y (by rw [← hget k]; exact hy)
    match o with
    | none => exact ⟨hs', hb⟩
    | some [] => exact ⟨hs', hb⟩
    | some [_] => exact ⟨hs', hb⟩
    | some (a :: b :: tl) =>
      simp only
      refine ⟨sub_set_filter d' orig a _ hs', ?_⟩
      obtain ⟨x, mid, hc1, hc2⟩ := hc _ rfl
      simp only at hc2
      intro p hp
      rw [← List.append_assoc] at hp
      rcases List.mem_append.mp hp with h1 | h1
      · exact hb p h1
      · simp only [List.mem_singleton] at h1
        subst h1
        simp only
        -- `a :: b :: tl = x :: (mid ++ [x])`
        have ha : a = x := by simp only [List.cons.injEq] at hc1; exact hc1.1
        have htl : b :: tl = mid ++ [x] := by simp only [List.cons.injEq] at hc1; exact hc1.2
        have hedge : b ∈ d'.get a := hc2.1
        have hreach : Reach d' b a := by
          cases mid with
          | nil =>
            simp only [List.nil_append, List.cons.injEq] at htl
            rw [htl.1, ha]; exact Reach.refl x
          | cons m ms =>
            simp only [List.cons_append, List.cons.injEq] at htl
            have hl : Linked d' (b :: (tl)) := hc2.2
            rw [htl.2] at hl
            rw [ha]
            exact linked_reach d' b x ms hl
        exact ⟨hs' _ _ hedge, reach_mono hs' hreach⟩

theorem breakFold_ok (orig : Deps) (fuel : Nat) (pre : List (String × String)) (ks : List String)
    (st : Deps × List (String × String)) (hs : Sub st.1 orig) (hb : BrokenOk orig (pre ++ st.2)) :
    Sub (ks.foldl (breakOne fuel) st).1 orig ∧ BrokenOk orig (pre ++ (ks.foldl (breakOne fuel) st).2) := by
  induction ks generalizing st with
  | nil => exact ⟨hs, hb⟩
  | cons k ks ih =>
    simp only [List.foldl_cons]
    have := breakOne_ok orig fuel pre st k hs hb
    exact ih _ this.1 this.2

theorem run_broken_ok (orig : Deps) (fuel : Nat) (d : Deps) (libs : List String) (broken : List (String × String))
    (hs : Sub d orig) (hb : BrokenOk orig broken) : BrokenOk orig (run fuel d libs broken).broken := by
  induction fuel generalizing d libs broken with
  | zero => exact hb
  | succ fuel ih =>
    unfold run
    split
    · have hp : Sub (pass d libs).1 orig := sub_passFold orig d.keys (d, libs, false) hs
      generalize pass d libs = r at hp
      obtain ⟨d', libs', added⟩ := r
      simp only
      split
      · exact ih d' libs' broken hp hb
      · have := breakFold_ok orig (fuelFor d') broken d'.keys (d', []) hp (by simpa using hb)
        unfold breakCycles
        generalize List.foldl (breakOne (fuelFor d')) (d', []) d'.keys = r2 at this
        obtain ⟨d'', br⟩ := r2
        exact ih d'' libs' (broken ++ br) this.1 this.2
    · exact hb

end IgVerif.MO
