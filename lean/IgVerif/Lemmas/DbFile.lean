import IgVerif.Model.DbFile
import IgVerif.Lemmas.Codec
/-! File-level round trip: `decHeader`/`decBody` invert `encFile`. -/
namespace IgVerif

/-- strong round-trip shape: after any whitespace, `d` reads `a` back from `enc`
and leaves only whitespace before `rest`, whatever `rest` is. -/
def RTs {α : Type} (d : Dec α) (enc : Bytes) (a : α) : Prop :=
  ∀ pre rest, AllSpace pre → ∃ w, AllSpace w ∧ d (pre ++ (enc ++ rest)) = .ok (a, w ++ rest)

theorem RTs.bind {α β : Type} {d : Dec α} {f : α → Dec β} {e1 e2 : Bytes} {a : α} {b : β}
    (h1 : RTs d e1 a) (h2 : RTs (f a) e2 b) : RTs (Dec.bind d f) (e1 ++ e2) b := by
  intro pre rest hp
  obtain ⟨w, hw, h⟩ := h1 pre (e2 ++ rest) hp
  obtain ⟨w', hw', h'⟩ := h2 w rest hw
  exact ⟨w', hw', by simp only [Dec.bind, List.append_assoc, h, h']⟩

theorem RTs.pure {α : Type} (a : α) : RTs (Dec.pure a) [] a := by
  intro pre rest hp
  exact ⟨pre, hp, by simp [Dec.pure]⟩

theorem RTs.int (i : Int) (hi : FitsInt i) (c : Nat) (hc : isSpace c = true) :
    RTs decInt (showInt i ++ [c]) i := by
  intro pre rest hp
  refine ⟨[c], allSpace_single hc, ?_⟩
  have := decInt_sep i hi [c] pre rest hp (allSpace_single hc) (Or.inl (by simp))
  simpa using this

theorem RTs.cstr (s : Bytes) (hs : CStrConf s) : RTs decCStr (encCStr s) s := by
  intro pre rest hp
  unfold encCStr decCStr
  cases s with
  | nil =>
    refine ⟨[32], allSpace_single (by decide), ?_⟩
    have h := decInt_sep 0 (by decide) [32] pre rest hp (allSpace_single (by decide)) (Or.inl (by simp))
    have h0 : showInt 0 = [48] := by decide
    rw [h0] at h
    simp only [List.isEmpty_nil, if_true]
    simp only [List.cons_append, List.nil_append] at h ⊢
    rw [h]; simp
  | cons c cs =>
    refine ⟨[32], allSpace_single (by decide), ?_⟩
    have hfit : FitsInt ((c :: cs).length : Int) := by
      unfold CStrConf at hs; unfold FitsInt intMin; omega
    have h := decInt_sep ((c :: cs).length : Int) hfit [32] pre ((c :: cs) ++ [32] ++ rest) hp
      (allSpace_single (by decide)) (Or.inl (by simp))
    rw [showInt_ofNat] at h
    simp only [List.isEmpty_cons, Bool.false_eq_true, if_false, List.append_assoc] at h ⊢
    rw [h]
    have := takeN_append (c :: cs) (32 :: rest)
    simp only [List.cons_append, List.length_cons] at this
    have hne : ¬ ((cs.length : Int) + 1 = 0) := by omega
    have hnn : ¬ ((cs.length : Int) + 1 < 0) := by omega
    simp [hne, hnn, this]

theorem RTs.entry (minor : Nat) (spec : List Field) (e : Entry) (hwf : fieldsWF spec = true)
    (hc : EntryConf minor spec e) :
    RTs (decEntry minor spec) (encEntry minor spec e) e := by
  intro pre rest hp
  obtain ⟨hi, hf⟩ := hc
  have h1 := decInt_sep e.1 hi [32] pre (encFields minor [] spec e.2 ++ [10] ++ rest) hp
    (allSpace_single (by decide)) (Or.inl (by simp))
  obtain ⟨w, hw, h2⟩ := decFields_encFields minor spec [] e.2 hwf hf [32] ([10] ++ rest)
    (allSpace_single (by decide)) (noDigitHead_of_space 10 _ (by decide))
  refine ⟨w ++ [10], ?_, ?_⟩
  · intro c hc
    rcases List.mem_append.mp hc with h | h
    · exact hw c h
    · simp at h; subst h; decide
  · unfold decEntry encEntry Dec.bind Dec.pure
    simp only [List.append_assoc] at h1 h2 ⊢
    rw [h1]
    simp only [h2]

theorem RTs.section (minor : Nat) (spec : List Field) (l : List Entry) (hwf : fieldsWF spec = true)
    (hc : SectionConf minor spec l) :
    RTs (decSection minor spec) (encSection minor spec l) l := by
  intro pre rest hp
  obtain ⟨hl, he⟩ := hc
  have hfit : FitsInt (l.length : Int) := by unfold FitsInt intMin; omega
  have h1 := decInt_sep (l.length : Int) hfit [10] pre (encList (encEntry minor spec) l ++ rest) hp
    (allSpace_single (by decide)) (Or.inl (by simp))
  rw [showInt_ofNat] at h1
  obtain ⟨w, hw, h2⟩ := decN_encList (decEntry minor spec) (encEntry minor spec) l
    (fun a ha pre rest hp => RTs.entry minor spec a hwf (he a ha) pre rest hp) [10] rest
    (allSpace_single (by decide))
  refine ⟨w, hw, ?_⟩
  unfold decSection encSection Dec.bind
  simp only [List.append_assoc] at h1 ⊢
  rw [h1]
  simpa using h2

theorem schemaWF_parts {sch : Schema} (h : SchemaWF sch = true) :
    (fieldsWF sch.function = true ∧ maxSince sch.function ≤ curMinor) ∧
    (fieldsWF sch.wrapper = true ∧ maxSince sch.wrapper ≤ curMinor) ∧
    (fieldsWF sch.type = true ∧ maxSince sch.type ≤ curMinor) ∧
    (fieldsWF sch.manifest = true ∧ maxSince sch.manifest ≤ curMinor) ∧
    (fieldsWF sch.element = true ∧ maxSince sch.element ≤ curMinor) ∧
    (fieldsWF sch.makeSeq = true ∧ maxSince sch.makeSeq ≤ curMinor) := by
  simp only [SchemaWF, Bool.and_eq_true, decide_eq_true_eq] at h
  obtain ⟨⟨⟨⟨⟨⟨⟨⟨⟨⟨⟨a1, a2⟩, a3⟩, a4⟩, a5⟩, a6⟩, b1⟩, b2⟩, b3⟩, b4⟩, b5⟩, b6⟩ := h
  exact ⟨⟨a1, b1⟩, ⟨a2, b2⟩, ⟨a3, b3⟩, ⟨a4, b4⟩, ⟨a5, b5⟩, ⟨a6, b6⟩⟩

theorem RTs.body (minor : Nat) (sch : Schema) (hs : SchemaWF sch = true) (f : DbFile)
    (hc : FileConf minor sch f) :
    RTs (decBody sch minor f.fileId) (encBody minor sch f) f := by
  obtain ⟨_, hl, hh, hmo, c1, c2, c3, c4, c5, c6⟩ := hc
  obtain ⟨⟨w1, _⟩, ⟨w2, _⟩, ⟨w3, _⟩, ⟨w4, _⟩, ⟨w5, _⟩, ⟨w6, _⟩⟩ := schemaWF_parts hs
  -- the "\n" after the module strings is leading whitespace of the first section
  have hsec1 : RTs (decSection minor sch.function) ([10] ++ encSection minor sch.function f.functions) f.functions := by
    intro pre rest hp
    have := RTs.section minor sch.function f.functions w1 c1 (pre ++ [10]) rest (by
      intro c hc
      rcases List.mem_append.mp hc with h | h
      · exact hp c h
      · simp at h; subst h; decide)
    simpa using this
  unfold decBody encBody
  refine RTs.bind (RTs.cstr f.lib hl) <| RTs.bind (RTs.cstr f.hash hh) <| RTs.bind (RTs.cstr f.mod hmo) <|
    RTs.bind hsec1 <| RTs.bind (RTs.section minor sch.wrapper f.wrappers w2 c2) <|
    RTs.bind (RTs.section minor sch.type f.types w3 c3) <|
    RTs.bind (RTs.section minor sch.manifest f.manifests w4 c4) <|
    RTs.bind (RTs.section minor sch.element f.elements w5 c5) <|
    RTs.bind (RTs.section minor sch.makeSeq f.makeSeqs w6 c6) <| RTs.pure f

theorem RTs.header (fid : Int) (hi : FitsInt fid) (minor : Nat) (hm : minor ≤ curMinor) :
    RTs decHeader (encHeader fid minor) (fid, curMajor, (minor : Int)) := by
  unfold decHeader encHeader
  have hfit : FitsInt (minor : Int) := by unfold FitsInt intMin intMax; unfold curMinor at hm; omega
  exact RTs.bind (RTs.int fid hi 10 (by decide)) <| RTs.bind (RTs.int curMajor (by decide) 32 (by decide)) <|
    RTs.bind (RTs.int (minor : Int) hfit 10 (by decide)) <|
    RTs.pure (fid, curMajor, (minor : Int))

/-- Loading a file written in any format 3.m (m ≤ current) yields exactly the
database that was written; the error flag is raised iff the identifier check fails. -/
theorem load_encFileAs (minor : Nat) (hm : minor ≤ curMinor) (sch : Schema) (hs : SchemaWF sch = true)
    (f : DbFile) (hc : FileConf minor sch f) (expectId : Int) :
    load sch expectId (encFileAs minor sch f) =
      { errorFlag := expectId != 0 && f.fileId != expectId, merged := some f } := by
  obtain ⟨w, _, h1⟩ := RTs.header f.fileId hc.1 minor hm [] (encBody minor sch f ++ []) allSpace_nil
  obtain ⟨w', _, h2⟩ := RTs.body minor sch hs f hc w [] (by assumption)
  unfold load encFileAs
  simp only [List.nil_append, List.append_nil] at h1 h2
  rw [h1]
  have hmaj : (curMajor != curMajor) = false := by decide
  have hmin : ¬ ((minor : Int) > (curMinor : Int)) := by omega
  simp only [hmaj, hmin, Bool.false_or, decide_false, Bool.false_eq_true, if_false, Int.toNat_natCast, h2]

end IgVerif
