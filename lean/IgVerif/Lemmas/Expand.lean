import IgVerif.Model.Expand
namespace IgVerif.Exp

/-- the body of a literal without its quote mark and without backslashes is read to the closing quote -/
theorem takeLit_clean (q : Nat) (body rest : List Nat) (hb : ∀ c ∈ body, c ≠ q ∧ c ≠ 92) :
    takeLit q (body ++ q :: rest) = (body ++ [q], rest) := by
  induction body with
  | nil => show takeLit q (q :: rest) = ([q], rest); unfold takeLit; simp
  | cons b body ih =>
    have hb1 := hb b (List.mem_cons_self ..)
    have := ih (fun c hc => hb c (List.mem_cons_of_mem _ hc))
    have e1 : (b == q) = false := by simp [hb1.1]
    have e2 : (b == 92) = false := by simp [hb1.2]
    show takeLit q (b :: (body ++ q :: rest)) = (b :: (body ++ [q]), rest)
    unfold takeLit
    simp only [e1, e2, Bool.false_eq_true, if_false, this]

/-- **a literal in a macro body is appended to the current chunk as it stands**, whatever it
contains: parameter names, `#`, `##`, blanks -/
theorem save_literal (names : List (List Nat)) (variadic : Option Nat) (fuel : Nat) (q : Nat) (body rest : List Nat)
    (prev : Option Nat) (cur : List Nat) (str paste : Bool) (nodes : List Node)
    (hq : q = 34 ∨ (q = 39 ∧ prevAlnum prev = false))
    (hb : ∀ c ∈ body, c ≠ q ∧ c ≠ 92) :
    save names variadic (fuel + 1) (q :: (body ++ q :: rest)) prev cur str paste nodes =
      save names variadic fuel rest (some q) (cur ++ q :: (body ++ [q])) str paste nodes := by
  have hcond : (q == 34 || (q == 39 && !prevAlnum prev)) = true := by
    rcases hq with h | ⟨h1, h2⟩
    · simp [h]
    · simp [h1, h2]
  conv => lhs; unfold save
  simp only [hcond, if_true, takeLit_clean q body rest hb]
  have e : (q :: (body ++ [q])).getLast? = some q := by
    rw [← List.cons_append, List.getLast?_append]; simp
  rw [e]

end IgVerif.Exp

namespace IgVerif.Exp

theorem idStart_not_quote (c : Nat) (h : isIdStart c = true) : (c == 34 || (c == 39 && !prevAlnum none)) = false := by
  unfold isIdStart isAlpha at h
  have : c ≠ 34 ∧ c ≠ 39 := by
    simp only [Bool.or_eq_true, Bool.and_eq_true, decide_eq_true_eq, beq_iff_eq] at h
    omega
  simp [this.1, this.2]

theorem takeWhile_all_true {α : Type} (p : α → Bool) (l : List α) (h : ∀ x ∈ l, p x = true) :
    l.takeWhile p = l ∧ l.dropWhile p = [] := by
  induction l with
  | nil => simp
  | cons a t ih =>
    have ha := h a (List.mem_cons_self ..)
    have := ih (fun x hx => h x (List.mem_cons_of_mem _ hx))
    simp [List.takeWhile, List.dropWhile, ha, this]

/-- the body that is just the name of the `i`-th parameter is one parameter node -/
theorem save_param_only (names : List (List Nat)) (c : Nat) (rest : List Nat) (i : Nat)
    (hc : isIdStart c = true) (hr : ∀ x ∈ rest, isIdChar x = true)
    (hva : (c :: rest) ≠ vaArgs) (hi : indexOf names (c :: rest) = some i) :
    saveExpansion names none (c :: rest) = [.param i false false true] := by
  unfold saveExpansion
  have htw := takeWhile_all_true isIdChar rest hr
  have hne : ((c :: rest) == vaArgs) = false := by simp [hva]
  simp only [List.length_cons, save, idStart_not_quote c hc, Bool.false_eq_true, if_false, hc, if_true, htw.1, htw.2, hne, hi, flush]
  simp

theorem rExpandGo_single (i : Nat) (args : List (List Nat)) :
    rExpandGo none args false [.param i false false true] [] false = if i < args.length then args.getD i [] else [] := by
  generalize hsub : args.getD i [] = sub
  have e1 : ((none : Option Nat) == some i) = false := rfl
  cases sub with
  | nil =>
    by_cases hlt : i < args.length
    · simp only [rExpandGo, e1, Bool.false_and, Bool.false_eq_true, if_false, hlt, if_true, hsub, List.isEmpty_nil, Bool.not_false]
    · simp only [rExpandGo, e1, Bool.false_and, Bool.false_eq_true, if_false, hlt]
  | cons a as =>
    by_cases hlt : i < args.length
    · simp only [rExpandGo, e1, Bool.false_and, Bool.false_eq_true, if_false, hlt, if_true, hsub, List.isEmpty_cons, addSubst, List.isEmpty_nil, Bool.true_or]
      rfl
    · simp only [rExpandGo, e1, Bool.false_and, Bool.false_eq_true, if_false, hlt]

/-- **Parameter substitution.** `#define M(…, p_i, …) p_i`: `M(args)` is the `i`-th argument -/
theorem expand_param_only (names : List (List Nat)) (c : Nat) (rest : List Nat) (i : Nat) (args : List (List Nat))
    (hc : isIdStart c = true) (hr : ∀ x ∈ rest, isIdChar x = true)
    (hva : (c :: rest) ≠ vaArgs) (hi : indexOf names (c :: rest) = some i) :
    expandOnce names none (c :: rest) args = args.getD i [] := by
  unfold expandOnce
  rw [save_param_only names c rest i hc hr hva hi]
  unfold rExpand
  simp only
  rw [rExpandGo_single]
  split
  · rfl
  · rename_i h
    simp only [List.getD_eq_getElem?_getD]
    rw [List.getElem?_eq_none (by omega)]; rfl

/-- `# p_i` is one stringified parameter node -/
theorem save_hash_param (names : List (List Nat)) (c : Nat) (rest : List Nat) (i : Nat)
    (hc : isIdStart c = true) (hr : ∀ x ∈ rest, isIdChar x = true)
    (hva : (c :: rest) ≠ vaArgs) (hi : indexOf names (c :: rest) = some i) :
    saveExpansion names none (35 :: c :: rest) = [.param i true false true] := by
  unfold saveExpansion
  have htw := takeWhile_all_true isIdChar rest hr
  have hne : ((c :: rest) == vaArgs) = false := by simp [hva]
  have hq : ((35 : Nat) == 34 || ((35 : Nat) == 39 && !prevAlnum none)) = false := by decide
  have hid : isIdStart 35 = false := by decide
  have hq2 : (c == 34 || (c == 39 && !prevAlnum (some 35))) = false := by
    have := idStart_not_quote c hc
    unfold isIdStart isAlpha at hc
    have hcc : c ≠ 34 ∧ c ≠ 39 := by
      simp only [Bool.or_eq_true, Bool.and_eq_true, decide_eq_true_eq, beq_iff_eq] at hc
      omega
    simp [hcc.1, hcc.2]
  have hc35 : ((35 : Nat) == 35) = true := rfl
  cases rest with
  | nil =>
    simp only [List.length_cons, List.length_nil, save, hq, hid, Bool.false_eq_true, if_false, hc35, if_true, flush, List.isEmpty_nil]
    split
    · rename_i heq; simp at heq; have h35 := heq.1; subst h35; simp [isIdStart, isAlpha] at hc
    · simp only [save, hq2, Bool.false_eq_true, if_false, hc, if_true, List.takeWhile_nil, List.dropWhile_nil, hne, hi, flush, List.isEmpty_nil]
      simp
  | cons r rs =>
    simp only [List.length_cons, save, hq, hid, Bool.false_eq_true, if_false, hc35, if_true, flush, List.isEmpty_nil]
    split
    · rename_i heq; simp at heq; have h35 := heq.1; subst h35; simp [isIdStart, isAlpha] at hc
    · simp only [save, hq2, Bool.false_eq_true, if_false, hc, if_true, htw.1, htw.2, hne, hi, flush, List.isEmpty_nil]
      simp

theorem rExpandGo_single_str (i : Nat) (args : List (List Nat)) :
    rExpandGo none args false [.param i true false true] [] false = Mac.stringify (args.getD i []) := by
  have e1 : ((none : Option Nat) == some i) = false := rfl
  have hne : ∀ l : List Nat, (Mac.stringify l).isEmpty = false := by intro l; simp [Mac.stringify]
  by_cases hlt : i < args.length
  · simp only [rExpandGo, e1, Bool.false_and, Bool.false_eq_true, if_false, hlt, if_true, hne, addSubst, List.isEmpty_nil, Bool.true_or]
    rfl
  · have hg : args.getD i [] = [] := by
      simp only [List.getD_eq_getElem?_getD]
      rw [List.getElem?_eq_none (by omega)]; rfl
    simp only [rExpandGo, e1, Bool.false_and, Bool.false_eq_true, if_false, hlt, if_true, hne, addSubst, List.isEmpty_nil, Bool.true_or, hg]
    rfl

/-- **The `#` operator on any parameter.** `#define S(…, p_i, …) #p_i`: `S(args)` is the `i`-th
argument stringified — the empty string literal if that argument is missing -/
theorem expand_hash_param (names : List (List Nat)) (c : Nat) (rest : List Nat) (i : Nat) (args : List (List Nat))
    (hc : isIdStart c = true) (hr : ∀ x ∈ rest, isIdChar x = true)
    (hva : (c :: rest) ≠ vaArgs) (hi : indexOf names (c :: rest) = some i) :
    expandOnce names none (35 :: c :: rest) args = Mac.stringify (args.getD i []) := by
  unfold expandOnce
  rw [save_hash_param names c rest i hc hr hva hi]
  unfold rExpand
  simp only
  exact rExpandGo_single_str i args

end IgVerif.Exp
