import IgVerif.Model.Expand
namespace IgVerif.Exp

/-- the body of a literal without its quote mark and without backslashes is read to the closing quote -/
theorem takeLit_clean (q : Nat) (body rest : List Nat) (hb : ∀ c ∈ body, c ≠ q ∧ c ≠ 92) :
    takeLit q (body ++ q :: rest) = (body ++ [q], rest) := by
  induction body with
  | nil => show takeLit q (q :: rest) = ([q], rest); unfold takeLit; simp
  | cons b body ih =>
    have hb1 := hb b (List.mem_cons_self ..)
    have := ih (fun c hc => hb c (List.mem_cons_of_mem _ hc))
    have e1 : (b == q) = false := by simp [hb1.1]
    have e2 : (b == 92) = false := by simp [hb1.2]
    show takeLit q (b :: (body ++ q :: rest)) = (b :: (body ++ [q]), rest)
    unfold takeLit
    simp only [e1, e2, Bool.false_eq_true, if_false, this]

/-- **a literal in a macro body is appended to the current chunk as it stands**, whatever it
contains: parameter names, `#`, `##`, blanks -/
theorem save_literal (names : List (List Nat)) (variadic : Option Nat) (fuel : Nat) (q : Nat) (body rest : List Nat)
    (prev : Option Nat) (cur : List Nat) (str paste : Bool) (nodes : List Node)
    (hq : q = 34 ∨ (q = 39 ∧ prevAlnum prev = false))
    (hb : ∀ c ∈ body, c ≠ q ∧ c ≠ 92) :
    save names variadic (fuel + 1) (q :: (body ++ q :: rest)) prev cur str paste nodes =
      save names variadic fuel rest (some q) (cur ++ q :: (body ++ [q])) str paste nodes := by
  have hcond : (q == 34 || (q == 39 && !prevAlnum prev)) = true := by
    rcases hq with h | ⟨h1, h2⟩
    · simp [h]
    · simp [h1, h2]
  conv => lhs; unfold save
  simp only [hcond, if_true, takeLit_clean q body rest hb]
  have e : (q :: (body ++ [q])).getLast? = some q := by
    rw [← List.cons_append, List.getLast?_append]; simp
  rw [e]

end IgVerif.Exp
