import IgVerif.Model.Names
import IgVerif.Lemmas.Bytes
/-! Freshness of assigned hashes, validity of the alphabets. -/
namespace IgVerif.Nm

def identChar (c : Char) : Bool :=
  ('A' ≤ c && c ≤ 'Z') || ('a' ≤ c && c ≤ 'z') || ('0' ≤ c && c ≤ '9') || c == '_'

theorem encChar_valid_all : (List.range 64).all (fun v => identChar (encChar v)) = true := by decide

theorem encChar_valid (v : Nat) (h : v < 64) : identChar (encChar v) = true := by
  have := List.all_eq_true.mp encChar_valid_all v (by simpa using h)
  exact this

theorem encode24_valid (h : Nat) : (encode24 h).length = 4 ∧ ∀ c ∈ encode24 h, identChar c = true := by
  refine ⟨rfl, ?_⟩
  intro c hc
  simp only [encode24, List.mem_cons, List.not_mem_nil, or_false] at hc
  rcases hc with h1 | h1 | h1 | h1 <;> subst h1 <;> exact encChar_valid _ (Nat.mod_lt _ (by decide))

theorem hashString_valid (name : List Nat) (off : Nat) :
    (hashString name off).length = 4 ∧ ∀ c ∈ hashString name off, identChar c = true :=
  encode24_valid _

/-! ### the hash map -/

theorem has_append (m : HMap) (k k' : List Char) (v : Option Sig) :
    (m ++ [(k', v)]).has k = (m.has k || k' == k) := by
  induction m with
  | nil => cases h : (k' == k) <;> simp [HMap.has, HMap.find, h]
  | cons p rest ih =>
    simp only [HMap.has, HMap.find, List.cons_append] at ih ⊢
    by_cases hp : (p.1 == k) = true
    · simp [hp]
    · have hp' : (p.1 == k) = false := by simpa using hp
      simp only [hp', Bool.false_eq_true, if_false]
      exact ih

theorem has_setv (m : HMap) (k k' : List Char) (v : Option Sig) (h : m.has k = true) :
    (m.setv k' v).has k = true := by
  induction m with
  | nil => simp [HMap.has, HMap.find] at h
  | cons p rest ih =>
    simp only [HMap.setv]
    by_cases hp' : (p.1 == k') = true
    · simp only [hp', if_true]
      by_cases hk : (k' == k) = true
      · simp [HMap.has, HMap.find, hk]
      · have hk' : (k' == k) = false := by simpa using hk
        have e : p.1 = k' := by simpa using hp'
        have hpk : (p.1 == k) = false := by rw [e]; exact hk'
        simp only [HMap.has, HMap.find, hk', hpk, Bool.false_eq_true, if_false] at h ⊢
        exact h
    · have hp'' : (p.1 == k') = false := by simpa using hp'
      simp only [hp'', Bool.false_eq_true, if_false]
      by_cases hpk : (p.1 == k) = true
      · simp [HMap.has, HMap.find, hpk]
      · have hpk' : (p.1 == k) = false := by simpa using hpk
        simp only [HMap.has, HMap.find, hpk', Bool.false_eq_true, if_false] at h ⊢
        exact ih h

theorem has_insertNew (m : HMap) (k k' : List Char) (v : Option Sig) (h : m.has k = true) :
    (m.insertNew k' v).1.has k = true := by
  unfold HMap.insertNew
  split
  · exact h
  · simp [has_append, h]

theorem firstFree_spec (m : HMap) (old : List Char) (fuel i : Nat) (h : List Char)
    (hf : firstFree m old fuel i = some h) : m.has h = false := by
  induction fuel generalizing i with
  | zero => simp [firstFree] at hf
  | succ fuel ih =>
    simp only [firstFree] at hf
    split at hf
    · exact ih (i + 1) hf
    · rename_i hn
      simp at hf
      rw [← hf]
      simpa using hn

theorem relocate_mono (m : HMap) (h5 : List Char) (entry : Option Sig) (k : List Char) (hk : m.has k = true) :
    (relocate m h5 entry).has k = true := by
  unfold relocate
  cases entry with
  | none => exact hk
  | some other => exact has_insertNew _ _ _ _ (has_setv _ _ _ _ hk)

theorem place_fresh (m : HMap) (ext : List Char) (sig : Sig) (m' : HMap) (h : List Char)
    (hp : place m ext sig = (m', some h)) :
    m.has h = false ∧ m'.has h = true ∧ ∀ k, m.has k = true → m'.has k = true := by
  unfold place at hp
  split at hp
  · rename_i hext
    simp only [Prod.mk.injEq, Option.some.injEq] at hp
    obtain ⟨hm, hh⟩ := hp
    subst hm; subst hh
    exact ⟨by simpa using hext, by simp [has_append], fun k hk => by simp [has_append, hk]⟩
  · split at hp
    · rename_i hh hff
      simp only [Prod.mk.injEq, Option.some.injEq] at hp
      obtain ⟨hm, hh'⟩ := hp
      subst hm; subst hh'
      exact ⟨firstFree_spec m _ _ _ _ hff, by simp [has_append], fun k hk => by simp [has_append, hk]⟩
    · simp at hp

theorem place_mono (m : HMap) (ext : List Char) (sig : Sig) (k : List Char) (hk : m.has k = true) :
    (place m ext sig).1.has k = true := by
  unfold place
  split
  · simp [has_append, hk]
  · split
    · simp [has_append, hk]
    · exact hk

/-- **Freshness.** The hash handed to a new signature was not a key before, is one
afterwards, and no key is ever lost. -/
theorem assign_fresh (m : HMap) (sig : Sig) (m' : HMap) (h : List Char) (ha : assign m sig = (m', some h)) :
    m.has h = false ∧ m'.has h = true ∧ ∀ k, m.has k = true → m'.has k = true := by
  unfold assign at ha
  simp only at ha
  split at ha
  · rename_i hfind
    simp only [Prod.mk.injEq, Option.some.injEq] at ha
    obtain ⟨hm, hh⟩ := ha
    subst hm; subst hh
    refine ⟨by simp [HMap.has, hfind], by simp [has_append], fun k hk => by simp [has_append, hk]⟩
  · rename_i entry hfind
    split at ha
    · simp at ha
    · obtain ⟨h1, h2, h3⟩ := place_fresh _ _ _ _ _ ha
      refine ⟨?_, h2, fun k hk => h3 k (relocate_mono m _ entry k hk)⟩
      cases hmk : m.has h with
      | false => rfl
      | true => rw [relocate_mono m _ entry h hmk] at h1; simp at h1

/-- keys are never lost, whatever `assign` returns -/
theorem assign_mono (m : HMap) (sig : Sig) (k : List Char) (hk : m.has k = true) : (assign m sig).1.has k = true := by
  unfold assign
  simp only
  split
  · simp [has_append, hk]
  · rename_i entry hfind
    split
    · exact hk
    · exact place_mono _ _ _ k (relocate_mono m _ entry k hk)

/-- **Distinctness.** In any sequence of signatures, every hash that is handed out
differs from all hashes handed out before it (and from every key that existed). -/
theorem assignAll_fresh (sigs : List Sig) : ∀ (m : HMap) (h : List Char),
    some h ∈ assignAll m sigs → m.has h = false := by
  induction sigs with
  | nil => intro m h hm; simp [assignAll] at hm
  | cons s ss ih =>
    intro m h hm
    simp only [assignAll, List.mem_cons] at hm
    rcases hm with h1 | h1
    · have : assign m s = ((assign m s).1, some h) := by rw [h1]
      exact (assign_fresh m s _ h this).1
    · have := ih (assign m s).1 h h1
      cases hmk : m.has h with
      | false => rfl
      | true => rw [assign_mono m s h hmk] at this; simp at this

theorem assignAll_pairwise (sigs : List Sig) : ∀ (m : HMap),
    (assignAll m sigs).Pairwise (fun a b => a.isSome = true → a ≠ b) := by
  induction sigs with
  | nil => intro m; simp [assignAll]
  | cons s ss ih =>
    intro m
    simp only [assignAll, List.pairwise_cons]
    refine ⟨?_, ih _⟩
    intro b hb hsome heq
    cases hr : (assign m s).2 with
    | none => rw [hr] at hsome; simp at hsome
    | some h =>
      have hf := assign_fresh m s (assign m s).1 h (by rw [← hr])
      rw [hr] at heq
      rw [← heq] at hb
      have := assignAll_fresh ss (assign m s).1 h hb
      rw [hf.2.1] at this; simp at this

/-! ### clean_identifier -/

def okByte (c : Nat) : Bool := isAlnum c || c == 95

theorem cleanLoop_chars (name : List Nat) (b : Bool) : ∀ c ∈ cleanLoop name b, okByte c = true := by
  induction name generalizing b with
  | nil => intro c h; simp [cleanLoop] at h
  | cons x xs ih =>
    intro c h
    simp only [cleanLoop] at h
    split at h
    · rename_i hx
      rcases List.mem_append.mp h with h1 | h1
      · split at h1
        · simp at h1
          rcases h1 with rfl | rfl
          · decide
          · simp [okByte, hx]
        · simp at h1; subst h1; simp [okByte, hx]
      · exact ih false c h1
    · exact ih true c h

end IgVerif.Nm

/-! ### the search for a free name always succeeds -/
namespace IgVerif.Nm
open IgVerif

theorem letter_inj : ∀ i j : Fin 26, Char.ofNat (97 + i.val) = Char.ofNat (97 + j.val) → i = j := by decide

theorem digitChar_inj : ∀ a b : Fin 10, Char.ofNat (48 + a.val) = Char.ofNat (48 + b.val) → a = b := by decide

theorem letter_ne_digit : ∀ i : Fin 26, ∀ a : Fin 10, Char.ofNat (97 + i.val) ≠ Char.ofNat (48 + a.val) := by decide

theorem map_digit_inj : ∀ (xs ys : List Nat), (∀ d ∈ xs, isDigit d = true) → (∀ d ∈ ys, isDigit d = true) →
    xs.map Char.ofNat = ys.map Char.ofNat → xs = ys
  | [], [], _, _, _ => rfl
  | [], _ :: _, _, _, h => by simp at h
  | _ :: _, [], _, _, h => by simp at h
  | x :: xs, y :: ys, hx, hy, h => by
    simp only [List.map_cons, List.cons.injEq] at h
    have dx : isDigit x = true := hx x (by simp)
    have dy : isDigit y = true := hy y (by simp)
    have bx : 48 ≤ x ∧ x ≤ 57 := by simpa [isDigit] using dx
    have by' : 48 ≤ y ∧ y ≤ 57 := by simpa [isDigit] using dy
    have e := digitChar_inj ⟨x - 48, by omega⟩ ⟨y - 48, by omega⟩ (by
      have e1 : 48 + (x - 48) = x := by omega
      have e2 : 48 + (y - 48) = y := by omega
      simp only [e1, e2]; exact h.1)
    have exy : x = y := by
      have := congrArg Fin.val e
      simp only at this
      omega
    rw [exy, map_digit_inj xs ys (fun d hd => hx d (by simp [hd])) (fun d hd => hy d (by simp [hd])) h.2]

theorem showNat_inj (a b : Nat) (h : showNat a = showNat b) : a = b := by
  have ha := readNat_showNat a [] (by intro c hc; simp at hc)
  have hb := readNat_showNat b [] (by intro c hc; simp at hc)
  simp only [List.append_nil] at ha hb
  rw [h, hb] at ha
  simpa using ha.symm

theorem suffixOf_inj (i j : Nat) (h : suffixOf i = suffixOf j) : i = j := by
  unfold suffixOf at h
  by_cases hi : i < 26 <;> by_cases hj : j < 26
  · simp only [hi, hj, if_true, List.cons.injEq, and_true] at h
    have := letter_inj ⟨i, hi⟩ ⟨j, hj⟩ h
    exact congrArg Fin.val this
  · simp only [hi, hj, if_true, if_false] at h
    -- a letter against a string of digits
    obtain ⟨c, cs, hs, hc⟩ := showNat_head j
    rw [hs] at h
    simp only [List.map_cons, List.cons.injEq] at h
    have bc : 48 ≤ c ∧ c ≤ 57 := by simpa [isDigit] using hc
    have := letter_ne_digit ⟨i, hi⟩ ⟨c - 48, by omega⟩
    have e2 : 48 + (c - 48) = c := by omega
    simp only [e2] at this
    exact absurd h.1 this
  · simp only [hi, hj, if_true, if_false] at h
    obtain ⟨c, cs, hs, hc⟩ := showNat_head i
    rw [hs] at h
    simp only [List.map_cons, List.cons.injEq] at h
    have bc : 48 ≤ c ∧ c ≤ 57 := by simpa [isDigit] using hc
    have := letter_ne_digit ⟨j, hj⟩ ⟨c - 48, by omega⟩
    have e2 : 48 + (c - 48) = c := by omega
    simp only [e2] at this
    exact absurd h.1.symm this
  · simp only [hi, hj, if_false] at h
    exact showNat_inj i j (map_digit_inj _ _ (showNat_digits i) (showNat_digits j) h)

theorem has_mem_keys (m : HMap) (k : List Char) (h : m.has k = true) : k ∈ m.map Prod.fst := by
  induction m with
  | nil => simp [HMap.has, HMap.find] at h
  | cons p rest ih =>
    simp only [HMap.has, HMap.find] at h
    by_cases hp : (p.1 == k) = true
    · have : p.1 = k := by simpa using hp
      simp [this]
    · have hp' : (p.1 == k) = false := by simpa using hp
      simp only [hp', Bool.false_eq_true, if_false] at h
      simp [ih h]

theorem firstFree_none (m : HMap) (old : List Char) : ∀ (fuel i : Nat), firstFree m old fuel i = none →
    ∀ j, j < fuel → m.has (old ++ suffixOf (i + j)) = true := by
  intro fuel
  induction fuel with
  | zero => intro i _ j hj; omega
  | succ fuel ih =>
    intro i h j hj
    simp only [firstFree] at h
    split at h
    · rename_i hhas
      cases j with
      | zero => simpa using hhas
      | succ j =>
        have := ih (i + 1) h j (by omega)
        have e : i + 1 + j = i + (j + 1) := by omega
        rw [e] at this
        exact this
    · simp at h

/-- **A free name is always found**: among `m.length + 1` pairwise different candidates at most
`m.length` can be keys already. -/
theorem firstFree_total (m : HMap) (old : List Char) : ∃ h, firstFree m old (m.length + 1) 0 = some h := by
  cases hf : firstFree m old (m.length + 1) 0 with
  | some h => exact ⟨h, rfl⟩
  | none =>
    exfalso
    have hall := firstFree_none m old (m.length + 1) 0 hf
    let cands := (List.range (m.length + 1)).map (fun j => old ++ suffixOf j)
    have hnodup : cands.Nodup := by
      unfold List.Nodup
      rw [List.pairwise_map]
      have h : (List.range (m.length + 1)).Pairwise (· < ·) := List.pairwise_lt_range
      exact h.imp (by
        intro a b hab heq
        have := suffixOf_inj a b (List.append_cancel_left heq)
        omega)
    have hsub : cands ⊆ m.map Prod.fst := by
      intro k hk
      simp only [cands, List.mem_map, List.mem_range] at hk
      obtain ⟨j, hj, rfl⟩ := hk
      have := hall j hj
      simp only [Nat.zero_add] at this
      exact has_mem_keys m _ this
    have := hnodup.length_le_of_subset hsub
    simp only [cands, List.length_map, List.length_range] at this
    omega

/-- `hash_function_signature` always hands out a name, except for a signature that is already
registered under its own hash (the "Function signature repeated" abort) -/
theorem assign_total (m : HMap) (sig : Sig) (hrep : m.find (hashString sig 5) ≠ some (some sig)) :
    ∃ h, (assign m sig).2 = some h := by
  unfold assign
  simp only
  split
  · exact ⟨_, rfl⟩
  · rename_i entry hfind
    have hne : (entry == some sig) = false := by
      cases he : (entry == some sig) with
      | false => rfl
      | true =>
        have : entry = some sig := by simpa using he
        rw [this] at hfind
        exact absurd hfind hrep
    simp only [hne, Bool.false_eq_true, if_false]
    unfold place
    split
    · exact ⟨_, rfl⟩
    · obtain ⟨h, hh⟩ := firstFree_total (relocate m (hashString sig 5) entry) (hashString sig 5 ++ hashString sig 11)
      simp [hh]

end IgVerif.Nm
