import IgVerif.Model.Names
/-! Freshness of assigned hashes, validity of the alphabets. -/
namespace IgVerif.Nm

def identChar (c : Char) : Bool :=
  ('A' ≤ c && c ≤ 'Z') || ('a' ≤ c && c ≤ 'z') || ('0' ≤ c && c ≤ '9') || c == '_'

theorem encChar_valid_all : (List.range 64).all (fun v => identChar (encChar v)) = true := by decide

theorem encChar_valid (v : Nat) (h : v < 64) : identChar (encChar v) = true := by
  have := List.all_eq_true.mp encChar_valid_all v (by simpa using h)
  exact this

theorem encode24_valid (h : Nat) : (encode24 h).length = 4 ∧ ∀ c ∈ encode24 h, identChar c = true := by
  refine ⟨rfl, ?_⟩
  intro c hc
  simp only [encode24, List.mem_cons, List.not_mem_nil, or_false] at hc
  rcases hc with h1 | h1 | h1 | h1 <;> subst h1 <;> exact encChar_valid _ (Nat.mod_lt _ (by decide))

theorem hashString_valid (name : List Nat) (off : Nat) :
    (hashString name off).length = 4 ∧ ∀ c ∈ hashString name off, identChar c = true :=
  encode24_valid _

/-! ### the hash map -/

theorem has_append (m : HMap) (k k' : List Char) (v : Option Sig) :
    (m ++ [(k', v)]).has k = (m.has k || k' == k) := by
  induction m with
  | nil => cases h : (k' == k) <;> simp [HMap.has, HMap.find, h]
  | cons p rest ih =>
    simp only [HMap.has, HMap.find, List.cons_append] at ih ⊢
    by_cases hp : (p.1 == k) = true
    · simp [hp]
    · have hp' : (p.1 == k) = false := by simpa using hp
      simp only [hp', Bool.false_eq_true, if_false]
      exact ih

theorem has_setv (m : HMap) (k k' : List Char) (v : Option Sig) (h : m.has k = true) :
    (m.setv k' v).has k = true := by
  induction m with
  | nil => simp [HMap.has, HMap.find] at h
  | cons p rest ih =>
    simp only [HMap.setv]
    by_cases hp' : (p.1 == k') = true
    · simp only [hp', if_true]
      by_cases hk : (k' == k) = true
      · simp [HMap.has, HMap.find, hk]
      · have hk' : (k' == k) = false := by simpa using hk
        have e : p.1 = k' := by simpa using hp'
        have hpk : (p.1 == k) = false := by rw [e]; exact hk'
        simp only [HMap.has, HMap.find, hk', hpk, Bool.false_eq_true, if_false] at h ⊢
        exact h
    · have hp'' : (p.1 == k') = false := by simpa using hp'
      simp only [hp'', Bool.false_eq_true, if_false]
      by_cases hpk : (p.1 == k) = true
      · simp [HMap.has, HMap.find, hpk]
      · have hpk' : (p.1 == k) = false := by simpa using hpk
        simp only [HMap.has, HMap.find, hpk', Bool.false_eq_true, if_false] at h ⊢
        exact ih h

theorem has_insertNew (m : HMap) (k k' : List Char) (v : Option Sig) (h : m.has k = true) :
    (m.insertNew k' v).1.has k = true := by
  unfold HMap.insertNew
  split
  · exact h
  · simp [has_append, h]

theorem firstFree_spec (m : HMap) (old : List Char) (fuel i : Nat) (h : List Char)
    (hf : firstFree m old fuel i = some h) : m.has h = false := by
  induction fuel generalizing i with
  | zero => simp [firstFree] at hf
  | succ fuel ih =>
    simp only [firstFree] at hf
    split at hf
    · exact ih (i + 1) hf
    · rename_i hn
      simp at hf
      rw [← hf]
      simpa using hn

theorem relocate_mono (m : HMap) (h5 : List Char) (entry : Option Sig) (k : List Char) (hk : m.has k = true) :
    (relocate m h5 entry).has k = true := by
  unfold relocate
  cases entry with
  | none => exact hk
  | some other => exact has_insertNew _ _ _ _ (has_setv _ _ _ _ hk)

theorem place_fresh (m : HMap) (ext : List Char) (sig : Sig) (m' : HMap) (h : List Char)
    (hp : place m ext sig = (m', some h)) :
    m.has h = false ∧ m'.has h = true ∧ ∀ k, m.has k = true → m'.has k = true := by
  unfold place at hp
  split at hp
  · rename_i hext
    simp only [Prod.mk.injEq, Option.some.injEq] at hp
    obtain ⟨hm, hh⟩ := hp
    subst hm; subst hh
    exact ⟨by simpa using hext, by simp [has_append], fun k hk => by simp [has_append, hk]⟩
  · split at hp
    · rename_i hh hff
      simp only [Prod.mk.injEq, Option.some.injEq] at hp
      obtain ⟨hm, hh'⟩ := hp
      subst hm; subst hh'
      exact ⟨firstFree_spec m _ _ _ _ hff, by simp [has_append], fun k hk => by simp [has_append, hk]⟩
    · simp at hp

theorem place_mono (m : HMap) (ext : List Char) (sig : Sig) (k : List Char) (hk : m.has k = true) :
    (place m ext sig).1.has k = true := by
  unfold place
  split
  · simp [has_append, hk]
  · split
    · simp [has_append, hk]
    · exact hk

/-- **Freshness.** The hash handed to a new signature was not a key before, is one
afterwards, and no key is ever lost. -/
theorem assign_fresh (m : HMap) (sig : Sig) (m' : HMap) (h : List Char) (ha : assign m sig = (m', some h)) :
    m.has h = false ∧ m'.has h = true ∧ ∀ k, m.has k = true → m'.has k = true := by
  unfold assign at ha
  simp only at ha
  split at ha
  · rename_i hfind
    simp only [Prod.mk.injEq, Option.some.injEq] at ha
    obtain ⟨hm, hh⟩ := ha
    subst hm; subst hh
    refine ⟨by simp [HMap.has, hfind], by simp [has_append], fun k hk => by simp [has_append, hk]⟩
  · rename_i entry hfind
    split at ha
    · simp at ha
    · obtain ⟨h1, h2, h3⟩ := place_fresh _ _ _ _ _ ha
      refine ⟨?_, h2, fun k hk => h3 k (relocate_mono m _ entry k hk)⟩
      cases hmk : m.has h with
      | false => rfl
      | true => rw [relocate_mono m _ entry h hmk] at h1; simp at h1

/-- keys are never lost, whatever `assign` returns -/
theorem assign_mono (m : HMap) (sig : Sig) (k : List Char) (hk : m.has k = true) : (assign m sig).1.has k = true := by
  unfold assign
  simp only
  split
  · simp [has_append, hk]
  · rename_i entry hfind
    split
    · exact hk
    · exact place_mono _ _ _ k (relocate_mono m _ entry k hk)

/-- **Distinctness.** In any sequence of signatures, every hash that is handed out
differs from all hashes handed out before it (and from every key that existed). -/
theorem assignAll_fresh (sigs : List Sig) : ∀ (m : HMap) (h : List Char),
    some h ∈ assignAll m sigs → m.has h = false := by
  induction sigs with
  | nil => intro m h hm; simp [assignAll] at hm
  | cons s ss ih =>
    intro m h hm
    simp only [assignAll, List.mem_cons] at hm
    rcases hm with h1 | h1
    · have : assign m s = ((assign m s).1, some h) := by rw [h1]
      exact (assign_fresh m s _ h this).1
    · have := ih (assign m s).1 h h1
      cases hmk : m.has h with
      | false => rfl
      | true => rw [assign_mono m s h hmk] at this; simp at this

theorem assignAll_pairwise (sigs : List Sig) : ∀ (m : HMap),
    (assignAll m sigs).Pairwise (fun a b => a.isSome = true → a ≠ b) := by
  induction sigs with
  | nil => intro m; simp [assignAll]
  | cons s ss ih =>
    intro m
    simp only [assignAll, List.pairwise_cons]
    refine ⟨?_, ih _⟩
    intro b hb hsome heq
    cases hr : (assign m s).2 with
    | none => rw [hr] at hsome; simp at hsome
    | some h =>
      have hf := assign_fresh m s (assign m s).1 h (by rw [← hr])
      rw [hr] at heq
      rw [← heq] at hb
      have := assignAll_fresh ss (assign m s).1 h hb
      rw [hf.2.1] at this; simp at this

/-! ### clean_identifier -/

def okByte (c : Nat) : Bool := isAlnum c || c == 95

theorem cleanLoop_chars (name : List Nat) (b : Bool) : ∀ c ∈ cleanLoop name b, okByte c = true := by
  induction name generalizing b with
  | nil => intro c h; simp [cleanLoop] at h
  | cons x xs ih =>
    intro c h
    simp only [cleanLoop] at h
    split at h
    · rename_i hx
      rcases List.mem_append.mp h with h1 | h1
      · split at h1
        · simp at h1
          rcases h1 with rfl | rfl
          · decide
          · simp [okByte, hx]
        · simp at h1; subst h1; simp [okByte, hx]
      · exact ih false c h1
    · exact ih true c h

end IgVerif.Nm
