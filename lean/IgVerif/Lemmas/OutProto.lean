import IgVerif.Model.OutProto
/-! Soundness of the syntactic check `wellChecked`: under every fault schedule,
lost output implies a non-zero exit status. -/
namespace IgVerif.OP

/-- abstraction relation: either the status is already non-zero (and stays so), or
every channel's concrete flags are covered by the abstract ones and every loss so
far has marked its stream failed -/
def Rel (a : AbsSt) (s : St) : Prop :=
  s.status = true ∨ ∀ ch, ((s.chan ch).dirty = true → (a ch).mayDirty = true) ∧
    ((s.chan ch).failed = true → (a ch).mayFailUnseen = true) ∧
    ((s.chan ch).lost = true → (s.chan ch).failed = true)

theorem next_chan (s : St) : s.next.2.chan = s.chan := by
  unfold St.next; split <;> rfl

theorem next_status (s : St) : s.next.2.status = s.status := by
  unfold St.next; split <;> rfl

theorem upd_status (s : St) (ch : Nat) (c : Chan) : (s.upd ch c).status = s.status := rfl

theorem upd_chan_self (s : St) (ch : Nat) (c : Chan) : (s.upd ch c).chan ch = c := by simp [St.upd]

theorem upd_chan_ne (s : St) (ch k : Nat) (c : Chan) (h : k ≠ ch) : (s.upd ch c).chan k = s.chan k := by
  simp [St.upd, h]

theorem status_stepSimple (s : St) (x : Simple) (h : s.status = true) : (stepSimple s x).status = true := by
  cases x with
  | «open» ch => simp [stepSimple, upd_status, next_status, h]
  | write ch => simp only [stepSimple]; split <;> simp [upd_status, next_status, h]
  | close ch => simp only [stepSimple, upd_status]; split <;> simp [next_status, h]
  | setIfFail ch => simp only [stepSimple]; split <;> simp [h]

theorem status_foldSimple (xs : List Simple) (s : St) (h : s.status = true) :
    (xs.foldl stepSimple s).status = true := by
  induction xs generalizing s with
  | nil => exact h
  | cons x xs ih => exact ih _ (status_stepSimple s x h)

/-- a helper: updating one channel concretely and abstractly preserves `Rel` when the
new pair of channel states is related -/
theorem rel_upd (a : AbsSt) (s s' : St) (ch : Nat) (c : Chan) (x : Abs)
    (hs : s'.chan = s.chan) (hst : s'.status = s.status)
    (h : Rel a s)
    (hc : (c.dirty = true → x.mayDirty = true) ∧ (c.failed = true → x.mayFailUnseen = true) ∧ (c.lost = true → c.failed = true)) :
    Rel (a.upd ch x) (s'.upd ch c) := by
  rcases h with h | h
  · left; simp [upd_status, hst, h]
  · right
    intro k
    by_cases hk : k = ch
    · subst hk; simp only [upd_chan_self, AbsSt.upd, if_true]; exact hc
    · rw [upd_chan_ne _ _ _ _ hk, hs]; simp only [AbsSt.upd, hk, if_false]; exact h k

theorem openChan_props (c : Chan) (e : Nat) (x : Abs) (hd : c.dirty = true → x.mayDirty = true)
    (hl : c.lost = true → c.failed = true) :
    ((openChan c e).dirty = true → x.mayDirty = true) ∧ ((openChan c e).lost = true → (openChan c e).failed = true) := by
  unfold openChan; split <;> simp_all

theorem writeChan_props (c : Chan) (e : Nat) (hl : c.lost = true → c.failed = true) :
    ((writeChan c e).lost = true → (writeChan c e).failed = true) := by
  unfold writeChan
  split
  · rename_i h; intro _; simpa using h
  · split
    · simp
    · split <;> simp_all

theorem closeChan_props (c : Chan) (e1 e2 : Nat) (hl : c.lost = true → c.failed = true) :
    (closeChan c e1 e2).dirty = false ∧ ((closeChan c e1 e2).lost = true → (closeChan c e1 e2).failed = true) := by
  unfold closeChan
  simp only
  split <;> split <;> simp_all

theorem rel_stepSimple (a : AbsSt) (s : St) (x : Simple) (h : Rel a s) :
    Rel (absSimple a x) (stepSimple s x) := by
  rcases h with h | h
  · exact Or.inl (status_stepSimple s x h)
  · have hR : Rel a s := Or.inr h
    cases x with
    | «open» ch =>
      simp only [stepSimple, absSimple]
      obtain ⟨hd, hf, hl⟩ := h ch
      apply rel_upd a s _ ch _ _ (next_chan s) (next_status s) hR
      have := openChan_props (s.chan ch) s.next.1 (a ch) hd hl
      exact ⟨this.1, fun _ => rfl, this.2⟩
    | write ch =>
      simp only [stepSimple, absSimple]
      obtain ⟨hd, hf, hl⟩ := h ch
      split
      · apply rel_upd a s s ch _ _ rfl rfl hR
        exact ⟨fun _ => rfl, fun _ => rfl, writeChan_props _ _ hl⟩
      · apply rel_upd a s _ ch _ _ (next_chan s) (next_status s) hR
        exact ⟨fun _ => rfl, fun _ => rfl, writeChan_props _ _ hl⟩
    | close ch =>
      simp only [stepSimple, absSimple]
      obtain ⟨hd, hf, hl⟩ := h ch
      have hp := fun e1 e2 => closeChan_props (s.chan ch) e1 e2 hl
      apply rel_upd a s _ ch _ _ ?_ ?_ hR
      · exact ⟨fun hx => by rw [(hp _ _).1] at hx; simp at hx, fun _ => rfl, (hp _ _).2⟩
      · split <;> simp [next_chan]
      · split <;> simp [next_status]
    | setIfFail ch =>
      simp only [stepSimple, absSimple]
      split
      · left; rfl
      · rename_i hnf
        right; intro k
        by_cases hk : k = ch
        · subst hk
          simp only [AbsSt.upd, if_true]
          exact ⟨(h k).1, fun hx => absurd hx hnf, (h k).2.2⟩
        · simp only [AbsSt.upd, hk, if_false]; exact h k

theorem rel_foldSimple (xs : List Simple) (a : AbsSt) (s : St) (h : Rel a s) :
    Rel (xs.foldl absSimple a) (xs.foldl stepSimple s) := by
  induction xs generalizing a s with
  | nil => exact h
  | cons x xs ih => exact ih _ _ (rel_stepSimple a s x h)

theorem rel_join_left (t e : AbsSt) (s : St) (h : Rel t s) : Rel (absJoin t e) s := by
  rcases h with h | h
  · exact Or.inl h
  · right; intro k
    obtain ⟨h1, h2, h3⟩ := h k
    exact ⟨fun x => by simp [absJoin, h1 x], fun x => by simp [absJoin, h2 x], h3⟩

theorem rel_join_right (t e : AbsSt) (s : St) (h : Rel e s) : Rel (absJoin t e) s := by
  rcases h with h | h
  · exact Or.inl h
  · right; intro k
    obtain ⟨h1, h2, h3⟩ := h k
    exact ⟨fun x => by simp [absJoin, h1 x], fun x => by simp [absJoin, h2 x], h3⟩

theorem rel_stepStmt (a : AbsSt) (s : St) (x : Stmt) (h : Rel a s) : Rel (absStmt a x) (stepStmt s x) := by
  cases x with
  | s y => exact rel_stepSimple a s y h
  | ifFailElse ch sets els =>
    simp only [stepStmt, absStmt]
    by_cases hfail : (s.chan ch).failed = true
    · simp only [hfail, if_true]
      cases sets with
      | true => left; rfl
      | false =>
        simp only [Bool.false_eq_true, if_false]
        apply rel_join_left
        rcases h with h | h
        · exact Or.inl h
        · right; intro k
          by_cases hk : k = ch
          · subst hk; simp only [AbsSt.upd, if_true]; exact ⟨(h k).1, fun _ => trivial, (h k).2.2⟩
          · simp only [AbsSt.upd, hk, if_false]; exact h k
    · simp only [hfail, Bool.false_eq_true, if_false]
      apply rel_join_right
      apply rel_foldSimple
      rcases h with h | h
      · exact Or.inl h
      · right; intro k
        by_cases hk : k = ch
        · subst hk; simp only [AbsSt.upd, if_true]; exact ⟨(h k).1, fun x => absurd x hfail, (h k).2.2⟩
        · simp only [AbsSt.upd, hk, if_false]; exact h k

theorem rel_foldStmt (xs : List Stmt) (a : AbsSt) (s : St) (h : Rel a s) :
    Rel (xs.foldl absStmt a) (xs.foldl stepStmt s) := by
  induction xs generalizing a s with
  | nil => exact h
  | cons x xs ih => exact ih _ _ (rel_stepStmt a s x h)

theorem rel_init (sched : List Nat) : Rel (fun _ => {}) ({ sched := sched } : St) := by
  right; intro k; simp

end IgVerif.OP

namespace IgVerif.OP

theorem finish_status (chs : List Nat) (s : St) : (finish chs s).status = s.status := by
  unfold finish
  induction chs generalizing s with
  | nil => rfl
  | cons ch chs ih =>
    simp only [List.foldl_cons]
    rw [ih]
    split
    · simp [upd_status, next_status]
    · rfl

theorem finish_clean (chs : List Nat) (s : St) (h : ∀ ch ∈ chs, (s.chan ch).dirty = false) :
    finish chs s = s := by
  unfold finish
  induction chs with
  | nil => rfl
  | cons ch chs ih =>
    simp only [List.foldl_cons]
    have : (s.chan ch).dirty = false := h ch (by simp)
    simp only [this, Bool.false_eq_true, if_false]
    exact ih (fun k hk => h k (by simp [hk]))

/-- **Soundness of the check.** If the protocol passes `wellChecked` then under
every fault schedule, whenever any output data is lost the exit status is non-zero. -/
theorem wellChecked_sound (p : Proto) (hw : wellChecked p = true) (sched : List Nat)
    (hlost : (run p sched).lost = true) : (run p sched).exitNonZero = true := by
  unfold wellChecked at hw
  simp only [Bool.and_eq_true, List.all_eq_true, Bool.not_eq_true'] at hw
  obtain ⟨hret, hall⟩ := hw
  have hrel := rel_foldStmt p.body (fun _ => {}) { sched := sched } (rel_init sched)
  unfold run at hlost ⊢
  simp only at hlost ⊢
  rcases hrel with hst | hch
  · simp [finish_status, hst, hret]
  · -- no channel is dirty, failed or lost: the destructors change nothing, so nothing is lost
    exfalso
    have hclean : ∀ ch ∈ chansOf p.body, ((p.body.foldl stepStmt { sched := sched }).chan ch).dirty = false := by
      intro ch hmem
      have := (hch ch).1
      have hd := (hall ch hmem).1
      cases hx : ((p.body.foldl stepStmt { sched := sched }).chan ch).dirty with
      | false => rfl
      | true => rw [this hx] at hd; simp at hd
    rw [finish_clean _ _ hclean] at hlost
    simp only [List.any_eq_true] at hlost
    obtain ⟨ch, hmem, hl⟩ := hlost
    have hf := (hch ch).2.2 hl
    have hu := (hch ch).2.1 hf
    have := (hall ch hmem).2
    rw [hu] at this; simp at this

end IgVerif.OP
