import IgVerif.Lemmas.Merge
/-! The merge of all definitions of one type name does not depend on the order in which the
libraries holding them are loaded: one fully defined record `d` and any number of forward
references always merge to `d`, global iff one of them was global. -/
namespace IgVerif

namespace C13aux
theorem fully_defined_wins (sch : Schema) (fc : FlagCfg) (a b : List Val)
    (ha : hasFlag sch.type a fc.typeFullyDefined = true) (hb : hasFlag sch.type b fc.typeFullyDefined = false) :
    mergeWith sch fc a b = if hasFlag sch.type b fc.typeGlobal then orFlag sch.type a fc.typeGlobal else a := by
  unfold mergeWith
  simp [ha, hb]

theorem defined_replaces_forward (sch : Schema) (fc : FlagCfg) (a b : List Val)
    (ha : hasFlag sch.type a fc.typeFullyDefined = false) :
    mergeWith sch fc a b = if hasFlag sch.type a fc.typeGlobal then orFlag sch.type b fc.typeGlobal else b := by
  unfold mergeWith
  simp [ha]
end C13aux

theorem setVal_same (spec : List Field) (r : List Val) (n : String) (x : Val) (h : findVal spec r n = some x) :
    setVal spec r n x = r := by
  induction spec generalizing r with
  | nil => cases r <;> simp [setVal]
  | cons f fs ih =>
    cases r with
    | nil => simp [setVal]
    | cons v vs =>
      by_cases hf : (fieldName f == n) = true
      · simp only [findVal, hf, if_true, Option.some.injEq] at h
        simp [setVal, hf, h]
      · have hf' : (fieldName f == n) = false := by simpa using hf
        simp only [findVal, hf', Bool.false_eq_true, if_false] at h
        simp only [setVal, hf', Bool.false_eq_true, if_false]
        rw [ih vs h]

theorem or_two_pow_of_and_ne_zero (f k : Nat) (h : f &&& 2 ^ k ≠ 0) : f ||| 2 ^ k = f := by
  have hb : f.testBit k = true := by
    cases hh : f.testBit k with
    | true => rfl
    | false =>
      exfalso; apply h
      apply Nat.eq_of_testBit_eq
      intro i
      rw [Nat.testBit_and, Nat.testBit_two_pow, Nat.zero_testBit]
      by_cases e : k = i
      · subst e; simp [hh]
      · simp [e]
  apply Nat.eq_of_testBit_eq
  intro i
  rw [Nat.testBit_or, Nat.testBit_two_pow]
  by_cases e : k = i
  · subst e; simp [hb]
  · simp [e]

/-- a one-bit flag that is already set: or-ing it in again changes nothing -/
theorem orFlag_idem (spec : List Field) (r : List Val) (k : Nat) (h : HasFlags spec r)
    (hf : hasFlag spec r (2 ^ k) = true) : orFlag spec r (2 ^ k) = r := by
  obtain ⟨f, hfv, hpos⟩ := h
  unfold hasFlag at hf
  unfold orFlag
  simp only [getInt, hfv] at hf ⊢
  have hne : f.toNat &&& 2 ^ k ≠ 0 := by simpa using hf
  rw [or_two_pow_of_and_ne_zero _ _ hne]
  have : Int.ofNat f.toNat = f := by simp [Int.toNat_of_nonneg hpos]
  rw [this]
  exact setVal_same spec r "_flags" _ hfv

structure MergeCtx (sch : Schema) (fc : FlagCfg) : Prop where
  g : ∃ k, fc.typeGlobal = 2 ^ k
  disj : fc.typeGlobal &&& fc.typeFullyDefined = 0

section
variable (sch : Schema) (fc : FlagCfg) (ctx : MergeCtx sch fc)
include ctx

theorem fd_orFlag (r : List Val) (h : HasFlags sch.type r) :
    hasFlag sch.type (orFlag sch.type r fc.typeGlobal) fc.typeFullyDefined = hasFlag sch.type r fc.typeFullyDefined := by
  rw [hasFlag_orFlag _ _ _ _ h]
  have : (fc.typeGlobal &&& fc.typeFullyDefined != 0) = false := by simp [ctx.disj]
  rw [this]; simp

theorem g_orFlag (r : List Val) (h : HasFlags sch.type r) :
    hasFlag sch.type (orFlag sch.type r fc.typeGlobal) fc.typeGlobal = true := by
  rw [hasFlag_orFlag _ _ _ _ h]
  obtain ⟨k, hk⟩ := ctx.g
  have : (fc.typeGlobal &&& fc.typeGlobal != 0) = true := by
    rw [Nat.and_self, hk]
    have : 2 ^ k ≠ 0 := Nat.pos_iff_ne_zero.mp (Nat.two_pow_pos k)
    simp [this]
  rw [this]; simp

theorem orFlag_idem' (r : List Val) (h : HasFlags sch.type r) (hg : hasFlag sch.type r fc.typeGlobal = true) :
    orFlag sch.type r fc.typeGlobal = r := by
  obtain ⟨k, hk⟩ := ctx.g
  rw [hk] at hg ⊢
  exact orFlag_idem sch.type r k h hg

/-- what every load order produces from the definer `d` and forward references, `g` telling
whether any of the records merged so far was global -/
def canon (d : List Val) (g : Bool) : List Val := if g then orFlag sch.type d fc.typeGlobal else d

omit ctx in
theorem canon_false (d : List Val) : canon sch fc d false = d := rfl

theorem canon_of_global (d : List Val) (hd : HasFlags sch.type d) (hg : hasFlag sch.type d fc.typeGlobal = true) (g : Bool) :
    canon sch fc d g = d := by
  cases g with
  | false => rfl
  | true => exact orFlag_idem' sch fc ctx d hd hg

/-- forward references merged into a forward reference: still a forward reference, global iff one was -/
theorem fold_forward (fs : List (List Val)) (a : List Val)
    (ha : hasFlag sch.type a fc.typeFullyDefined = false) (haf : HasFlags sch.type a)
    (hfs : ∀ f ∈ fs, hasFlag sch.type f fc.typeFullyDefined = false ∧ HasFlags sch.type f) :
    hasFlag sch.type (fs.foldl (mergeWith sch fc) a) fc.typeFullyDefined = false ∧
    HasFlags sch.type (fs.foldl (mergeWith sch fc) a) ∧
    hasFlag sch.type (fs.foldl (mergeWith sch fc) a) fc.typeGlobal =
      (hasFlag sch.type a fc.typeGlobal || fs.any (fun f => hasFlag sch.type f fc.typeGlobal)) := by
  induction fs generalizing a with
  | nil => simp [ha, haf]
  | cons b fs ih =>
    have hb := hfs b (List.mem_cons_self ..)
    have hrest : ∀ f ∈ fs, hasFlag sch.type f fc.typeFullyDefined = false ∧ HasFlags sch.type f :=
      fun f hf => hfs f (List.mem_cons_of_mem _ hf)
    simp only [List.foldl_cons, List.any_cons]
    have hm : mergeWith sch fc a b = if hasFlag sch.type a fc.typeGlobal then orFlag sch.type b fc.typeGlobal else b :=
      C13aux.defined_replaces_forward sch fc a b ha
    cases hga : hasFlag sch.type a fc.typeGlobal with
    | true =>
      rw [hm, hga]
      simp only [if_true]
      have := ih (orFlag sch.type b fc.typeGlobal) (by rw [fd_orFlag sch fc ctx b hb.2]; exact hb.1) (hasFlags_orFlag _ _ _ hb.2) hrest
      rw [g_orFlag sch fc ctx b hb.2] at this
      simpa using this
    | false =>
      rw [hm, hga]
      simp only [Bool.false_eq_true, if_false]
      have := ih b hb.1 hb.2 hrest
      simpa using this

/-- forward references merged into the (possibly already global) definer -/
theorem fold_defined (d : List Val) (hd : hasFlag sch.type d fc.typeFullyDefined = true) (hdf : HasFlags sch.type d)
    (fs : List (List Val)) (g : Bool) (hg : hasFlag sch.type d fc.typeGlobal = true → g = true)
    (hfs : ∀ f ∈ fs, hasFlag sch.type f fc.typeFullyDefined = false ∧ HasFlags sch.type f) :
    fs.foldl (mergeWith sch fc) (canon sch fc d g) =
      canon sch fc d (g || fs.any (fun f => hasFlag sch.type f fc.typeGlobal)) := by
  induction fs generalizing g with
  | nil => simp
  | cons b fs ih =>
    have hb := hfs b (List.mem_cons_self ..)
    have hrest : ∀ f ∈ fs, hasFlag sch.type f fc.typeFullyDefined = false ∧ HasFlags sch.type f :=
      fun f hf => hfs f (List.mem_cons_of_mem _ hf)
    simp only [List.foldl_cons, List.any_cons]
    have hcf : hasFlag sch.type (canon sch fc d g) fc.typeFullyDefined = true := by
      unfold canon; split
      · rw [fd_orFlag sch fc ctx d hdf]; exact hd
      · exact hd
    have hm : mergeWith sch fc (canon sch fc d g) b =
        if hasFlag sch.type b fc.typeGlobal then orFlag sch.type (canon sch fc d g) fc.typeGlobal else canon sch fc d g :=
      C13aux.fully_defined_wins sch fc _ b hcf hb.1
    rw [hm]
    cases hgb : hasFlag sch.type b fc.typeGlobal with
    | false =>
      simp only [Bool.false_eq_true, if_false, Bool.false_or]
      exact ih g hg hrest
    | true =>
      simp only [if_true, Bool.true_or, Bool.or_true]
      have e : orFlag sch.type (canon sch fc d g) fc.typeGlobal = canon sch fc d true := by
        cases g with
        | false => rfl
        | true =>
          show orFlag sch.type (orFlag sch.type d fc.typeGlobal) fc.typeGlobal = orFlag sch.type d fc.typeGlobal
          exact orFlag_idem' sch fc ctx _ (hasFlags_orFlag _ _ _ hdf) (g_orFlag sch fc ctx d hdf)
      rw [e]
      have := ih true (fun _ => rfl) hrest
      simpa using this

end
end IgVerif

namespace IgVerif

/-- the type record left under one index after the libraries in `l` (in this order) each
contributed their definition of the type -/
def mergeAll (sch : Schema) (fc : FlagCfg) : List (List Val) → Option (List Val)
  | [] => none
  | x :: xs => some (xs.foldl (mergeWith sch fc) x)

theorem perm_any {α : Type} (p : α → Bool) {l1 l2 : List α} (h : l1.Perm l2) : l1.any p = l2.any p := by
  cases h1 : l1.any p <;> cases h2 : l2.any p <;> try rfl
  · rw [List.any_eq_true] at h2
    obtain ⟨x, hx, hp⟩ := h2
    have : l1.any p = true := List.any_eq_true.mpr ⟨x, h.mem_iff.mpr hx, hp⟩
    rw [this] at h1; exact absurd h1 (by simp)
  · rw [List.any_eq_true] at h1
    obtain ⟨x, hx, hp⟩ := h1
    have : l2.any p = true := List.any_eq_true.mpr ⟨x, h.mem_iff.mp hx, hp⟩
    rw [this] at h2; exact absurd h2 (by simp)

section
variable (sch : Schema) (fc : FlagCfg) (ctx : MergeCtx sch fc)
include ctx

theorem fold_defined' (d : List Val) (hd : hasFlag sch.type d fc.typeFullyDefined = true) (hdf : HasFlags sch.type d)
    (fs : List (List Val)) (g : Bool)
    (hfs : ∀ f ∈ fs, hasFlag sch.type f fc.typeFullyDefined = false ∧ HasFlags sch.type f) :
    fs.foldl (mergeWith sch fc) (canon sch fc d g) =
      canon sch fc d (hasFlag sch.type d fc.typeGlobal || g || fs.any (fun f => hasFlag sch.type f fc.typeGlobal)) := by
  cases hg : hasFlag sch.type d fc.typeGlobal with
  | true =>
    rw [canon_of_global sch fc ctx d hdf hg g, canon_of_global sch fc ctx d hdf hg _]
    have := fold_defined sch fc ctx d hd hdf fs true (fun _ => rfl) hfs
    rw [canon_of_global sch fc ctx d hdf hg true, canon_of_global sch fc ctx d hdf hg _] at this
    exact this
  | false =>
    have := fold_defined sch fc ctx d hd hdf fs g (fun h => by rw [hg] at h; exact absurd h (by simp)) hfs
    simpa using this

theorem mergeAll_split (d : List Val) (hd : hasFlag sch.type d fc.typeFullyDefined = true) (hdf : HasFlags sch.type d)
    (pre post : List (List Val))
    (hpre : ∀ f ∈ pre, hasFlag sch.type f fc.typeFullyDefined = false ∧ HasFlags sch.type f)
    (hpost : ∀ f ∈ post, hasFlag sch.type f fc.typeFullyDefined = false ∧ HasFlags sch.type f) :
    mergeAll sch fc (pre ++ d :: post) =
      some (canon sch fc d ((pre ++ d :: post).any (fun f => hasFlag sch.type f fc.typeGlobal))) := by
  cases pre with
  | nil =>
    simp only [List.nil_append, mergeAll, List.any_cons]
    have := fold_defined' sch fc ctx d hd hdf post false hpost
    rw [canon_false] at this
    rw [this]; simp
  | cons a pre' =>
    have ha := hpre a (List.mem_cons_self ..)
    have hpre' : ∀ f ∈ pre', hasFlag sch.type f fc.typeFullyDefined = false ∧ HasFlags sch.type f :=
      fun f hf => hpre f (List.mem_cons_of_mem _ hf)
    simp only [List.cons_append, mergeAll, List.foldl_append, List.foldl_cons, List.any_cons, List.any_append]
    obtain ⟨h1, h2, h3⟩ := fold_forward sch fc ctx pre' a ha.1 ha.2 hpre'
    have hm : mergeWith sch fc (pre'.foldl (mergeWith sch fc) a) d =
        canon sch fc d (hasFlag sch.type (pre'.foldl (mergeWith sch fc) a) fc.typeGlobal) :=
      C13aux.defined_replaces_forward sch fc _ d h1
    rw [hm, fold_defined' sch fc ctx d hd hdf post _ hpost, h3]
    congr 2
    cases hasFlag sch.type d fc.typeGlobal <;> cases hasFlag sch.type a fc.typeGlobal <;>
      cases pre'.any (fun f => hasFlag sch.type f fc.typeGlobal) <;>
      cases post.any (fun f => hasFlag sch.type f fc.typeGlobal) <;> rfl

/-- **Any order.** Whatever the order in which the definer `d` and the forward references
`fs` of one type are merged, the result is `d`, made global iff one of them was global. -/
theorem mergeAll_perm (d : List Val) (fs l : List (List Val)) (hl : l.Perm (d :: fs))
    (hd : hasFlag sch.type d fc.typeFullyDefined = true) (hdf : HasFlags sch.type d)
    (hfs : ∀ f ∈ fs, hasFlag sch.type f fc.typeFullyDefined = false ∧ HasFlags sch.type f) :
    mergeAll sch fc l = some (canon sch fc d ((d :: fs).any (fun f => hasFlag sch.type f fc.typeGlobal))) := by
  have hmem : d ∈ l := hl.mem_iff.mpr (List.mem_cons_self ..)
  obtain ⟨pre, post, rfl⟩ := List.append_of_mem hmem
  have hp : (pre ++ post).Perm fs := (List.perm_middle.symm.trans hl).cons_inv
  have hpre : ∀ f ∈ pre, hasFlag sch.type f fc.typeFullyDefined = false ∧ HasFlags sch.type f :=
    fun f hf => hfs f (hp.mem_iff.mp (List.mem_append_left _ hf))
  have hpost : ∀ f ∈ post, hasFlag sch.type f fc.typeFullyDefined = false ∧ HasFlags sch.type f :=
    fun f hf => hfs f (hp.mem_iff.mp (List.mem_append_right _ hf))
  rw [mergeAll_split sch fc ctx d hd hdf pre post hpre hpost, perm_any _ hl]

end
end IgVerif
