import IgVerif.Model.Traits
/-! `get_virtual_funcs` computes exactly the final overriders of [class.virtual]. -/
namespace IgVerif.Tr

theorem mem_mergeV (inh : List VF) (ds : List VDecl) (n : Nat) (p : Bool) :
    (⟨n, p⟩ : VF) ∈ mergeV inh ds ↔
      ((⟨n, p⟩ : VF) ∈ inh ∧ ∀ d ∈ ds, d.id ≠ n) ∨
      (∃ d ∈ ds, d.id = n ∧ d.pure = p ∧ d.deleted = false ∧ (d.virt = true ∨ ∃ p', (⟨d.id, p'⟩ : VF) ∈ inh)) := by
  unfold mergeV
  simp only [List.mem_append, List.mem_filter, List.mem_map]
  constructor
  · rintro (⟨hm, hf⟩ | ⟨d, ⟨hd, hc⟩, he⟩)
    · left
      refine ⟨hm, ?_⟩
      intro d hd heq
      have : (ds.any fun d => d.id == n) = true := List.any_eq_true.mpr ⟨d, hd, by simp [heq]⟩
      simp [this] at hf
    · right
      have he1 : d.id = n := by have := congrArg VF.id he; simpa using this
      have he2 : d.pure = p := by have := congrArg VF.pure he; simpa using this
      simp only [Bool.and_eq_true, Bool.or_eq_true, Bool.not_eq_true'] at hc
      refine ⟨d, hd, he1, he2, hc.2, ?_⟩
      rcases hc.1 with hv | ha
      · exact Or.inl hv
      · right
        obtain ⟨vf, hvf, hid⟩ := List.any_eq_true.mp ha
        have hid' : vf.id = d.id := by simpa using hid
        exact ⟨vf.pure, by rw [← hid']; exact hvf⟩
  · rintro (⟨hm, hn⟩ | ⟨d, hd, he1, he2, hdel, hv⟩)
    · left
      refine ⟨hm, ?_⟩
      have : (ds.any fun d => d.id == n) = false := by
        rw [List.any_eq_false]
        intro d hd
        simpa using hn d hd
      simp [this]
    · right
      refine ⟨d, ⟨hd, ?_⟩, by cases he1; cases he2; rfl⟩
      simp only [Bool.and_eq_true, Bool.or_eq_true, Bool.not_eq_true']
      refine ⟨?_, hdel⟩
      rcases hv with hv | ⟨p', hp'⟩
      · exact Or.inl hv
      · right
        exact List.any_eq_true.mpr ⟨⟨d.id, p'⟩, hp', by simp⟩

mutual
/-- **`get_virtual_funcs` = final overriders** (hierarchies of any depth and width) -/
theorem mem_vfuncs : (c : Cls) → (n : Nat) → (p : Bool) → ((⟨n, p⟩ : VF) ∈ vfuncs c ↔ FinalOv c n p)
  | .mk bases dctor octor cctor mctor dtor massign fields vfns, n, p => by
    have ih : ∀ n p, ((⟨n, p⟩ : VF) ∈ vfuncsB bases ↔ InhOv bases n p) := fun n p => mem_vfuncsB bases n p
    simp only [vfuncs]
    rw [mem_mergeV]
    constructor
    · rintro (⟨hm, hn⟩ | ⟨d, hd, he1, he2, hdel, hv⟩)
      · exact FinalOv.inherited ((ih n p).mp hm) hn
      · subst he1; subst he2
        rcases hv with hv | ⟨p', hp'⟩
        · exact FinalOv.ownVirtual hd hdel hv
        · exact FinalOv.ownOverrides hd hdel ((ih _ _).mp hp')
    · intro h
      cases h with
      | ownVirtual hd hdel hv => exact Or.inr ⟨_, hd, rfl, rfl, hdel, Or.inl hv⟩
      | ownOverrides hd hdel hi => exact Or.inr ⟨_, hd, rfl, rfl, hdel, Or.inr ⟨_, (ih _ _).mpr hi⟩⟩
      | inherited hi hn => exact Or.inl ⟨(ih n p).mpr hi, hn⟩
theorem mem_vfuncsB : (bs : Bases) → (n : Nat) → (p : Bool) → ((⟨n, p⟩ : VF) ∈ vfuncsB bs ↔ InhOv bs n p)
  | .nil, n, p => by
    simp only [vfuncsB, List.not_mem_nil, false_iff]
    intro h; cases h
  | .cons c vis virt rest, n, p => by
    simp only [vfuncsB, List.mem_append]
    constructor
    · rintro (h | h)
      · exact InhOv.here ((mem_vfuncs c n p).mp h)
      · exact InhOv.there ((mem_vfuncsB rest n p).mp h)
    · intro h
      cases h with
      | here h => exact Or.inl ((mem_vfuncs c n p).mpr h)
      | there h => exact Or.inr ((mem_vfuncsB rest n p).mpr h)
end

/-! ### accessibility is monotone -/

theorem gate_mono (sm : SM) (v v' : Nat) (h : v ≤ v') :
    (gate sm v = .yes → gate sm v' = .yes) ∧ (gate sm v = .implicit → gate sm v' = .implicit) := by
  unfold gate
  by_cases h1 : sm.vis > v
  · simp [h1]
  · have h2 : ¬ sm.vis > v' := by omega
    simp only [h1, h2, if_false]
    constructor <;> intro h <;> exact h

end IgVerif.Tr
