import IgVerif.Model.Cond
/-! The stack-free machine refines the nested-group semantics on every well-nested program. -/
namespace IgVerif.Cond

variable {Env : Type}

theorem seqOut_assoc (a : Out Env) (k : Env → Out Env) (h : Env → Out Env) :
    seqOut (seqOut a k) h = seqOut a (fun e => seqOut (k e) h) := by
  simp [seqOut, List.append_assoc]

mutual
theorem skipB (k : Bool) (l : Nat) (env : Env) (rest : List (Dir Env)) : (b : Block Env) →
    run (some (k, l)) env (flattenB b ++ rest) = run (some (k, l)) env rest
  | .text m => by simp [flattenB, run]
  | .eff f => by simp [flattenB, run]
  | .cond c t r => by
      simp only [flattenB, List.cons_append, List.append_assoc, run]
      rw [skipBs k (l+1) env _ t, skipT k l env rest r]
theorem skipBs (k : Bool) (l : Nat) (env : Env) (rest : List (Dir Env)) : (bs : Blocks Env) →
    run (some (k, l)) env (flattenBs bs ++ rest) = run (some (k, l)) env rest
  | .nil => by simp [flattenBs]
  | .cons b bs => by
      simp only [flattenBs, List.append_assoc]
      rw [skipB k l env _ b, skipBs k l env rest bs]
theorem skipT (k : Bool) (l : Nat) (env : Env) (rest : List (Dir Env)) : (r : Tail Env) →
    run (some (k, l+1)) env (flattenT r ++ rest) = run (some (k, l)) env rest
  | .endif => by simp [flattenT, run]
  | .els bs => by
      simp only [flattenT, List.cons_append, List.append_assoc, run]
      simp
      rw [skipBs k (l+1) env _ bs]; simp [run]
  | .elif c t r => by
      simp only [flattenT, List.cons_append, List.append_assoc, run]
      simp
      rw [skipBs k (l+1) env _ t, skipT k l env rest r]
end

theorem skipF0T (env : Env) (rest : List (Dir Env)) : (r : Tail Env) →
    run (some (false, 0)) env (flattenT r ++ rest) = run none env rest
  | .endif => by simp [flattenT, run]
  | .els bs => by
      simp only [flattenT, List.cons_append, List.append_assoc, run]
      simp
      rw [skipBs false 0 env _ bs]; simp [run]
  | .elif c t r => by
      simp only [flattenT, List.cons_append, List.append_assoc, run]
      simp
      rw [skipBs false 0 env _ t, skipF0T env rest r]

theorem doneT (env : Env) (rest : List (Dir Env)) : (r : Tail Env) →
    run none env (flattenT r ++ rest) = run none env rest
  | .endif => by simp [flattenT, run]
  | .els bs => by
      simp only [flattenT, List.cons_append, List.append_assoc, run]
      rw [skipBs false 0 env _ bs]; simp [run]
  | .elif c t r => by
      simp only [flattenT, List.cons_append, List.append_assoc, run]
      rw [skipBs false 0 env _ t, skipF0T env rest r]

mutual
theorem refB (env : Env) (rest : List (Dir Env)) : (b : Block Env) →
    run none env (flattenB b ++ rest) = seqOut (specB env b) (fun e => run none e rest)
  | .text m => by simp [flattenB, run, specB, seqOut]
  | .eff f => by simp [flattenB, run, specB, seqOut]
  | .cond c t r => by
      simp only [flattenB, List.cons_append, List.append_assoc, run, specB]
      by_cases h : c env
      · simp only [h, if_true]
        rw [refBs env _ t]
        congr 1; funext e; exact doneT e rest r
      · simp only [h]
        rw [skipBs true 0 env _ t]
        exact refT env rest r
theorem refBs (env : Env) (rest : List (Dir Env)) : (bs : Blocks Env) →
    run none env (flattenBs bs ++ rest) = seqOut (specBs env bs) (fun e => run none e rest)
  | .nil => by simp [flattenBs, specBs, seqOut]
  | .cons b bs => by
      simp only [flattenBs, List.append_assoc, specBs]
      rw [refB env _ b, seqOut_assoc]
      congr 1; funext e; exact refBs e rest bs
theorem refT (env : Env) (rest : List (Dir Env)) : (r : Tail Env) →
    run (some (true, 0)) env (flattenT r ++ rest) = seqOut (specT env r) (fun e => run none e rest)
  | .endif => by simp [flattenT, run, specT, seqOut]
  | .els bs => by
      simp only [flattenT, List.cons_append, List.append_assoc, run, specT]
      simp
      rw [refBs env _ bs]
      first | rfl | (congr 1; funext e; simp [run])
  | .elif c t r => by
      simp only [flattenT, List.cons_append, List.append_assoc, run, specT]
      simp
      by_cases h : c env
      · simp only [h, if_true]
        rw [refBs env _ t]
        congr 1; funext e; exact doneT e rest r
      · simp only [h]
        rw [skipBs true 0 env _ t]
        exact refT env rest r
end

/-- on every well-nested program the stack-free machine computes the nested-group semantics -/
theorem run_refines (env : Env) (p : Blocks Env) : run none env (flattenBs p) = specBs env p := by
  have := refBs env [] p
  simpa [seqOut, run] using this

end IgVerif.Cond
