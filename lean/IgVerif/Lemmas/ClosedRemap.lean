import IgVerif.Model.Closed
import IgVerif.Lemmas.Remap
/-!
# `remap_indices` keeps a closed database closed

Record level: when every index-typed member is one that `remap_indices()` passes through the
remapper (coverage, decided on the extracted member lists by `c11_field_coverage`), the
references of a remapped record are the old references mapped.  Map level: after the six
renumbering passes every old key of a kind is mapped to a new key of the same kind, provided no
index is used by two kinds.
-/
namespace IgVerif

/-- every index-typed member (per `im`) is remapped (per `members`) -/
def Covers (im : List (String × String)) (members : List String) : Prop :=
  ∀ n t, targetOf im n = some t → members.contains n = true

theorem refsAtoms_remap (im : List (String × String)) (members : List String) (rm : Remap) (vec : String)
    (hc : Covers im members) (as : List Atom) (vs : List AVal) :
    refsAtoms im vec as (remapAtoms rm members vec as vs) =
      (refsAtoms im vec as vs).map (fun tv => (tv.1, rm.mapFrom tv.2)) := by
  induction as generalizing vs with
  | nil => cases vs <;> simp [refsAtoms]
  | cons a as ih =>
    cases vs with
    | nil => simp [refsAtoms, remapAtoms]
    | cons v vs =>
      cases v with
      | int i =>
        simp only [remapAtoms]
        cases ht : targetOf im (vec ++ "." ++ atomName a) with
        | none =>
          by_cases hm : members.contains (vec ++ "." ++ atomName a) = true
          · simp only [hm, if_true, refsAtoms, ht, List.nil_append, ih vs]
          · simp only [hm, refsAtoms, ht, List.nil_append]; simp [refsAtoms, ht, ih vs]
        | some t =>
          have hm := hc _ _ ht
          simp only [hm, if_true, refsAtoms, ht, ih vs]; simp
      | str s =>
        simp only [remapAtoms, refsAtoms]
        rw [ih vs]

theorem refsRec_remap (im : List (String × String)) (members : List String) (rm : Remap)
    (hc : Covers im members) (fs : List Field) (vs : List Val) :
    refsRec im fs (remapRec rm members fs vs) =
      (refsRec im fs vs).map (fun tv => (tv.1, rm.mapFrom tv.2)) := by
  induction fs generalizing vs with
  | nil => cases vs <;> simp [refsRec]
  | cons f fs ih =>
    cases vs with
    | nil => simp [refsRec, remapRec]
    | cons v vs =>
      simp only [remapRec, refsRec]
      rw [ih vs, List.map_append]
      congr 1
      cases v with
      | a av =>
        cases av with
        | int i =>
          generalize hn : fieldName f = n
          have hcov := hc n
          by_cases hm : members.contains n = true <;> cases ht : targetOf im n <;> cases f <;> simp_all
        | str s => cases f <;> simp
      | ints l =>
        generalize hn : fieldName f = n
        have hcov := hc n
        by_cases hm : members.contains n = true <;> cases ht : targetOf im n <;> cases f <;> simp_all [Function.comp_def]
      | strs l => cases f <;> simp
      | recs l =>
        cases f with
        | recs n sub =>
          simp only [fieldName, List.flatMap_map, List.map_flatMap]
          congr 1
          funext r
          exact refsAtoms_remap im members rm n hc sub r
        | _ => simp

/-! ## the remapper after the six renumbering passes -/

theorem Remap.find_filter_ne (rm : Remap) (a k : Int) (h : a ≠ k) :
    Remap.find (rm.filter (fun p => p.1 != a)) k = Remap.find rm k := by
  induction rm with
  | nil => rfl
  | cons p rest ih =>
    obtain ⟨x, y⟩ := p
    by_cases hx : x = a
    · subst hx
      have : (x == k) = false := by simpa using h
      simp [List.filter, Remap.find, this, ih]
    · have hne : (x != a) = true := by simpa using hx
      simp only [List.filter, hne, Remap.find, ih]

theorem Remap.find_add (rm : Remap) (a b k : Int) :
    (rm.add a b).find k = if a == k then some b else rm.find k := by
  unfold Remap.add
  by_cases h : a = k
  · subst h; simp [Remap.find]
  · have : (a == k) = false := by simpa using h
    simp only [Remap.find, this, Remap.find_filter_ne rm a k h]

theorem renumber_find_fold (m : IMap (List Val)) (acc : IMap (List Val)) (n : Int) (rm : Remap) :
    (∀ i ∈ m.map (·.1), ∃ j, (m.foldl renumberStep (acc, n, rm)).2.2.find i = some j ∧
        j ∈ (m.foldl renumberStep (acc, n, rm)).1.map (·.1)) ∧
    (∀ i, i ∉ m.map (·.1) → (m.foldl renumberStep (acc, n, rm)).2.2.find i = rm.find i) := by
  induction m generalizing acc n rm with
  | nil => simp
  | cons p rest ih =>
    simp only [List.foldl_cons, renumberStep]
    obtain ⟨h1, h2⟩ := ih (acc ++ [(n, p.2)]) (n + 1) (rm.add p.1 n)
    have hk := (renumber_fold rest (acc ++ [(n, p.2)]) (n + 1) (rm.add p.1 n)).1
    refine ⟨?_, ?_⟩
    · intro i hi
      by_cases hr : i ∈ rest.map (·.1)
      · exact h1 i hr
      · have hip : i = p.1 := by
          simp only [List.map_cons, List.mem_cons] at hi
          rcases hi with h | h
          · exact h
          · exact absurd h hr
        refine ⟨n, ?_, ?_⟩
        · rw [h2 i hr, Remap.find_add, hip]; simp
        · rw [hk]; simp
    · intro i hi
      simp only [List.map_cons, List.mem_cons, not_or] at hi
      rw [h2 i hi.2, Remap.find_add]
      have : (p.1 == i) = false := by
        have := hi.1
        simp only [beq_eq_false_iff_ne, ne_eq]
        exact fun h => this h.symm
      simp [this]

theorem renumber_find (m : IMap (List Val)) (first : Int) (rm : Remap) :
    (∀ i ∈ m.map (·.1), ∃ j, (renumber m first rm).2.2.find i = some j ∧ j ∈ (renumber m first rm).1.map (·.1)) ∧
    (∀ i, i ∉ m.map (·.1) → (renumber m first rm).2.2.find i = rm.find i) := by
  rw [renumber_eq]
  exact renumber_find_fold m [] first rm

theorem renumber_keep (m : IMap (List Val)) (n : Int) (rm : Remap) (i : Int) (r : Option Int)
    (h : rm.find i = r) (hn : i ∉ m.map (·.1)) : (renumber m n rm).2.2.find i = r := by
  rw [(renumber_find m n rm).2 i hn, h]

/-! ## the six passes by name -/

def Db.p1 (db : Db) (first : Int) := renumber db.wrappers first []
def Db.p2 (db : Db) (first : Int) := renumber db.functions (db.p1 first).2.1 (db.p1 first).2.2
def Db.p3 (db : Db) (first : Int) := renumber db.types (db.p2 first).2.1 (db.p2 first).2.2
def Db.p4 (db : Db) (first : Int) := renumber db.manifests (db.p3 first).2.1 (db.p3 first).2.2
def Db.p5 (db : Db) (first : Int) := renumber db.elements (db.p4 first).2.1 (db.p4 first).2.2
def Db.p6 (db : Db) (first : Int) := renumber db.makeSeqs (db.p5 first).2.1 (db.p5 first).2.2

/-- the renumbered (not yet re-linked) map of a kind -/
def Db.pass (db : Db) (first : Int) : Kind → IMap (List Val)
  | .wrapper => (db.p1 first).1 | .function => (db.p2 first).1 | .type => (db.p3 first).1
  | .manifest => (db.p4 first).1 | .element => (db.p5 first).1 | .makeSeq => (db.p6 first).1

def Db.finalRm (db : Db) (first : Int) : Remap := (db.p6 first).2.2

theorem remapIndices_rm (sch : Schema) (rc : RemapCfg) (db : Db) (first : Int) :
    (db.remapIndices sch rc first).2 = db.finalRm first := rfl

theorem remapIndices_map (sch : Schema) (rc : RemapCfg) (db : Db) (first : Int) (k : Kind) :
    (db.remapIndices sch rc first).1.map k =
      (db.pass first k).map (fun p => (p.1, remapRec (db.finalRm first) (rc.of k) (sch.of k) p.2)) := by
  cases k <;> rfl

/-- no index is used by two kinds -/
def Db.kindsDisjointB (db : Db) : Bool :=
  allKinds.all fun k1 => allKinds.all fun k2 =>
    k1 == k2 || ((db.map k1).map (·.1)).all (fun i => !((db.map k2).map (·.1)).contains i)

theorem mem_allKinds (k : Kind) : k ∈ allKinds := by cases k <;> simp [allKinds]

theorem kindsDisjoint_spec (db : Db) (h : db.kindsDisjointB = true) (k1 k2 : Kind) (hne : k1 ≠ k2)
    (i : Int) (hi : i ∈ (db.map k1).map (·.1)) : i ∉ (db.map k2).map (·.1) := by
  unfold Db.kindsDisjointB at h
  rw [List.all_eq_true] at h
  have h1 := h k1 (mem_allKinds k1)
  rw [List.all_eq_true] at h1
  have h2 := h1 k2 (mem_allKinds k2)
  have hb : (k1 == k2) = false := by simpa using hne
  rw [hb, Bool.false_or, List.all_eq_true] at h2
  have h3 := h2 i hi
  intro hc
  have : ((db.map k2).map (·.1)).contains i = true := by simpa using hc
  rw [this] at h3
  exact absurd h3 (by decide)

/-- after the six passes every old key of a kind is mapped to a new key of the same kind -/
theorem finalRm_key (db : Db) (first : Int) (hd : db.kindsDisjointB = true) (k : Kind) (i : Int)
    (hi : i ∈ (db.map k).map (·.1)) :
    ∃ j, (db.finalRm first).find i = some j ∧ j ∈ (db.pass first k).map (·.1) := by
  have nd := fun k2 (hne : k ≠ k2) => kindsDisjoint_spec db hd k k2 hne i hi
  cases k with
  | wrapper =>
    obtain ⟨j, hj, hm⟩ := (renumber_find db.wrappers first []).1 i hi
    refine ⟨j, ?_, hm⟩
    have h2 := renumber_keep db.functions (db.p1 first).2.1 _ i _ hj (nd .function (by decide))
    have h3 := renumber_keep db.types (db.p2 first).2.1 _ i _ h2 (nd .type (by decide))
    have h4 := renumber_keep db.manifests (db.p3 first).2.1 _ i _ h3 (nd .manifest (by decide))
    have h5 := renumber_keep db.elements (db.p4 first).2.1 _ i _ h4 (nd .element (by decide))
    exact renumber_keep db.makeSeqs (db.p5 first).2.1 _ i _ h5 (nd .makeSeq (by decide))
  | function =>
    obtain ⟨j, hj, hm⟩ := (renumber_find db.functions (db.p1 first).2.1 (db.p1 first).2.2).1 i hi
    refine ⟨j, ?_, hm⟩
    have h3 := renumber_keep db.types (db.p2 first).2.1 _ i _ hj (nd .type (by decide))
    have h4 := renumber_keep db.manifests (db.p3 first).2.1 _ i _ h3 (nd .manifest (by decide))
    have h5 := renumber_keep db.elements (db.p4 first).2.1 _ i _ h4 (nd .element (by decide))
    exact renumber_keep db.makeSeqs (db.p5 first).2.1 _ i _ h5 (nd .makeSeq (by decide))
  | type =>
    obtain ⟨j, hj, hm⟩ := (renumber_find db.types (db.p2 first).2.1 (db.p2 first).2.2).1 i hi
    refine ⟨j, ?_, hm⟩
    have h4 := renumber_keep db.manifests (db.p3 first).2.1 _ i _ hj (nd .manifest (by decide))
    have h5 := renumber_keep db.elements (db.p4 first).2.1 _ i _ h4 (nd .element (by decide))
    exact renumber_keep db.makeSeqs (db.p5 first).2.1 _ i _ h5 (nd .makeSeq (by decide))
  | manifest =>
    obtain ⟨j, hj, hm⟩ := (renumber_find db.manifests (db.p3 first).2.1 (db.p3 first).2.2).1 i hi
    refine ⟨j, ?_, hm⟩
    have h5 := renumber_keep db.elements (db.p4 first).2.1 _ i _ hj (nd .element (by decide))
    exact renumber_keep db.makeSeqs (db.p5 first).2.1 _ i _ h5 (nd .makeSeq (by decide))
  | element =>
    obtain ⟨j, hj, hm⟩ := (renumber_find db.elements (db.p4 first).2.1 (db.p4 first).2.2).1 i hi
    refine ⟨j, ?_, hm⟩
    exact renumber_keep db.makeSeqs (db.p5 first).2.1 _ i _ hj (nd .makeSeq (by decide))
  | makeSeq =>
    obtain ⟨j, hj, hm⟩ := (renumber_find db.makeSeqs (db.p5 first).2.1 (db.p5 first).2.2).1 i hi
    exact ⟨j, hj, hm⟩

/-- an index that no kind uses is left alone -/
theorem finalRm_other (db : Db) (first : Int) (i : Int) (hn : ∀ k, i ∉ (db.map k).map (·.1)) :
    (db.finalRm first).mapFrom i = i := by
  have h1 := renumber_keep db.wrappers first [] i none rfl (hn .wrapper)
  have h2 := renumber_keep db.functions (db.p1 first).2.1 _ i _ h1 (hn .function)
  have h3 := renumber_keep db.types (db.p2 first).2.1 _ i _ h2 (hn .type)
  have h4 := renumber_keep db.manifests (db.p3 first).2.1 _ i _ h3 (hn .manifest)
  have h5 := renumber_keep db.elements (db.p4 first).2.1 _ i _ h4 (hn .element)
  have h6 := renumber_keep db.makeSeqs (db.p5 first).2.1 _ i _ h5 (hn .makeSeq)
  have h6' : (db.finalRm first).find i = none := h6
  unfold Remap.mapFrom
  rw [h6']; rfl

/-! ## closedness as a proposition -/

def Db.RefsOk (sch : Schema) (ic : IndexCfg) (db : Db) : Prop :=
  ∀ k, ∀ p ∈ db.map k, ∀ tv ∈ refsRec (ic.of k) (sch.of k) p.2, tv.2 = 0 ∨ tv.2 ∈ db.keys tv.1

def Db.EnumsOk (db : Db) : Prop :=
  (∀ i ∈ db.globalTypes, i ∈ db.keys "type") ∧ (∀ i ∈ db.allTypes, i ∈ db.keys "type") ∧
  (∀ i ∈ db.globalFunctions, i ∈ db.keys "function") ∧ (∀ i ∈ db.allFunctions, i ∈ db.keys "function") ∧
  (∀ i ∈ db.globalManifests, i ∈ db.keys "manifest") ∧ (∀ i ∈ db.globalElements, i ∈ db.keys "element")

theorem danglingRefs_nil_iff (sch : Schema) (ic : IndexCfg) (db : Db) :
    db.danglingRefs sch ic = [] ↔ db.RefsOk sch ic := by
  unfold Db.danglingRefs Db.RefsOk
  simp only [List.flatMap_eq_nil_iff, List.map_eq_nil_iff, List.filter_eq_nil_iff]
  constructor
  · intro h k p hp tv htv
    have := h k (mem_allKinds k) p hp tv htv
    by_cases h0 : tv.2 = 0
    · exact Or.inl h0
    · right
      have hb : (tv.2 != 0) = true := by simpa using h0
      rw [hb, Bool.true_and] at this
      simpa using this
  · intro h k _ p hp tv htv
    rcases h k p hp tv htv with h0 | hm
    · simp [h0]
    · simp [hm]

theorem danglingEnums_nil_iff (db : Db) : db.danglingEnums = [] ↔ db.EnumsOk := by
  unfold Db.danglingEnums Db.EnumsOk
  simp only [List.append_eq_nil_iff, List.map_eq_nil_iff, List.filter_eq_nil_iff, Bool.not_eq_true', and_assoc]
  simp

theorem closedB_iff (sch : Schema) (ic : IndexCfg) (db : Db) :
    db.closedB sch ic = true ↔ db.RefsOk sch ic ∧ db.EnumsOk := by
  unfold Db.closedB
  rw [Bool.and_eq_true, List.isEmpty_iff, List.isEmpty_iff, danglingRefs_nil_iff, danglingEnums_nil_iff]

/-! ## the theorem -/

theorem keys_remap (sch : Schema) (rc : RemapCfg) (db : Db) (first : Int) (k : Kind) :
    ((db.remapIndices sch rc first).1.map k).map (·.1) = (db.pass first k).map (·.1) := by
  rw [remapIndices_map, map_keys_fix]

theorem pass_records (db : Db) (first : Int) (k : Kind) :
    (db.pass first k).map (·.2) = (db.map k).map (·.2) := by
  cases k <;> exact (renumber_spec _ _ _).2.1

/-- a valid reference stays valid -/
theorem key_remap (sch : Schema) (rc : RemapCfg) (db : Db) (first : Int)
    (hd : db.kindsDisjointB = true) (t : String) (v : Int) (h : v ∈ db.keys t) :
    (db.finalRm first).mapFrom v ∈ (db.remapIndices sch rc first).1.keys t := by
  unfold Db.keys at h ⊢
  cases hk : Kind.ofString t with
  | none => rw [hk] at h; simp at h
  | some k =>
    rw [hk] at h
    simp only
    obtain ⟨j, hj, hm⟩ := finalRm_key db first hd k v h
    rw [keys_remap]
    unfold Remap.mapFrom
    rw [hj]
    exact hm

/-- a reference that was none or valid is none or valid after remapping -/
theorem ref_remap (sch : Schema) (rc : RemapCfg) (db : Db) (first : Int)
    (hd : db.kindsDisjointB = true) (h0 : ∀ k, (0 : Int) ∉ (db.map k).map (·.1))
    (t : String) (v : Int) (h : v = 0 ∨ v ∈ db.keys t) :
    (db.finalRm first).mapFrom v = 0 ∨ (db.finalRm first).mapFrom v ∈ (db.remapIndices sch rc first).1.keys t := by
  rcases h with h | h
  · left; subst h; exact finalRm_other db first 0 h0
  · exact Or.inr (key_remap sch rc db first hd t v h)

/-- **`remap_indices` keeps a closed database closed**, provided every index-typed member is one
the class's `remap_indices()` remaps (`hcov`; decided for the extracted lists by
`c11_field_coverage`), no index is used by two kinds and 0 ("none") is not an index. -/
theorem closed_remap (sch : Schema) (ic : IndexCfg) (rc : RemapCfg) (db : Db) (first : Int)
    (hcov : ∀ k, Covers (ic.of k) (rc.of k))
    (hd : db.kindsDisjointB = true) (h0 : ∀ k, (0 : Int) ∉ (db.map k).map (·.1))
    (hcl : db.closedB sch ic = true) :
    (db.remapIndices sch rc first).1.closedB sch ic = true := by
  rw [closedB_iff] at hcl ⊢
  obtain ⟨hr, he⟩ := hcl
  refine ⟨?_, ?_⟩
  · intro k p' hp' tv' htv'
    rw [remapIndices_map] at hp'
    obtain ⟨p, hp, rfl⟩ := List.mem_map.mp hp'
    have hrec : p.2 ∈ (db.pass first k).map (·.2) := List.mem_map.mpr ⟨p, hp, rfl⟩
    rw [pass_records] at hrec
    obtain ⟨p0, hp0, hp0e⟩ := List.mem_map.mp hrec
    simp only at htv'
    rw [refsRec_remap _ _ _ (hcov k)] at htv'
    obtain ⟨tv, htv, rfl⟩ := List.mem_map.mp htv'
    rw [← hp0e] at htv
    exact ref_remap sch rc db first hd h0 tv.1 tv.2 (hr k p0 hp0 tv htv)
  · obtain ⟨e1, e2, e3, e4, e5, e6⟩ := he
    have key : ∀ (t : String) (l : List Int), (∀ i ∈ l, i ∈ db.keys t) →
        ∀ i ∈ l.map (db.finalRm first).mapFrom, i ∈ (db.remapIndices sch rc first).1.keys t := by
      intro t l hl i hi
      obtain ⟨i0, _, rfl⟩ := List.mem_map.mp hi
      exact key_remap sch rc db first hd t i0 (hl i0 ‹_›)
    exact ⟨key "type" _ e1, key "type" _ e2, key "function" _ e3, key "function" _ e4,
      key "manifest" _ e5, key "element" _ e6⟩

/-- coverage is decidable on concrete member lists -/
theorem covers_of_all (im : List (String × String)) (members : List String)
    (h : (im.all fun m => members.contains m.1) = true) : Covers im members := by
  intro n t ht
  unfold targetOf at ht
  cases hf : im.find? (fun p => p.1 == n) with
  | none => rw [hf] at ht; simp at ht
  | some p =>
    have hmem := List.mem_of_find?_eq_some hf
    have hp := List.find?_some hf
    have hn : p.1 = n := by simpa using hp
    rw [List.all_eq_true] at h
    have := h p hmem
    rw [hn] at this
    exact this

end IgVerif
