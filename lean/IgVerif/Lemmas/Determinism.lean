import IgVerif.Model.Determinism
namespace IgVerif.Det

theorem lexLt_irrefl : ∀ a, lexLt a a = false
  | [] => rfl
  | x :: xs => by simp [lexLt, lexLt_irrefl xs]

theorem lexLt_asymm : ∀ a b, lexLt a b = true → lexLt b a = false
  | [], [], h => by simp [lexLt] at h
  | [], _ :: _, _ => by simp [lexLt]
  | _ :: _, [], h => by simp [lexLt] at h
  | x :: xs, y :: ys, h => by
    simp only [lexLt] at h ⊢
    by_cases h1 : x < y
    · have : ¬ y < x := by omega
      simp only [this, if_false, h1, if_true]
    · simp only [h1, if_false] at h
      by_cases h2 : y < x
      · simp [h2] at h
      · simp only [h2, if_false] at h ⊢
        simp only [h1, if_false]
        exact lexLt_asymm xs ys h

theorem lexLt_trans : ∀ a b c, lexLt a b = true → lexLt b c = true → lexLt a c = true
  | [], [], _, h, _ => by simp [lexLt] at h
  | [], _ :: _, [], _, h => by simp [lexLt] at h
  | [], _ :: _, _ :: _, _, _ => by simp [lexLt]
  | _ :: _, [], _, h, _ => by simp [lexLt] at h
  | _ :: _, _ :: _, [], _, h => by simp [lexLt] at h
  | x :: xs, y :: ys, z :: zs, h1, h2 => by
    simp only [lexLt] at h1 h2 ⊢
    by_cases hxy : x < y
    · by_cases hyz : y < z
      · have : x < z := by omega
        simp [this]
      · simp only [hyz, if_false] at h2
        by_cases hzy : z < y
        · simp [hzy] at h2
        · have : x < z := by omega
          simp [this]
    · simp only [hxy, if_false] at h1
      by_cases hyx : y < x
      · simp [hyx] at h1
      · simp only [hyx, if_false] at h1
        have exy : x = y := by omega
        subst exy
        by_cases hyz : x < z
        · simp [hyz]
        · simp only [hyz, if_false] at h2 ⊢
          by_cases hzy : z < x
          · simp [hzy] at h2
          · simp only [hzy, if_false] at h2 ⊢
            exact lexLt_trans xs ys zs h1 h2

/-- trichotomy: keys that are not ordered either way are equal -/
theorem lexLt_tri : ∀ a b, lexLt a b = false → lexLt b a = false → a = b
  | [], [], _, _ => rfl
  | [], _ :: _, h, _ => by simp [lexLt] at h
  | _ :: _, [], _, h => by simp [lexLt] at h
  | x :: xs, y :: ys, h1, h2 => by
    simp only [lexLt] at h1 h2
    by_cases hxy : x < y
    · simp [hxy] at h1
    · by_cases hyx : y < x
      · simp [hyx] at h2
      · simp only [hxy, hyx, if_false] at h1 h2
        have : x = y := by omega
        subst this
        rw [lexLt_tri xs ys h1 h2]

/-- negative transitivity, i.e. `¬<` is transitive -/
theorem lexLe_trans (a b c : List Int) (h1 : lexLt b a = false) (h2 : lexLt c b = false) : lexLt c a = false := by
  cases hca : lexLt c a with
  | false => rfl
  | true =>
    -- c < a; compare b with c
    cases hbc : lexLt b c with
    | true =>
      have := lexLt_trans b c a hbc hca
      rw [h1] at this; exact absurd this (by simp)
    | false =>
      have e : b = c := lexLt_tri b c hbc h2
      subst e
      rw [h1] at hca; exact absurd hca (by simp)

theorem map_inj {α β : Type} (f : α → β) (hf : ∀ x y, f x = f y → x = y) : ∀ (a b : List α), a.map f = b.map f → a = b
  | [], [], _ => rfl
  | [], _ :: _, h => by simp at h
  | _ :: _, [], h => by simp at h
  | x :: xs, y :: ys, h => by
    simp only [List.map_cons, List.cons.injEq] at h
    rw [hf x y h.1, map_inj f hf xs ys h.2]

theorem key_injective_on_sig (a b : Remap) (h : key a = key b) : a = b := by
  obtain ⟨ca, ra, sa⟩ := a
  obtain ⟨cb, rb, sb⟩ := b
  simp only [key, List.cons_append, List.nil_append, List.cons.injEq, List.append_assoc] at h
  obtain ⟨h1, h2, h3⟩ := h
  have hc : ca = cb := by cases ca <;> cases cb <;> simp_all
  have hlen : ra.length = rb.length := by omega
  have hl : (ra.map fun (k : Nat) => -(k : Int)).length = (rb.map fun (k : Nat) => -(k : Int)).length := by simp [hlen]
  have := List.append_inj h3 hl
  obtain ⟨hr, hs⟩ := this
  have hr' : ra = rb := by
    apply map_inj _ _ _ _ hr
    intro x y hxy
    omega
  have hs' : sa = sb := by
    simp only [List.cons.injEq, true_and] at hs
    apply map_inj _ _ _ _ hs
    intro x y hxy
    omega
  simp [hc, hr', hs']

end IgVerif.Det
