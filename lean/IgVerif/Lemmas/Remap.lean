import IgVerif.Model.Closed
/-! `remap_indices` numbers the six maps consecutively, wrappers first. -/
namespace IgVerif

def consec : Int → Nat → List Int
  | _, 0 => []
  | n, k+1 => n :: consec (n + 1) k

theorem consecutiveFrom_consec (n : Int) (k : Nat) : consecutiveFrom n (consec n k) = true := by
  induction k generalizing n with
  | zero => rfl
  | succ k ih => simp [consec, consecutiveFrom, ih]

theorem consec_append (n : Int) (a b : Nat) : consec n (a + b) = consec n a ++ consec (n + a) b := by
  induction a generalizing n with
  | zero => simp [consec]
  | succ a ih =>
    have : a + 1 + b = (a + b) + 1 := by omega
    rw [this]
    simp only [consec, List.cons_append, ih]
    have e : n + 1 + (a : Int) = n + ((a + 1 : Nat) : Int) := by push_cast; omega
    rw [e]

theorem consec_succ_right (n : Int) (k : Nat) : consec n (k + 1) = consec n k ++ [n + k] := by
  have := consec_append n k 1
  simpa [consec] using this

def renumberStep (acc : IMap (List Val) × Int × Remap) (p : Int × List Val) : IMap (List Val) × Int × Remap :=
  (acc.1 ++ [(acc.2.1, p.2)], acc.2.1 + 1, acc.2.2.add p.1 acc.2.1)

theorem renumber_eq (m : IMap (List Val)) (first : Int) (rm : Remap) :
    renumber m first rm = m.foldl renumberStep ([], first, rm) := rfl

theorem renumber_fold (m : IMap (List Val)) (acc : IMap (List Val)) (n : Int) (rm : Remap) :
    ((m.foldl renumberStep (acc, n, rm)).1.map (·.1) = acc.map (·.1) ++ consec n m.length) ∧
    ((m.foldl renumberStep (acc, n, rm)).1.map (·.2) = acc.map (·.2) ++ m.map (·.2)) ∧
    (m.foldl renumberStep (acc, n, rm)).2.1 = n + m.length := by
  induction m generalizing acc n rm with
  | nil => simp [consec]
  | cons p rest ih =>
    simp only [List.foldl_cons, renumberStep]
    obtain ⟨h1, h2, h3⟩ := ih (acc ++ [(n, p.2)]) (n + 1) (rm.add p.1 n)
    refine ⟨?_, ?_, ?_⟩
    · rw [h1]; simp [consec]
    · rw [h2]; simp
    · rw [h3]; simp only [List.length_cons]; omega

/-- keys of a renumbered map are `first, first+1, …`, the records are unchanged
and in the same order, and the next free index is `first + size`. -/
theorem renumber_spec (m : IMap (List Val)) (first : Int) (rm : Remap) :
    (renumber m first rm).1.map (·.1) = consec first m.length ∧
    (renumber m first rm).1.map (·.2) = m.map (·.2) ∧
    (renumber m first rm).2.1 = first + m.length := by
  rw [renumber_eq]
  have := renumber_fold m [] first rm
  simpa using this

theorem map_keys_fix (m : IMap (List Val)) (f : Int × List Val → List Val) :
    (m.map (fun p => (p.1, f p))).map (·.1) = m.map (·.1) := by
  induction m with
  | nil => rfl
  | cons p rest ih => simp [ih]

theorem remapIndices_wrappers (sch : Schema) (rc : RemapCfg) (db : Db) (first : Int) :
    (db.remapIndices sch rc first).1.wrappers.map (·.1) = consec first db.wrappers.length := by
  unfold Db.remapIndices
  simp only [map_keys_fix]
  exact (renumber_spec db.wrappers first []).1

theorem remapIndices_ranges (sch : Schema) (rc : RemapCfg) (db : Db) (first : Int) :
    let r := (db.remapIndices sch rc first).1
    r.functions.map (·.1) = consec (first + db.wrappers.length) db.functions.length ∧
    r.types.map (·.1) = consec (first + db.wrappers.length + db.functions.length) db.types.length ∧
    r.nextIndex = first + db.wrappers.length + db.functions.length + db.types.length +
      db.manifests.length + db.elements.length + db.makeSeqs.length := by
  unfold Db.remapIndices
  simp only [map_keys_fix]
  have hw := renumber_spec db.wrappers first []
  have hf := renumber_spec db.functions (renumber db.wrappers first []).2.1 (renumber db.wrappers first []).2.2
  have ht := renumber_spec db.types (renumber db.functions (renumber db.wrappers first []).2.1 (renumber db.wrappers first []).2.2).2.1
    (renumber db.functions (renumber db.wrappers first []).2.1 (renumber db.wrappers first []).2.2).2.2
  refine ⟨?_, ?_, ?_⟩
  · rw [hf.1, hw.2.2]
  · rw [ht.1, hf.2.2, hw.2.2]
  · simp only [(renumber_spec _ _ _).2.2]

end IgVerif
