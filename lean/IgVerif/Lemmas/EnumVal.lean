import IgVerif.Model.EnumVal
namespace IgVerif.EnumVal

theorem next_none_eval (ρ : Nat → Int) (last : Ex) : (next (some last) none).eval ρ = last.eval ρ + 1 := by
  cases last with
  | lit n => simp [next, Ex.eval]
  | sym i => simp [next, Ex.eval]
  | add a b =>
    cases b with
    | lit n => simp [next, Ex.eval]; omega
    | sym i => simp [next, Ex.eval]
    | add c d => simp [next, Ex.eval]

/-- [dcl.enum]/2 as a function of the written initialisers -/
def spec (ρ : Nat → Int) : Option Int → List (Option Ex) → List Int
  | _, [] => []
  | prev, some e :: gs => e.eval ρ :: spec ρ (some (e.eval ρ)) gs
  | none, none :: gs => 0 :: spec ρ (some 0) gs
  | some p, none :: gs => (p + 1) :: spec ρ (some (p + 1)) gs

theorem elements_spec (ρ : Nat → Int) (last : Option Ex) (gs : List (Option Ex)) :
    (elements last gs).map (Ex.eval ρ) = spec ρ (last.map (Ex.eval ρ)) gs := by
  induction gs generalizing last with
  | nil => rfl
  | cons g gs ih =>
    cases g with
    | some e =>
      simp only [elements, next, List.map_cons, spec]
      rw [ih]; rfl
    | none =>
      cases last with
      | none =>
        simp only [elements, List.map_cons, spec, Option.map_none]
        rw [ih]; rfl
      | some l =>
        simp only [elements, List.map_cons, spec, Option.map_some]
        rw [ih, next_none_eval]; simp only [Option.map_some, next_none_eval]

end IgVerif.EnumVal
