import IgVerif.Model.SkipScan
namespace IgVerif.Skip

theorem solAfter_quote (sol : Bool) : solAfter sol 34 = false := by cases sol <;> decide

/-- a string body without quote, newline or backslash is read through to its closing quote;
the quote, not being white space, leaves `_start_of_line` false -/
theorem skipString_clean (body post : List Nat) (hb : ∀ c ∈ body, c ≠ 34 ∧ c ≠ 10 ∧ c ≠ 92)
    (fuel : Nat) (hf : body.length < fuel) (sol : Bool) :
    skipString fuel (get sol (body ++ 34 :: post)) = ⟨some 34, false, post⟩ := by
  induction body generalizing fuel sol with
  | nil =>
    cases fuel with
    | zero => simp at hf
    | succ fuel => simp [get, skipString, solAfter_quote]
  | cons b body ih =>
    cases fuel with
    | zero => simp at hf
    | succ fuel =>
      have hb1 := hb b (List.mem_cons_self ..)
      have h := ih (fun c hc => hb c (List.mem_cons_of_mem _ hc)) fuel (by simp at hf; omega) (solAfter sol b)
      simp only [List.cons_append, get, skipString]
      split
      · rename_i heq; simp at heq
      · rename_i heq; simp at heq; exact absurd heq hb1.2.1
      · rename_i heq; simp at heq; exact absurd heq hb1.1
      · rename_i heq; simp at heq; exact absurd heq hb1.2.2
      · simpa [get] using h

/-- **The text of a string literal in a skipped group is irrelevant**: whatever it contains
(comment openers, `#`, directive names), scanning resumes after the closing quote in the same
state. -/
theorem skipGroup_string (fuel level : Nat) (sol : Bool) (body post : List Nat)
    (hb : ∀ c ∈ body, c ≠ 34 ∧ c ≠ 10 ∧ c ≠ 92) :
    skipGroup (fuel + 1) level ⟨some 34, sol, body ++ 34 :: post⟩ =
      skipGroup fuel level (skipComment (post.length + 1) (get false post)) := by
  have h := skipString_clean body post hb ((body ++ 34 :: post).length + 1) (by simp; omega) sol
  have h35 : ((34 : Nat) == 35) = false := by decide
  simp only [skipGroup, h35, Bool.false_and, Bool.false_eq_true, if_false, BEq.rfl, if_true, h]

/-- the text contains no `*/` -/
def noClose : List Nat → Bool
  | [] => true
  | 42 :: 47 :: _ => false
  | _ :: r => noClose r

theorem noClose_tail (b : Nat) (body : List Nat) (h : noClose (b :: body) = true) : noClose body = true := by
  unfold noClose at h
  split at h
  · rename_i heq; simp at heq
  · simp at h
  · rename_i heq
    simp only [List.cons.injEq] at heq
    rw [heq.2]; exact h

theorem noClose_star (body : List Nat) (h : noClose (42 :: body) = true) : body.head? ≠ some 47 := by
  intro hh
  cases body with
  | nil => simp at hh
  | cons x r =>
    simp only [List.head?_cons, Option.some.injEq] at hh
    subst hh
    simp [noClose] at h

/-- a block comment whose text contains no `*/` is read through to its end, whatever else it
contains; `_start_of_line` afterwards is what `get()` makes of the characters read -/
theorem get_cons (sol : Bool) (c : Nat) (r : List Nat) : get sol (c :: r) = ⟨some c, solAfter sol c, r⟩ := rfl

theorem skipC_clean (body post : List Nat) (hb : noClose body = true) (fuel : Nat) (hf : body.length + 1 < fuel) (sol : Bool) :
    skipC fuel (get sol (body ++ 42 :: 47 :: post)) = get ((body ++ [42, 47]).foldl solAfter sol) post := by
  induction body generalizing fuel sol with
  | nil =>
    match fuel, hf with
    | fuel + 1, _ =>
      simp only [List.nil_append, get_cons, skipC, BEq.rfl, if_true, List.foldl_cons, List.foldl_nil]
  | cons b body ih =>
    match fuel, hf with
    | fuel + 1, hf =>
      have hfl : body.length + 1 < fuel := by simp at hf; omega
      have ih' := ih (noClose_tail b body hb) fuel hfl (solAfter sol b)
      rw [List.cons_append, get_cons, List.cons_append, List.foldl_cons]
      by_cases e : b = 42
      · subst e
        have hne := noClose_star body hb
        have hc : ((get (solAfter sol 42) (body ++ 42 :: 47 :: post)).c == some 47) = false := by
          cases body with
          | nil => simp [get_cons]
          | cons x r =>
            simp only [List.head?_cons, ne_eq, Option.some.injEq] at hne
            simp [get_cons, hne]
        simp only [skipC, hc, Bool.false_eq_true, if_false]
        exact ih'
      · unfold skipC
        split
        · rename_i heq; simp at heq
        · rename_i heq; simp at heq; exact absurd heq e
        · exact ih'

/-- **The text of a block comment in a skipped group is irrelevant** except for the line breaks
in it: directive names, `#`, quotes and `//` inside it are not seen. -/
theorem skipComment_block (fuel : Nat) (sol : Bool) (body post : List Nat) (hb : noClose body = true) :
    skipComment (fuel + 1) ⟨some 47, sol, 42 :: (body ++ 42 :: 47 :: post)⟩ =
      skipComment fuel (get ((body ++ [42, 47]).foldl solAfter (solAfter sol 42)) post) := by
  simp only [skipComment, BEq.rfl, if_true]
  rw [skipC_clean body post hb _ (by simp)]

end IgVerif.Skip

namespace IgVerif.Skip

theorem word_endif : word "endif" = [101, 110, 100, 105, 102] := by decide
theorem word_if : word "if" = [105, 102] := by decide
theorem word_ifdef : word "ifdef" = [105, 102, 100, 101, 102] := by decide
theorem word_ifndef : word "ifndef" = [105, 102, 110, 100, 101, 102] := by decide
theorem word_else : word "else" = [101, 108, 115, 101] := by decide
theorem word_elif : word "elif" = [101, 108, 105, 102] := by decide
theorem word_elifdef : word "elifdef" = [101, 108, 105, 102, 100, 101, 102] := by decide
theorem word_elifndef : word "elifndef" = [101, 108, 105, 102, 110, 100, 101, 102] := by decide

/-- **`#endif` at the start of a line ends the group** it belongs to: at nesting level 0 the
scanner stops there, whatever follows -/
theorem skipGroup_endif (fuel : Nat) (post : List Nat) :
    skipGroup (fuel + 1) 0 ⟨some 35, true, [101, 110, 100, 105, 102, 10] ++ post⟩ = (.endif, ⟨some 10, true, post⟩) := by
  simp [skipGroup, get, solAfter, isSpace, skipWs, skipComment, readWord, isAlnum, skipBlanks, readArgs,
    word_endif, word_if, word_ifdef, word_ifndef, word_else, word_elif, word_elifdef, word_elifndef]

/-- … and one level down it only closes the inner conditional -/
theorem skipGroup_endif_nested (fuel level : Nat) (post : List Nat) :
    skipGroup (fuel + 1) (level + 1) ⟨some 35, true, [101, 110, 100, 105, 102, 10] ++ post⟩ =
      skipGroup fuel level ⟨some 10, true, post⟩ := by
  simp [skipGroup, get, solAfter, isSpace, skipWs, skipComment, readWord, isAlnum, skipBlanks, readArgs,
    word_endif, word_if, word_ifdef, word_ifndef, word_else, word_elif, word_elifdef, word_elifndef]

/-- `#if…` opens a nested conditional: the level goes up and the rest of its line is skipped
(here: a condition without comments, quotes or backslashes) -/
theorem skipGroup_if_nested (fuel level : Nat) (post : List Nat) :
    skipGroup (fuel + 1) level ⟨some 35, true, [105, 102, 32, 49, 10] ++ post⟩ =
      skipGroup fuel (level + 1) ⟨some 10, true, post⟩ := by
  simp [skipGroup, get, solAfter, isSpace, skipWs, skipComment, readWord, isAlnum, skipBlanks, readArgs,
    word_endif, word_if, word_ifdef, word_ifndef, word_else, word_elif, word_elifdef, word_elifndef]

/-- `#else` at the start of a line, at nesting level 0, ends the skipped group (the reader then
decides whether the `#else` group is taken) -/
theorem skipGroup_else (fuel : Nat) (post : List Nat) :
    skipGroup (fuel + 1) 0 ⟨some 35, true, [101, 108, 115, 101, 10] ++ post⟩ = (.els, ⟨some 10, true, post⟩) := by
  simp [skipGroup, get, solAfter, isSpace, skipWs, skipComment, readWord, isAlnum, skipBlanks, readArgs,
    word_endif, word_if, word_ifdef, word_ifndef, word_else, word_elif, word_elifdef, word_elifndef]

/-- … and inside a nested conditional it is passed over: the level stays -/
theorem skipGroup_else_nested (fuel level : Nat) (post : List Nat) :
    skipGroup (fuel + 1) (level + 1) ⟨some 35, true, [101, 108, 115, 101, 10] ++ post⟩ =
      skipGroup fuel (level + 1) ⟨some 10, true, post⟩ := by
  simp [skipGroup, get, solAfter, isSpace, skipWs, skipComment, readWord, isAlnum, skipBlanks, readArgs,
    word_endif, word_if, word_ifdef, word_ifndef, word_else, word_elif, word_elifdef, word_elifndef]

/-- a `#` that is not the first character of its line is not a directive, whatever follows it -/
theorem skipGroup_hash_midline (fuel level : Nat) (rest : List Nat) :
    skipGroup (fuel + 1) level ⟨some 35, false, rest⟩ =
      skipGroup fuel level (skipComment (rest.length + 1) (get false rest)) := by
  simp [skipGroup]

end IgVerif.Skip
