import IgVerif.Model.Expr
/-! `evaluate` computes what C++ computes whenever the latter is defined within `int`. -/
namespace IgVerif.Ex

theorem wrap32_id (x : Int) (h : inInt x = true) : wrap32 x = x := by
  simp [inInt, intMin, intMax] at h
  have h1 := of_decide_eq_true h.1
  have h2 := of_decide_eq_true h.2
  unfold wrap32
  rw [BitVec.toInt_ofInt]
  unfold Int.bmod
  simp only [Nat.reducePow]
  have e : ((4294967296 : Nat) : Int) = 4294967296 := rfl
  rw [e]
  split <;> omega

theorem chk_some {x v : Int} (h : chk x = some v) : v = x ∧ inInt x = true := by
  unfold chk at h
  split at h
  · rename_i hi; simp at h; exact ⟨h.symm, hi⟩
  · simp at h

theorem inInt_b2i (b : Bool) : inInt (b2i b) = true := by cases b <;> decide

theorem inInt_one : inInt 1 = true := by decide
theorem inInt_zero : inInt 0 = true := by decide

theorem cxxBin_inInt {op : BinOp} {x y v : Int} (hy : inInt y = true) (h : cxxBin op x y = some v) :
    inInt v = true := by
  cases op <;> simp only [cxxBin] at h
  case mul => obtain ⟨e, hi⟩ := chk_some h; rw [e]; exact hi
  case div => split at h; · simp at h
              · obtain ⟨e, hi⟩ := chk_some h; rw [e]; exact hi
  case mod => split at h; · simp at h
              · obtain ⟨e, hi⟩ := chk_some h; rw [e]; exact hi
  case add => obtain ⟨e, hi⟩ := chk_some h; rw [e]; exact hi
  case sub => obtain ⟨e, hi⟩ := chk_some h; rw [e]; exact hi
  case shl => split at h
              · obtain ⟨e, hi⟩ := chk_some h; rw [e]; exact hi
              · simp at h
  case shr => split at h
              · obtain ⟨e, hi⟩ := chk_some h; rw [e]; exact hi
              · simp at h
  case band => obtain ⟨e, hi⟩ := chk_some h; rw [e]; exact hi
  case bxor => obtain ⟨e, hi⟩ := chk_some h; rw [e]; exact hi
  case bor => obtain ⟨e, hi⟩ := chk_some h; rw [e]; exact hi
  case comma => simp at h; rw [← h]; exact hy
  all_goals (simp at h; rw [← h]; exact inInt_b2i _)

theorem cxxEval_inInt (e : Expr) : ∀ v, cxxEval e = some v → inInt v = true := by
  induction e with
  | int n => intro v h; simp only [cxxEval] at h; obtain ⟨e, hi⟩ := chk_some h; rw [e]; exact hi
  | bool b => intro v h; simp only [cxxEval] at h; simp at h; rw [← h]; exact inInt_b2i _
  | unknown => intro v h; simp [cxxEval] at h
  | un op e ih =>
    intro v h
    simp only [cxxEval] at h
    cases hx : cxxEval e with
    | none => simp [hx] at h
    | some x =>
      simp only [hx] at h
      cases op <;> simp only at h
      · simp at h; rw [← h]; exact inInt_b2i _
      · obtain ⟨e', hi⟩ := chk_some h; rw [e']; exact hi
      · obtain ⟨e', hi⟩ := chk_some h; rw [e']; exact hi
      · simp at h; rw [← h]; exact ih x hx
  | bin op a b iha ihb =>
    intro v h
    cases ha : cxxEval a with
    | none => cases op <;> simp [cxxEval, ha] at h
    | some x =>
      cases hb : cxxEval b with
      | none =>
        cases op <;> simp only [cxxEval, ha, hb] at h <;> try (simp at h)
        · rw [← h.2]; exact inInt_zero
        · rw [← h.2]; exact inInt_one
      | some y =>
        have hy := ihb y hb
        cases op <;> simp only [cxxEval, ha, hb] at h
        case land =>
          split at h
          · simp at h; rw [← h]; exact inInt_zero
          · simp at h; rw [← h]; exact inInt_b2i _
        case lor =>
          split at h
          · simp at h; rw [← h]; exact inInt_one
          · simp at h; rw [← h]; exact inInt_b2i _
        all_goals exact cxxBin_inInt hy h
  | tern c a b _ iha ihb =>
    intro v h
    simp only [cxxEval] at h
    cases hc : cxxEval c with
    | none => simp [hc] at h
    | some x =>
      simp only [hc] at h
      split at h
      · exact iha v h
      · exact ihb v h
  | cast k e _ =>
    intro v h
    simp only [cxxEval] at h
    cases hx : cxxEval e with
    | none => simp [hx] at h
    | some x =>
      simp only [hx] at h
      cases hc : cxxCast k x with
      | none => simp [hc] at h
      | some w =>
        simp only [hc, Option.bind] at h
        obtain ⟨e', hi⟩ := chk_some h; rw [e']; exact hi

theorem binInt_of_cxxBin {op : BinOp} {x y v : Int} (h : cxxBin op x y = some v) : binInt op x y = .int v := by
  cases op <;> simp only [cxxBin] at h <;> simp only [binInt]
  case mul => obtain ⟨e, hi⟩ := chk_some h; rw [wrap32_id _ hi, e]
  case div =>
    split at h
    · simp at h
    · rename_i hc; obtain ⟨e, _⟩ := chk_some h; simp only [hc, Bool.false_eq_true, if_false, e]
  case mod =>
    split at h
    · simp at h
    · rename_i hc; obtain ⟨e, _⟩ := chk_some h; simp only [hc, Bool.false_eq_true, if_false, e]
  case add => obtain ⟨e, hi⟩ := chk_some h; rw [wrap32_id _ hi, e]
  case sub => obtain ⟨e, hi⟩ := chk_some h; rw [wrap32_id _ hi, e]
  case shl =>
    split at h
    · rename_i hc
      obtain ⟨e, hi⟩ := chk_some h
      have : y % 32 = y := by omega
      rw [this, wrap32_id _ hi, e]
    · simp at h
  case shr =>
    split at h
    · rename_i hc
      obtain ⟨e, _⟩ := chk_some h
      have : y % 32 = y := by omega
      rw [this, e]
    · simp at h
  case band => obtain ⟨e, _⟩ := chk_some h; rw [e]
  case bxor => obtain ⟨e, _⟩ := chk_some h; rw [e]
  case bor => obtain ⟨e, _⟩ := chk_some h; rw [e]
  all_goals (simp at h; rw [h])

theorem castInt_of_cxxCast {k : CastTo} {x v : Int} (h : (cxxCast k x).bind chk = some v) : castInt k x = .int v := by
  cases k <;> simp only [cxxCast] at h <;> simp only [castInt]
  case uint =>
    split at h
    · simp at h
    · rename_i hc; simp only [Option.bind] at h; obtain ⟨e, _⟩ := chk_some h; simp [hc, e]
  case ulong =>
    split at h
    · simp at h
    · rename_i hc; simp only [Option.bind] at h; obtain ⟨e, _⟩ := chk_some h; simp [hc, e]
  all_goals (simp only [Option.bind] at h; obtain ⟨e, _⟩ := chk_some h; rw [e])

/-- **Main theorem.** Whenever C++ assigns the expression a value within `int`,
interrogate's evaluator returns exactly that value. -/
theorem evaluate_eq_cxxEval (e : Expr) : ∀ v, cxxEval e = some v → evaluate e = .int v := by
  induction e with
  | int n =>
    intro v h; simp only [cxxEval] at h
    obtain ⟨e, hi⟩ := chk_some h
    simp only [evaluate, wrap32_id _ hi, e]
  | bool b => intro v h; simp only [cxxEval] at h; simp at h; simp [evaluate, h]
  | unknown => intro v h; simp [cxxEval] at h
  | un op e ih =>
    intro v h
    simp only [cxxEval] at h
    cases hx : cxxEval e with
    | none => simp [hx] at h
    | some x =>
      simp only [hx] at h
      simp only [evaluate, ih x hx]
      cases op <;> simp only at h ⊢
      · simp at h; rw [h]
      · obtain ⟨e', _⟩ := chk_some h; rw [e']
      · obtain ⟨e', hi⟩ := chk_some h; rw [wrap32_id _ hi, e']
      · simp at h; rw [h]
  | bin op a b iha ihb =>
    intro v h
    cases ha : cxxEval a with
    | none => cases op <;> simp [cxxEval, ha] at h
    | some x =>
      have hea := iha x ha
      cases hb : cxxEval b with
      | none =>
        -- only `&&` / `||` can have a value when the second operand has none
        cases op <;> simp only [cxxEval, ha, hb] at h <;> try (simp at h)
        · -- land
          obtain ⟨hx0', hv⟩ := h
          subst hv
          simp only [evaluate, hea]
          cases hr : evaluate b with
          | error => simp [hx0']
          | int y => simp [binInt, hx0', b2i]
        · -- lor
          obtain ⟨hx0', hv⟩ := h
          subst hv
          simp only [evaluate, hea]
          cases hr : evaluate b with
          | error => simp [hx0']
          | int y => simp [binInt, hx0', b2i]
      | some y =>
        have heb := ihb y hb
        cases op <;> simp only [cxxEval, ha, hb] at h <;> simp only [evaluate, hea, heb]
        case land =>
          split at h
          · rename_i hx0; simp at h; subst h
            have hx0' : x = 0 := by simpa using hx0
            simp [binInt, hx0', b2i]
          · rename_i hx0; simp at h; subst h
            have hx0' : x ≠ 0 := by simpa using hx0
            simp [binInt, hx0', b2i]
        case lor =>
          split at h
          · rename_i hx0; simp at h; subst h
            have hx0' : x ≠ 0 := by simpa using hx0
            simp [binInt, hx0', b2i]
          · rename_i hx0; simp at h; subst h
            have hx0' : x = 0 := by simpa using hx0
            simp [binInt, hx0', b2i]
        all_goals (simp; exact binInt_of_cxxBin h)
  | tern c a b ihc iha ihb =>
    intro v h
    simp only [cxxEval] at h
    cases hc : cxxEval c with
    | none => simp [hc] at h
    | some x =>
      simp only [hc] at h
      simp only [evaluate, ihc x hc]
      split at h
      · rename_i hx; simp only [hx, if_true]; exact iha v h
      · rename_i hx; simp only [hx]; exact ihb v h
  | cast k e ih =>
    intro v h
    simp only [cxxEval] at h
    cases hx : cxxEval e with
    | none => simp [hx] at h
    | some x =>
      simp only [hx] at h
      simp only [evaluate, ih x hx]
      exact castInt_of_cxxCast h

end IgVerif.Ex
