import IgVerif.Lemmas.ModuleOrder
/-! Termination of the library ordering loop: every round emits a library, erases an
edge or inserts a key, and the cycle search with its visited set finds a cycle (or a
missing key) on its first descent whenever a pass made no progress. -/
namespace IgVerif.MO

/-- all dependency targets, with multiplicity -/
def Deps.targets (d : Deps) : List String := d.flatMap (·.2)
/-- edges whose target is not a key (such a target becomes a key when it is first looked up) -/
def Deps.eu (d : Deps) : Nat := (d.targets.filter (fun b => !d.has b)).length
def nu (d : Deps) : Nat := d.length + 2 * d.eu

theorem targets_length (d : Deps) : d.targets.length = d.edges := by
  induction d with
  | nil => rfl
  | cons p rest ih => simp only [Deps.targets, Deps.edges, List.flatMap_cons, List.length_append, List.map_cons, List.sum_cons] at *; omega

theorem eu_le_edges (d : Deps) : d.eu ≤ d.edges := by
  rw [← targets_length]; exact List.length_filter_le _ _

theorem mem_targets (d : Deps) (a b : String) (h : b ∈ d.get a) : b ∈ d.targets := by
  induction d with
  | nil => simp [Deps.get] at h
  | cons p rest ih =>
    obtain ⟨k, v⟩ := p
    simp only [Deps.get] at h
    simp only [Deps.targets, List.flatMap_cons, List.mem_append]
    split at h
    · exact Or.inl h
    · exact Or.inr (ih h)

theorem targets_insert_nil (d : Deps) (k : String) : (d.insert k []).targets = d.targets := by
  induction d with
  | nil => rfl
  | cons p rest ih =>
    obtain ⟨k2, v2⟩ := p
    unfold Deps.insert
    split
    · simp [Deps.targets]
    · simp only [Deps.targets, List.flatMap_cons] at *; rw [ih]

theorem targets_replace_sublist (d : Deps) (k : String) (v : List String) (h : d.has k = true)
    (hv : v.Sublist (d.get k)) : (d.replace k v).targets.Sublist d.targets := by
  induction d with
  | nil => simp [Deps.has] at h
  | cons p rest ih =>
    obtain ⟨k2, v2⟩ := p
    unfold Deps.replace
    split
    · rename_i h1
      simp only [Deps.get, h1, if_true] at hv
      simp only [Deps.targets, List.flatMap_cons]
      exact List.Sublist.append hv (List.Sublist.refl _)
    · rename_i h1
      have h1' : (k2 == k) = false := by simpa using h1
      have hr : Deps.has rest k = true := by rw [has_cons] at h; simpa [h1'] using h
      simp only [Deps.get, h1', Bool.false_eq_true, if_false] at hv
      simp only [Deps.targets, List.flatMap_cons]
      exact List.Sublist.append (List.Sublist.refl _) (ih hr hv)

theorem filter_length_lt {α : Type} (l : List α) (p q : α → Bool) (hpq : ∀ x, q x = true → p x = true)
    (x : α) (hx : x ∈ l) (hp : p x = true) (hq : q x = false) : (l.filter q).length < (l.filter p).length := by
  induction l with
  | nil => simp at hx
  | cons y ys ih =>
    have hle : (ys.filter q).length ≤ (ys.filter p).length := by
      rw [← List.countP_eq_length_filter, ← List.countP_eq_length_filter]
      exact List.countP_mono_left (fun x _ h => hpq x h)
    rcases List.mem_cons.mp hx with e | hx'
    · subst e
      simp only [List.filter_cons, hp, hq, if_true, Bool.false_eq_true, if_false, List.length_cons]
      omega
    · have ih' := ih hx'
      simp only [List.filter_cons]
      cases h1 : q y with
      | true => have h3 := hpq y h1; simp only [h3, if_true, List.length_cons]; omega
      | false =>
        cases h2 : p y with
        | true => simp only [if_true, Bool.false_eq_true, if_false, List.length_cons]; omega
        | false => simpa using ih'

theorem filter_ne_length_lt (l : List String) (b : String) (h : b ∈ l) :
    (l.filter (fun x => x != b)).length < l.length := by
  have := filter_length_lt l (fun _ => true) (fun x => x != b) (fun _ _ => rfl) b h rfl (by simp)
  have e : l.filter (fun _ => true) = l := List.filter_eq_self.mpr (fun _ _ => rfl)
  rw [e] at this
  exact this

/-! ### `touch` -/
theorem keys_nodup_touch (d : Deps) (x : String) (h : d.keys.Nodup) : (d.touch x).keys.Nodup := by
  unfold Deps.touch
  split
  · exact h
  · rename_i hx
    unfold Deps.set
    rw [if_neg hx]
    have hp := keys_insert_perm d x []
    rw [hp.nodup_iff, List.nodup_cons]
    exact ⟨fun hm => hx ((has_iff d x).mpr hm), h⟩

theorem targets_touch (d : Deps) (x : String) : (d.touch x).targets = d.targets := by
  unfold Deps.touch
  split
  · rfl
  · rename_i hx; unfold Deps.set; rw [if_neg hx]; exact targets_insert_nil d x

theorem edges_touch (d : Deps) (x : String) : (d.touch x).edges = d.edges := by
  rw [← targets_length, ← targets_length, targets_touch]

theorem length_touch_has (d : Deps) (x : String) (h : d.has x = true) : d.touch x = d := by
  unfold Deps.touch; rw [if_pos h]

theorem nu_touch_lt (d : Deps) (x : String) (hx : d.has x = false) (ht : x ∈ d.targets) :
    nu (d.touch x) < nu d := by
  have hlen : (d.touch x).length = d.length + 1 := by
    unfold Deps.touch Deps.set; simp [hx, length_insert]
  have heu : (d.touch x).eu < d.eu := by
    unfold Deps.eu
    rw [targets_touch]
    apply filter_length_lt d.targets (fun b => !d.has b) (fun b => !(d.touch x).has b) _ x ht
    · simp [hx]
    · have : (d.touch x).has x = true := (has_touch d x x).mpr (Or.inl rfl)
      simp [this]
    · intro b hb
      simp only [Bool.not_eq_eq_eq_not, Bool.not_true] at *
      cases hh : d.has b with
      | false => rfl
      | true =>
        have : (d.touch x).has b = true := (has_touch d x b).mpr (Or.inr hh)
        rw [this] at hb; exact absurd hb (by simp)
  unfold nu; omega

theorem nu_touch_le (d : Deps) (x : String) (ht : x ∈ d.targets) : nu (d.touch x) ≤ nu d := by
  cases hx : d.has x with
  | true => rw [length_touch_has d x hx]; exact Nat.le_refl _
  | false => exact Nat.le_of_lt (nu_touch_lt d x hx ht)

/-! ### overwriting an existing key with a sub-list of its value -/
theorem has_set_has (d : Deps) (k : String) (v : List String) (h : d.has k = true) (k' : String) :
    (d.set k v).has k' = d.has k' := by
  have := has_set d k k' v
  cases h1 : (d.set k v).has k' <;> cases h2 : d.has k' <;> simp_all

theorem eu_set_le (d : Deps) (k : String) (v : List String) (h : d.has k = true) (hv : v.Sublist (d.get k)) :
    (d.set k v).eu ≤ d.eu := by
  unfold Deps.eu
  have hf : (fun b => !(d.set k v).has b) = (fun b => !d.has b) := by
    funext b; rw [has_set_has d k v h]
  rw [hf]
  have : (d.set k v).targets.Sublist d.targets := by
    unfold Deps.set; rw [if_pos h]; exact targets_replace_sublist d k v h hv
  exact (this.filter _).length_le

theorem edges_set_le (d : Deps) (k : String) (v : List String) (h : d.has k = true) (hv : v.length ≤ (d.get k).length) :
    (d.set k v).edges ≤ d.edges := by
  have := edges_set_has d k v h; omega

/-! ### what a cycle search may change -/
structure Ext (d d' : Deps) : Prop where
  has_mono : ∀ k, d.has k = true → d'.has k = true
  targets : d'.targets = d.targets
  nu_le : nu d' ≤ nu d
  nodup : d.keys.Nodup → d'.keys.Nodup
  get : ∀ k, d'.get k = d.get k

theorem Ext.refl (d : Deps) : Ext d d := ⟨fun _ h => h, rfl, Nat.le_refl _, fun h => h, fun _ => rfl⟩

theorem Ext.trans {d d1 d2 : Deps} (h1 : Ext d d1) (h2 : Ext d1 d2) : Ext d d2 :=
  ⟨fun k h => h2.has_mono k (h1.has_mono k h), h2.targets.trans h1.targets, Nat.le_trans h2.nu_le h1.nu_le,
   fun h => h2.nodup (h1.nodup h), fun k => (h2.get k).trans (h1.get k)⟩

theorem Ext.edges {d d' : Deps} (h : Ext d d') : d'.edges = d.edges := by
  rw [← targets_length, ← targets_length, h.targets]

theorem ext_touch (d : Deps) (x : String) (ht : x ∈ d.targets) : Ext d (d.touch x) :=
  ⟨fun k h => (has_touch d x k).mpr (Or.inr h), targets_touch d x, nu_touch_le d x ht,
   keys_nodup_touch d x, fun k => get_touch d x k⟩

theorem dropWhile_ne_mem (path : List String) (x : String) (h : x ∈ path) :
    ∃ tl, path.dropWhile (fun y => y != x) = x :: tl := by
  induction path with
  | nil => simp at h
  | cons y ys ih =>
    by_cases e : y = x
    · subst e; exact ⟨ys, by simp [List.dropWhile]⟩
    · have hx : x ∈ ys := by
        rcases List.mem_cons.mp h with h1 | h1
        · exact absurd h1.symm e
        · exact h1
      obtain ⟨tl, htl⟩ := ih hx
      have hne : (y != x) = true := by simp [e]
      exact ⟨tl, by simp only [List.dropWhile, hne, htl]⟩

/-- shape of the reported cycle -/
def CycOk (r : Deps × List String × Option (List String)) : Prop :=
  ∀ c, r.2.2 = some c → ∃ a b tl, c = a :: b :: tl ∧ r.1.has a = true

theorem findCycle_spec (fuel : Nat) (d : Deps) (vis path rest : List String)
    (hrest : ∀ x ∈ rest, x ∈ d.targets) (hpath : ∀ p ∈ path, d.has p = true) :
    Ext d (findCycle fuel d vis path rest).1 ∧ CycOk (findCycle fuel d vis path rest) := by
  induction fuel generalizing d vis path rest with
  | zero => exact ⟨by simp [findCycle]; exact Ext.refl d, by intro c h; simp [findCycle] at h⟩
  | succ fuel ih =>
    cases rest with
    | nil => exact ⟨by simp [findCycle]; exact Ext.refl d, by intro c h; simp [findCycle] at h⟩
    | cons x rest =>
      have hrest' : ∀ y ∈ rest, y ∈ d.targets := fun y hy => hrest y (List.mem_cons_of_mem _ hy)
      unfold findCycle
      split
      · rename_i hc
        have hx : x ∈ path := by simpa using hc
        refine ⟨Ext.refl d, ?_⟩
        intro c h
        simp only [Option.some.injEq] at h
        obtain ⟨tl, htl⟩ := dropWhile_ne_mem path x hx
        rw [htl] at h
        cases tl with
        | nil => exact ⟨x, x, [], by rw [← h]; rfl, hpath x hx⟩
        | cons t ts => exact ⟨x, t, ts ++ [x], by rw [← h]; rfl, hpath x hx⟩
      · split
        · exact ih d vis path rest hrest' hpath
        · simp only
          have e1 : Ext d (d.touch x) := ext_touch d x (hrest x (List.mem_cons_self ..))
          have hp1 : ∀ p ∈ path ++ [x], (d.touch x).has p = true := by
            intro p hp
            rcases List.mem_append.mp hp with h1 | h1
            · exact e1.has_mono p (hpath p h1)
            · simp at h1; subst h1; exact (has_touch d p p).mpr (Or.inl rfl)
          have ih1 := ih (d.touch x) (x :: vis) (path ++ [x]) ((d.touch x).get x)
            (fun y hy => mem_targets _ x y hy) hp1
          generalize hr1 : findCycle fuel (d.touch x) (x :: vis) (path ++ [x]) ((d.touch x).get x) = r1 at ih1
          obtain ⟨d', vis', o⟩ := r1
          cases o with
          | some c => exact ⟨e1.trans ih1.1, ih1.2⟩
          | none =>
            simp only
            have e2 : Ext d d' := e1.trans ih1.1
            have ih2 := ih d' vis' path rest (fun y hy => by rw [e2.targets]; exact hrest' y hy)
              (fun p hp => e2.has_mono p (hpath p hp))
            exact ⟨e2.trans ih2.1, ih2.2⟩

/-! ### the first descent of a search always gets somewhere -/
/-- consecutive elements of the search path are dependency edges -/
def Linked (d : Deps) : List String → Prop
  | [] => True
  | [_] => True
  | a :: b :: t => b ∈ d.get a ∧ Linked d (b :: t)

theorem linked_congr {d d' : Deps} (h : ∀ k, d'.get k = d.get k) (path : List String) (hl : Linked d path) :
    Linked d' path := by
  induction path with
  | nil => trivial
  | cons a t ih =>
    cases t with
    | nil => trivial
    | cons b t => exact ⟨by rw [h]; exact hl.1, ih hl.2⟩

theorem linked_snoc (d : Deps) (pre : List String) (last x : String) (hl : Linked d (pre ++ [last]))
    (hx : x ∈ d.get last) : Linked d ((pre ++ [last]) ++ [x]) := by
  induction pre with
  | nil => exact ⟨hx, trivial⟩
  | cons a t ih =>
    cases t with
    | nil => exact ⟨hl.1, ih hl.2⟩
    | cons b t => exact ⟨hl.1, ih hl.2⟩

theorem cycle_edge (d : Deps) (pre : List String) (last x : String) (hl : Linked d (pre ++ [last]))
    (hx : x ∈ d.get last) (hm : x ∈ pre ++ [last]) :
    ∃ a b tl, (pre ++ [last]).dropWhile (fun y => y != x) ++ [x] = a :: b :: tl ∧ b ∈ d.get a := by
  induction pre with
  | nil =>
    have e : x = last := by simpa using hm
    subst e
    exact ⟨x, x, [], by simp [List.dropWhile], hx⟩
  | cons y t ih =>
    by_cases e : y = x
    · subst e
      cases t with
      | nil => exact ⟨y, last, [y], by simp [List.dropWhile], hl.1⟩
      | cons z zs => exact ⟨y, z, zs ++ [last] ++ [y], by simp [List.dropWhile], hl.1⟩
    · have hne : (y != x) = true := by simp [e]
      have hm' : x ∈ t ++ [last] := by
        rcases List.mem_cons.mp hm with h1 | h1
        · exact absurd h1.symm e
        · exact h1
      have hl' : Linked d (t ++ [last]) := by
        cases t with
        | nil => trivial
        | cons z zs => exact hl.2
      obtain ⟨a, b, tl, h1, h2⟩ := ih hl' hm'
      exact ⟨a, b, tl, by simp only [List.cons_append, List.dropWhile, hne]; exact h1, h2⟩

theorem path_length_le (d : Deps) (path : List String) (hnd : path.Nodup) (hk : ∀ p ∈ path, d.has p = true) :
    path.length ≤ d.length := by
  have : path ⊆ d.keys := fun p hp => (has_iff d p).mp (hk p hp)
  have := List.Nodup.length_le_of_subset hnd this
  simpa [Deps.keys] using this

/-- After a pass that emitted nothing (`hP1`, `hP2`: every remaining library still waits
for a library that is not emitted), the search started at a library with dependencies
finds a cycle whose first edge exists, or inserts a missing key. -/
theorem findCycle_progress (libs : List String) (fuel : Nat) (d : Deps) (vis pre : List String) (last : String)
    (rest : List String)
    (hrest : ∀ x ∈ rest, x ∈ d.get last) (hne : rest ≠ [])
    (hpath : ∀ p ∈ pre ++ [last], d.has p = true) (hnd : (pre ++ [last]).Nodup) (hlink : Linked d (pre ++ [last]))
    (hvis : ∀ v ∈ vis, v ∈ pre ++ [last])
    (hP1 : ∀ a b, b ∈ d.get a → b ∉ libs) (hP2 : ∀ k, d.has k = true → k ∉ libs → d.get k ≠ [])
    (hfuel : d.length < fuel + (pre ++ [last]).length) :
    nu (findCycle fuel d vis (pre ++ [last]) rest).1 < nu d ∨
      ∃ a b tl, (findCycle fuel d vis (pre ++ [last]) rest).2.2 = some (a :: b :: tl) ∧
        b ∈ (findCycle fuel d vis (pre ++ [last]) rest).1.get a := by
  induction fuel generalizing d vis pre last rest with
  | zero =>
    have := path_length_le d _ hnd hpath
    omega
  | succ fuel ih =>
    cases rest with
    | nil => exact absurd rfl hne
    | cons x rest =>
      have hxl : x ∈ d.get last := hrest x (List.mem_cons_self ..)
      have hxt : x ∈ d.targets := mem_targets d last x hxl
      unfold findCycle
      split
      · rename_i hc
        have hx : x ∈ pre ++ [last] := by simpa using hc
        right
        obtain ⟨a, b, tl, h1, h2⟩ := cycle_edge d pre last x hlink hxl hx
        exact ⟨a, b, tl, by simp only [h1], h2⟩
      · rename_i hc
        have hxp : x ∉ pre ++ [last] := by simpa using hc
        split
        · rename_i hv
          have : x ∈ vis := by simpa using hv
          exact absurd (hvis x this) hxp
        · simp only
          have hrest' : ∀ y ∈ rest, y ∈ d.targets := fun y hy => mem_targets d last y (hrest y (List.mem_cons_of_mem _ hy))
          have e1 : Ext d (d.touch x) := ext_touch d x hxt
          have hp1 : ∀ p ∈ (pre ++ [last]) ++ [x], (d.touch x).has p = true := by
            intro p hp
            rcases List.mem_append.mp hp with h1 | h1
            · exact e1.has_mono p (hpath p h1)
            · simp at h1; subst h1; exact (has_touch d p p).mpr (Or.inl rfl)
          have sp1 := findCycle_spec fuel (d.touch x) (x :: vis) ((pre ++ [last]) ++ [x]) ((d.touch x).get x)
            (fun y hy => mem_targets _ x y hy) hp1
          cases hhas : d.has x with
          | false =>
            -- a missing key was inserted
            have hlt : nu (d.touch x) < nu d := nu_touch_lt d x hhas hxt
            left
            generalize findCycle fuel (d.touch x) (x :: vis) ((pre ++ [last]) ++ [x]) ((d.touch x).get x) = r1 at sp1
            obtain ⟨d', vis', o⟩ := r1
            cases o with
            | some c => exact Nat.lt_of_le_of_lt sp1.1.nu_le hlt
            | none =>
              simp only
              have e2 : Ext d d' := e1.trans sp1.1
              have sp2 := findCycle_spec fuel d' vis' (pre ++ [last]) rest
                (fun y hy => by rw [e2.targets]; exact hrest' y hy) (fun p hp => e2.has_mono p (hpath p hp))
              exact Nat.lt_of_le_of_lt (Nat.le_trans sp2.1.nu_le sp1.1.nu_le) hlt
          | true =>
            have et : d.touch x = d := length_touch_has d x hhas
            rw [et] at sp1 ⊢
            have hxnl : x ∉ libs := hP1 last x hxl
            have hgx : d.get x ≠ [] := hP2 x hhas hxnl
            have ih1 := ih d (x :: vis) (pre ++ [last]) x (d.get x) (fun y hy => hy) hgx
              (by rw [et] at hp1; exact hp1)
              (List.nodup_append.mpr ⟨hnd, by simp, by
                intro a ha b hb; simp at hb; subst hb; intro e; subst e; exact hxp ha⟩)
              (linked_snoc d pre last x hlink hxl)
              (by
                intro v hv
                rcases List.mem_cons.mp hv with h1 | h1
                · subst h1; simp
                · exact List.mem_append_left _ (hvis v h1))
              hP1 hP2 (by simp only [List.length_append, List.length_cons, List.length_nil] at hfuel ⊢; omega)
            generalize findCycle fuel d (x :: vis) ((pre ++ [last]) ++ [x]) (d.get x) = r1 at sp1 ih1
            obtain ⟨d', vis', o⟩ := r1
            cases o with
            | some c => exact ih1
            | none =>
              simp only
              have hlt : nu d' < nu d := by
                rcases ih1 with h1 | ⟨a, b, tl, h1, _⟩
                · exact h1
                · simp at h1
              left
              have sp2 := findCycle_spec fuel d' vis' (pre ++ [last]) rest
                (fun y hy => by rw [sp1.1.targets]; exact hrest' y hy) (fun p hp => sp1.1.has_mono p (hpath p hp))
              exact Nat.lt_of_le_of_lt sp2.1.nu_le hlt

/-! ### the no-progress branch -/
def beta (d : Deps) : Nat := d.edges + nu d

structure Shrink (d d' : Deps) : Prop where
  has_mono : ∀ k, d.has k = true → d'.has k = true
  beta_le : beta d' ≤ beta d
  nodup : d.keys.Nodup → d'.keys.Nodup

theorem Shrink.refl (d : Deps) : Shrink d d := ⟨fun _ h => h, Nat.le_refl _, fun h => h⟩
theorem Shrink.trans {d d1 d2 : Deps} (h1 : Shrink d d1) (h2 : Shrink d1 d2) : Shrink d d2 :=
  ⟨fun k h => h2.has_mono k (h1.has_mono k h), Nat.le_trans h2.beta_le h1.beta_le, fun h => h2.nodup (h1.nodup h)⟩

theorem Ext.shrink {d d' : Deps} (h : Ext d d') : Shrink d d' :=
  ⟨h.has_mono, by unfold beta; rw [h.edges]; have := h.nu_le; omega, h.nodup⟩

theorem erase_edge (d : Deps) (a b : String) (ha : d.has a = true) :
    Shrink d (d.set a ((d.get a).filter (fun x => x != b))) ∧
    (b ∈ d.get a → beta (d.set a ((d.get a).filter (fun x => x != b))) < beta d) := by
  have hsub : ((d.get a).filter (fun x => x != b)).Sublist (d.get a) := List.filter_sublist
  have heu := eu_set_le d a _ ha hsub
  have hlen := length_set_has d a ((d.get a).filter (fun x => x != b)) ha
  have hed := edges_set_has d a ((d.get a).filter (fun x => x != b)) ha
  have hfl : ((d.get a).filter (fun x => x != b)).length ≤ (d.get a).length := List.length_filter_le _ _
  refine ⟨⟨fun k h => by rw [has_set_has d a _ ha]; exact h, by unfold beta nu; omega,
    fun h => by rw [keys_set_has d a _ ha]; exact h⟩, ?_⟩
  intro hb
  have := filter_ne_length_lt (d.get a) b hb
  unfold beta nu; omega

theorem has_of_get_ne_nil (d : Deps) (k : String) (h : d.get k ≠ []) : d.has k = true := by
  cases hh : d.has k with
  | true => rfl
  | false => exact absurd (get_of_not_has d k hh) h

theorem breakOne_shrink (fuel : Nat) (d : Deps) (broken : List (String × String)) (name : String) :
    Shrink d (breakOne fuel (d, broken) name).1 := by
  unfold breakOne
  simp only
  split
  · exact Shrink.refl d
  · rename_i hne
    have hne' : d.get name ≠ [] := by simpa using hne
    have hhas := has_of_get_ne_nil d name hne'
    rw [length_touch_has d name hhas]
    have sp := findCycle_spec fuel d [] [name] (d.get name) (fun y hy => mem_targets d name y hy)
      (by intro p hp; simp at hp; subst hp; exact hhas)
    generalize findCycle fuel d [] [name] (d.get name) = r at sp
    obtain ⟨d', vis', o⟩ := r
    match o with
    | none => exact sp.1.shrink
    | some [] => exact sp.1.shrink
    | some [_] => exact sp.1.shrink
    | some (a :: b :: tl) =>
      simp only
      obtain ⟨a', b', tl', hc, ha⟩ := sp.2 _ rfl
      simp only [List.cons.injEq] at hc
      obtain ⟨e1, _, _⟩ := hc
      subst e1
      exact sp.1.shrink.trans (erase_edge d' a b ha).1

theorem breakOne_lt (libs : List String) (fuel : Nat) (d : Deps) (broken : List (String × String)) (name : String)
    (hne : d.get name ≠ [])
    (hP1 : ∀ a b, b ∈ d.get a → b ∉ libs) (hP2 : ∀ k, d.has k = true → k ∉ libs → d.get k ≠ [])
    (hfuel : d.length ≤ fuel) : beta (breakOne fuel (d, broken) name).1 < beta d := by
  have hhas := has_of_get_ne_nil d name hne
  have pr := findCycle_progress libs fuel d [] [] name (d.get name) (fun _ h => h) hne
    (by intro p hp; simp at hp; subst hp; exact hhas) (by simp) trivial (by simp) hP1 hP2 (by simp; omega)
  simp only [List.nil_append] at pr
  unfold breakOne
  simp only
  have hie : (d.get name).isEmpty = false := by
    cases h : d.get name with
    | nil => exact absurd h hne
    | cons _ _ => rfl
  rw [hie]
  simp only [Bool.false_eq_true, if_false]
  rw [length_touch_has d name hhas]
  have sp := findCycle_spec fuel d [] [name] (d.get name) (fun y hy => mem_targets d name y hy)
    (by intro p hp; simp at hp; subst hp; exact hhas)
  generalize findCycle fuel d [] [name] (d.get name) = r at sp pr
  obtain ⟨d', vis', o⟩ := r
  have hb1 : beta d' ≤ beta d := sp.1.shrink.beta_le
  have hed : d'.edges = d.edges := sp.1.edges
  match o with
  | none =>
    rcases pr with h1 | ⟨a, b, tl, h1, _⟩
    · simp only at h1 ⊢; unfold beta at *; omega
    · simp at h1
  | some [] =>
    rcases pr with h1 | ⟨a, b, tl, h1, _⟩
    · simp only at h1 ⊢; unfold beta at *; omega
    · simp at h1
  | some [_] =>
    rcases pr with h1 | ⟨a, b, tl, h1, _⟩
    · simp only at h1 ⊢; unfold beta at *; omega
    · simp at h1
  | some (a :: b :: tl) =>
    simp only
    obtain ⟨a', b', tl', hc, ha⟩ := sp.2 _ rfl
    simp only [List.cons.injEq] at hc
    obtain ⟨e1, _, _⟩ := hc
    subst e1
    have er := erase_edge d' a b ha
    rcases pr with h1 | ⟨a2, b2, tl2, h1, h2⟩
    · have := er.1.beta_le
      simp only at h1
      unfold beta at *; omega
    · simp only [Option.some.injEq, List.cons.injEq] at h1
      obtain ⟨e1, e2, _⟩ := h1
      subst e1; subst e2
      exact Nat.lt_of_lt_of_le (er.2 h2) hb1

theorem breakFold_shrink (fuel : Nat) (ks : List String) (st : Deps × List (String × String)) :
    Shrink st.1 (ks.foldl (breakOne fuel) st).1 := by
  induction ks generalizing st with
  | nil => exact Shrink.refl _
  | cons k ks ih =>
    simp only [List.foldl_cons]
    obtain ⟨d, broken⟩ := st
    exact (breakOne_shrink fuel d broken k).trans (ih _)

theorem breakFold_lt (libs : List String) (fuel : Nat) (ks : List String) (st : Deps × List (String × String))
    (hex : ∃ k ∈ ks, st.1.get k ≠ [])
    (hP1 : ∀ a b, b ∈ st.1.get a → b ∉ libs) (hP2 : ∀ k, st.1.has k = true → k ∉ libs → st.1.get k ≠ [])
    (hfuel : st.1.length ≤ fuel) : beta (ks.foldl (breakOne fuel) st).1 < beta st.1 := by
  induction ks generalizing st with
  | nil => obtain ⟨k, hk, _⟩ := hex; simp at hk
  | cons k ks ih =>
    obtain ⟨d, broken⟩ := st
    simp only [List.foldl_cons]
    by_cases hk : d.get k = []
    · have hid : breakOne fuel (d, broken) k = (d, broken) := by
        unfold breakOne; simp [hk]
      rw [hid]
      apply ih (d, broken) _ hP1 hP2 hfuel
      obtain ⟨k', hk', hne⟩ := hex
      rcases List.mem_cons.mp hk' with e | e
      · subst e; exact absurd hk hne
      · exact ⟨k', e, hne⟩
    · have h1 := breakOne_lt libs fuel d broken k hk hP1 hP2 hfuel
      have h2 := (breakFold_shrink fuel ks (breakOne fuel (d, broken) k)).beta_le
      exact Nat.lt_of_le_of_lt h2 h1

/-! ### a pass -/
structure PassInv (d0 : Deps) (libs0 : List String) (processed : List String) (st : Deps × List String × Bool) : Prop where
  keys : st.1.keys = d0.keys
  edges : st.1.edges ≤ d0.edges
  eu : st.1.eu ≤ d0.eu
  nodup : st.2.1.Nodup
  keyed : ∀ l ∈ st.2.1, d0.has l = true
  addedT : st.2.2 = true → libs0.length < st.2.1.length
  addedF : st.2.2 = false → st.2.1 = libs0 ∧
    ∀ k ∈ processed, (∀ b ∈ st.1.get k, b ∉ libs0) ∧ (k ∉ libs0 → st.1.get k ≠ [])
  len : libs0.length ≤ st.2.1.length

theorem has_of_keys_eq {d d' : Deps} (h : d'.keys = d.keys) (k : String) : d'.has k = d.has k := by
  cases h1 : d'.has k <;> cases h2 : d.has k <;> try rfl
  · have := (has_iff d k).mp h2; rw [← h] at this; rw [(has_iff d' k).mpr this] at h1; exact absurd h1 (by simp)
  · have := (has_iff d' k).mp h1; rw [h] at this; rw [(has_iff d k).mpr this] at h2; exact absurd h2 (by simp)

theorem passOne_inv (d0 : Deps) (libs0 processed : List String) (st : Deps × List String × Bool) (name : String)
    (hname : d0.has name = true) (h : PassInv d0 libs0 processed st) :
    PassInv d0 libs0 (name :: processed) (passOne st name) := by
  obtain ⟨d, libs, added⟩ := st
  have hhas : d.has name = true := by rw [has_of_keys_eq h.keys]; exact hname
  have hsub : ((d.get name).filter (fun x => !libs.contains x)).Sublist (d.get name) := List.filter_sublist
  have hk := keys_set_has d name ((d.get name).filter (fun x => !libs.contains x)) hhas
  have he := edges_set_le d name ((d.get name).filter (fun x => !libs.contains x)) hhas (List.length_filter_le _ _)
  have hu := eu_set_le d name _ hhas hsub
  have h1 := h.keys; have h2 := h.edges; have h3 := h.eu
  simp only at h1 h2 h3
  unfold passOne
  simp only
  split
  · rename_i hc
    simp only [Bool.and_eq_true, List.isEmpty_iff, Bool.not_eq_true', List.contains_eq_mem,
      decide_eq_false_iff_not] at hc
    obtain ⟨hempty, hnot⟩ := hc
    have hlen := h.len
    simp only at hlen
    refine ⟨hk.trans h1, Nat.le_trans he h2, Nat.le_trans hu h3, ?_, ?_, ?_, ?_, ?_⟩
    · exact List.nodup_append.mpr ⟨h.nodup, by simp, by
        intro x hx y hy; simp at hy; subst hy; intro e; subst e; exact hnot hx⟩
    · intro l hl
      rcases List.mem_append.mp hl with h4 | h4
      · exact h.keyed l h4
      · simp at h4; subst h4; exact hname
    · intro _; simp only [List.length_append, List.length_cons, List.length_nil]; omega
    · intro hf; simp at hf
    · simp only [List.length_append, List.length_cons, List.length_nil]; omega
  · rename_i hc
    refine ⟨hk.trans h1, Nat.le_trans he h2, Nat.le_trans hu h3, h.nodup, h.keyed, h.addedT, ?_, h.len⟩
    intro hf
    simp only at hf
    obtain ⟨hl, hproc⟩ := h.addedF hf
    simp only at hl hproc
    refine ⟨hl, ?_⟩
    intro k hkm
    by_cases e : k = name
    · subst e
      rw [get_set_self]
      constructor
      · intro b hb
        simp only [List.mem_filter, List.contains_eq_mem, Bool.not_eq_true', decide_eq_false_iff_not] at hb
        rw [← hl]; exact hb.2
      · intro hkl hempty
        apply hc
        simp only [Bool.and_eq_true, List.isEmpty_iff, Bool.not_eq_true', List.contains_eq_mem,
          decide_eq_false_iff_not]
        exact ⟨by simpa using hempty, by rw [hl]; exact hkl⟩
    · rw [get_set_ne _ _ _ _ e]
      rcases List.mem_cons.mp hkm with h5 | h5
      · exact absurd h5 e
      · exact hproc k h5

theorem passFold_inv (d0 : Deps) (libs0 : List String) (ks processed : List String) (st : Deps × List String × Bool)
    (hks : ∀ k ∈ ks, d0.has k = true) (h : PassInv d0 libs0 processed st) :
    PassInv d0 libs0 (ks.reverse ++ processed) (ks.foldl passOne st) := by
  induction ks generalizing processed st with
  | nil => simpa using h
  | cons k ks ih =>
    simp only [List.foldl_cons, List.reverse_cons, List.append_assoc, List.singleton_append]
    exact ih (k :: processed) (passOne st k) (fun k' hk' => hks k' (List.mem_cons_of_mem _ hk'))
      (passOne_inv d0 libs0 processed st k (hks k (List.mem_cons_self ..)) h)

theorem pass_inv (d : Deps) (libs : List String) (hnd : libs.Nodup) (hkeyed : ∀ l ∈ libs, d.has l = true) :
    PassInv d libs d.keys.reverse (pass d libs) := by
  have := passFold_inv d libs d.keys [] (d, libs, false) (fun k hk => (has_iff d k).mpr hk)
    ⟨rfl, Nat.le_refl _, Nat.le_refl _, hnd, hkeyed, by simp, by simp, Nat.le_refl _⟩
  simpa [pass] using this

/-! ### the loop -/
theorem beta_lt_fuelFor (d : Deps) : beta d < fuelFor d := by
  have := eu_le_edges d
  unfold beta nu fuelFor; omega

theorem exists_key_not_mem (d : Deps) (libs : List String) (hkn : d.keys.Nodup) (hlt : libs.length < d.length) :
    ∃ k ∈ d.keys, k ∉ libs := by
  apply Classical.byContradiction
  intro hno
  have hsub : d.keys ⊆ libs := by
    intro k hk
    apply Classical.byContradiction
    intro hkl
    exact hno ⟨k, hk, hkl⟩
  have := List.Nodup.length_le_of_subset hkn hsub
  simp [Deps.keys] at this
  omega

theorem subset_of_length_le (l1 l2 : List String) (h1 : l1.Nodup) (hsub : l1 ⊆ l2) (hlen : l2.length ≤ l1.length) :
    l2 ⊆ l1 := by
  intro k hk
  apply Classical.byContradiction
  intro hkl
  have hs : l1 ⊆ l2.erase k := by
    intro x hx
    have hxk : x ≠ k := fun e => hkl (e ▸ hx)
    exact (List.mem_erase_of_ne hxk).2 (hsub hx)
  have h3 := List.Nodup.length_le_of_subset h1 hs
  have h4 : (l2.erase k).length = l2.length - 1 := by rw [List.length_erase]; simp [hk]
  have h5 : 1 ≤ l2.length := List.length_pos_of_mem hk
  omega

theorem run_finishes (fuel : Nat) (d : Deps) (libs : List String) (broken : List (String × String))
    (hkn : d.keys.Nodup) (hnd : libs.Nodup) (hkeyed : ∀ l ∈ libs, d.has l = true)
    (hfuel : beta d < fuel + libs.length) :
    (run fuel d libs broken).finished = true ∧ ∀ k, d.has k = true → k ∈ (run fuel d libs broken).libs := by
  induction fuel generalizing d libs broken with
  | zero =>
    have := path_length_le d libs hnd hkeyed
    unfold beta nu at hfuel; omega
  | succ fuel ih =>
    unfold run
    split
    · rename_i hlt
      have pi := pass_inv d libs hnd hkeyed
      generalize pass d libs = r at pi
      obtain ⟨d', libs', added⟩ := r
      have hkeys : d'.keys = d.keys := pi.keys
      have hlen : d'.length = d.length := by simpa [Deps.keys] using congrArg List.length hkeys
      have hbeta : beta d' ≤ beta d := by
        have h1 := pi.edges; have h2 := pi.eu
        simp only at h1 h2
        unfold beta nu; omega
      have hkn' : d'.keys.Nodup := by rw [hkeys]; exact hkn
      have hkeyed' : ∀ l ∈ libs', d'.has l = true := by
        intro l hl; rw [has_of_keys_eq hkeys]; exact pi.keyed l hl
      simp only
      cases added with
      | true =>
        simp only [if_true]
        have hgt := pi.addedT rfl
        simp only at hgt
        have := ih d' libs' broken hkn' pi.nodup hkeyed' (by omega)
        exact ⟨this.1, fun k hk => this.2 k (by rw [has_of_keys_eq hkeys]; exact hk)⟩
      | false =>
        simp only [Bool.false_eq_true, if_false]
        obtain ⟨hl, hproc⟩ := pi.addedF rfl
        simp only at hl hproc
        subst hl
        have hP1 : ∀ a b, b ∈ d'.get a → b ∉ libs' := by
          intro a b hb
          have hha : d'.has a = true := has_of_get_ne_nil d' a (by intro e; rw [e] at hb; simp at hb)
          have : a ∈ d.keys.reverse := by
            rw [List.mem_reverse, ← hkeys]; exact (has_iff d' a).mp hha
          exact (hproc a this).1 b hb
        have hP2 : ∀ k, d'.has k = true → k ∉ libs' → d'.get k ≠ [] := by
          intro k hk hkl
          have : k ∈ d.keys.reverse := by
            rw [List.mem_reverse, ← hkeys]; exact (has_iff d' k).mp hk
          exact (hproc k this).2 hkl
        obtain ⟨k, hk, hkl⟩ := exists_key_not_mem d' libs' hkn' (by omega)
        have hex : ∃ k ∈ d'.keys, (d', ([] : List (String × String))).1.get k ≠ [] :=
          ⟨k, hk, hP2 k ((has_iff d' k).mpr hk) hkl⟩
        have hlt2 := breakFold_lt libs' (fuelFor d') d'.keys (d', []) hex hP1 hP2
          (by unfold fuelFor; simp only; omega)
        have hsh := breakFold_shrink (fuelFor d') d'.keys (d', [])
        simp only at hlt2 hsh
        unfold breakCycles
        generalize List.foldl (breakOne (fuelFor d')) (d', []) d'.keys = r2 at hlt2 hsh
        obtain ⟨d'', br⟩ := r2
        simp only at hlt2 hsh ⊢
        have := ih d'' libs' (broken ++ br) (hsh.nodup hkn') pi.nodup
          (fun l hl => hsh.has_mono l (hkeyed' l hl)) (by omega)
        exact ⟨this.1, fun k hk => this.2 k (hsh.has_mono k (by rw [has_of_keys_eq hkeys]; exact hk))⟩
    · rename_i hge
      refine ⟨rfl, ?_⟩
      intro k hk
      have hsub : libs ⊆ d.keys := fun l hl => (has_iff d l).mp (hkeyed l hl)
      exact subset_of_length_le libs d.keys hnd hsub (by simp [Deps.keys]; omega) ((has_iff d k).mp hk)

end IgVerif.MO
