import IgVerif.Model.Literal
namespace IgVerif.Lit

/-- the input after the literal neither continues the digit sequence nor starts with a separator -/
def Stop (p : Nat → Bool) (rest : List Nat) : Prop := ∀ c, rest.head? = some c → p c = false ∧ c ≠ 39

theorem isHex_ne_sep (d : Nat) (h : isHex d = true) : d ≠ 39 := by
  intro e; subst e; simp [isHex, isDec] at h

theorem skipSep_digit (d : Nat) (rest : List Nat) (h : isHex d = true) : skipSep (d :: rest) = d :: rest := by
  have hne := isHex_ne_sep d h
  unfold skipSep
  split
  · rename_i heq; simp only [List.cons.injEq] at heq; exact absurd heq.1 hne
  · rfl

theorem skipSep_sep_digit (d : Nat) (rest : List Nat) (h : isHex d = true) : skipSep (39 :: d :: rest) = d :: rest := by
  simp [skipSep, h]

theorem skipSep_stop (p : Nat → Bool) (rest : List Nat) (h : Stop p rest) : skipSep rest = rest := by
  unfold skipSep
  split
  · rename_i d r
    have := (h 39 (by simp)).2
    exact absurd rfl this
  · rfl

theorem takeDigits_stop (p : Nat → Bool) (fuel : Nat) (rest : List Nat) (h : Stop p rest) : takeDigits p fuel rest = ([], rest) := by
  cases fuel with
  | zero => rfl
  | succ f =>
    cases rest with
    | nil => rfl
    | cons c r =>
      have := (h c (by simp)).1
      simp [takeDigits, this]

/-- **The digit loop collects exactly the digits**, wherever separators were written between them. -/
theorem takeDigits_withSeps (p : Nat → Bool) : ∀ (ds : List Nat) (bs : List Bool) (rest : List Nat) (fuel : Nat),
    ds ≠ [] → (∀ d ∈ ds, p d = true ∧ isHex d = true) → Stop p rest → ds.length < fuel →
    takeDigits p fuel (withSeps ds bs ++ rest) = (ds, rest)
  | [], _, _, _, h, _, _, _ => absurd rfl h
  | [d], bs, rest, fuel, _, hd, hs, hf => by
    cases fuel with
    | zero => simp at hf
    | succ f =>
      have hp := (hd d (by simp)).1
      simp only [withSeps, List.cons_append, List.nil_append, takeDigits, hp, if_true]
      rw [skipSep_stop p rest hs, takeDigits_stop p f rest hs]
  | d :: d2 :: ds, bs, rest, fuel, _, hd, hs, hf => by
    cases fuel with
    | zero => simp at hf
    | succ f =>
      have hp := (hd d (by simp)).1
      have h2 := (hd d2 (by simp)).2
      have ih : ∀ bs', takeDigits p f (withSeps (d2 :: ds) bs' ++ rest) = (d2 :: ds, rest) := fun bs' =>
        takeDigits_withSeps p (d2 :: ds) bs' rest f (by simp) (fun x hx => hd x (by simp [hx])) hs (by simp at hf ⊢; omega)
      -- the first element of `withSeps (d2 :: ds) bs'` is d2
      have hhead : ∀ bs', ∃ tl, withSeps (d2 :: ds) bs' = d2 :: tl := by
        intro bs'
        cases ds with
        | nil => exact ⟨[], by simp [withSeps]⟩
        | cons d3 ds' =>
          cases bs' with
          | nil => exact ⟨withSeps (d3 :: ds') [], by simp [withSeps]⟩
          | cons b bs'' =>
            cases b
            · exact ⟨withSeps (d3 :: ds') bs'', by simp [withSeps]⟩
            · exact ⟨39 :: withSeps (d3 :: ds') bs'', by simp [withSeps]⟩
      cases bs with
      | nil =>
        simp only [withSeps, List.cons_append, takeDigits, hp, if_true]
        obtain ⟨tl, htl⟩ := hhead []
        rw [htl, List.cons_append, skipSep_digit d2 _ h2, ← List.cons_append, ← htl, ih []]
      | cons b bs' =>
        cases b with
        | false =>
          simp only [withSeps, Bool.false_eq_true, if_false, List.cons_append, takeDigits, hp, if_true]
          obtain ⟨tl, htl⟩ := hhead bs'
          rw [htl, List.cons_append, skipSep_digit d2 _ h2, ← List.cons_append, ← htl, ih bs']
        | true =>
          simp only [withSeps, if_true, List.cons_append, takeDigits, hp]
          obtain ⟨tl, htl⟩ := hhead bs'
          rw [htl, List.cons_append, skipSep_sep_digit d2 _ h2, ← List.cons_append, ← htl, ih bs']

theorem withSeps_length_le (ds : List Nat) (bs : List Bool) : ds.length ≤ (withSeps ds bs).length := by
  induction ds generalizing bs with
  | nil => simp [withSeps]
  | cons d ds ih =>
    cases ds with
    | nil => simp [withSeps]
    | cons d2 ds' =>
      cases bs with
      | nil => simp only [withSeps, List.length_cons]; have := ih []; simp only [List.length_cons] at this; omega
      | cons b bs' =>
        cases b
        · simp only [withSeps, Bool.false_eq_true, if_false, List.length_cons]; have := ih bs'; simp only [List.length_cons] at this; omega
        · simp only [withSeps, if_true, List.length_cons]; have := ih bs'; simp only [List.length_cons] at this; omega

end IgVerif.Lit

namespace IgVerif.Lit

theorem withSeps_cons_head (d : Nat) (ds : List Nat) (bs : List Bool) : ∃ tl, withSeps (d :: ds) bs = d :: tl := by
  cases ds with
  | nil => exact ⟨[], by simp [withSeps]⟩
  | cons d2 ds' =>
    cases bs with
    | nil => exact ⟨withSeps (d2 :: ds') [], by simp [withSeps]⟩
    | cons b bs' =>
      cases b
      · exact ⟨withSeps (d2 :: ds') bs', by simp [withSeps]⟩
      · exact ⟨39 :: withSeps (d2 :: ds') bs', by simp [withSeps]⟩

/-- **Decimal literals**: the recorded value is the positional value of the digits, wherever digit
separators were written. -/
theorem getNumber_dec (d : Nat) (ds : List Nat) (bs : List Bool) (rest : List Nat)
    (hd : ∀ x ∈ d :: ds, isDec x = true) (h0 : d ≠ 48) (hs : Stop isDec rest) :
    getNumber (withSeps (d :: ds) bs ++ rest) = some (strtol 10 (d :: ds), .dec, rest) := by
  obtain ⟨tl, htl⟩ := withSeps_cons_head d ds bs
  have hlen := withSeps_length_le (d :: ds) bs
  have hdd : isDec d = true := hd d (by simp)
  have hall : ∀ x ∈ d :: ds, isDec x = true ∧ isHex x = true := fun x hx => ⟨hd x hx, by simp [isHex, hd x hx]⟩
  have key := takeDigits_withSeps isDec (d :: ds) bs rest ((tl ++ rest).length + 2) (by simp) hall hs (by
    rw [htl] at hlen; simp only [List.length_cons, List.length_append] at hlen ⊢; omega)
  rw [htl, List.cons_append] at key ⊢
  have h48 : (d == 48) = false := by simpa using h0
  simp only [getNumber, hdd, Bool.not_true, Bool.false_eq_true, if_false, h48, Bool.false_and, key]

/-- **Hexadecimal literals** (`0x…`, `0X…`). -/
theorem getNumber_hex (x : Nat) (hx : x = 120 ∨ x = 88) (d : Nat) (ds : List Nat) (bs : List Bool) (rest : List Nat)
    (hd : ∀ y ∈ d :: ds, isHex y = true) (hs : Stop isHex rest) :
    getNumber (48 :: x :: (withSeps (d :: ds) bs ++ rest)) = some (strtol 16 (d :: ds), .hex, rest) := by
  have hlen := withSeps_length_le (d :: ds) bs
  have hall : ∀ y ∈ d :: ds, isHex y = true ∧ isHex y = true := fun y hy => ⟨hd y hy, hd y hy⟩
  have hxs : skipSep (x :: (withSeps (d :: ds) bs ++ rest)) = x :: (withSeps (d :: ds) bs ++ rest) := by
    rcases hx with rfl | rfl <;> simp [skipSep]
  have key := takeDigits_withSeps isHex (d :: ds) bs rest ((x :: (withSeps (d :: ds) bs ++ rest)).length + 1) (by simp) hall hs (by
    simp only [List.length_cons, List.length_append] at hlen ⊢; omega)
  have hhead : (x == 120 || x == 88) = true := by rcases hx with rfl | rfl <;> simp
  simp only [getNumber, isDec, hxs, List.head?_cons, List.drop_succ_cons, List.drop_zero]
  simp only [show ((48 : Nat) ≤ 48 && 48 ≤ 57) = true by decide, Bool.not_true, Bool.false_eq_true, if_false]
  have : ((48 : Nat) == 48 && (some x == some 120 || some x == some 88)) = true := by
    rcases hx with rfl | rfl <;> decide
  simp only [this, if_true, key]

/-- **Binary literals** (`0b…`, `0B…`). -/
theorem getNumber_bin (x : Nat) (hx : x = 98 ∨ x = 66) (d : Nat) (ds : List Nat) (bs : List Bool) (rest : List Nat)
    (hd : ∀ y ∈ d :: ds, isBin y = true) (hs : Stop isBin rest) :
    getNumber (48 :: x :: (withSeps (d :: ds) bs ++ rest)) = some (strtol 2 (d :: ds), .bin, rest) := by
  have hlen := withSeps_length_le (d :: ds) bs
  have hall : ∀ y ∈ d :: ds, isBin y = true ∧ isHex y = true := fun y hy => by
    have := hd y hy
    refine ⟨this, ?_⟩
    simp only [isBin, Bool.or_eq_true, beq_iff_eq] at this
    rcases this with rfl | rfl <;> decide
  have hxs : skipSep (x :: (withSeps (d :: ds) bs ++ rest)) = x :: (withSeps (d :: ds) bs ++ rest) := by
    rcases hx with rfl | rfl <;> simp [skipSep]
  have key := takeDigits_withSeps isBin (d :: ds) bs rest ((x :: (withSeps (d :: ds) bs ++ rest)).length + 1) (by simp) hall hs (by
    simp only [List.length_cons, List.length_append] at hlen ⊢; omega)
  simp only [getNumber, isDec, hxs, List.head?_cons, List.drop_succ_cons, List.drop_zero]
  simp only [show ((48 : Nat) ≤ 48 && 48 ≤ 57) = true by decide, Bool.not_true, Bool.false_eq_true, if_false]
  have h1 : ((48 : Nat) == 48 && (some x == some 120 || some x == some 88)) = false := by
    rcases hx with rfl | rfl <;> decide
  have h2 : ((48 : Nat) == 48 && (some x == some 98 || some x == some 66)) = true := by
    rcases hx with rfl | rfl <;> decide
  simp only [h1, Bool.false_eq_true, if_false, h2, if_true, key]

end IgVerif.Lit
