import IgVerif.Model.CharLit
namespace IgVerif.Chr
open IgVerif.Lit

/-- the first character of a literal that starts with an ordinary character -/
theorem charValue_plain (c : Nat) (rest : List Nat) (h1 : c ≠ 10) (h2 : c ≠ 39) (h3 : c ≠ 92) :
    charValue (c :: rest) = toSigned c := by
  unfold charValue
  simp only [List.length_cons, scanQuoted]
  have e1 : (c == 10) = false := by simp [h1]
  have e2 : (c == 39) = false := by simp [h2]
  have e3 : (c == 92) = false := by simp [h3]
  simp [e1, e2, e3]

theorem charValue_escape (r : List Nat) :
    charValue (92 :: r) = toSigned ((scanEscape r).1 % 256) := by
  unfold charValue
  simp [scanQuoted]

theorem simpleEsc_none_of_lt (c : Nat) (h : c < 97) : simpleEsc c = none := by
  unfold simpleEsc
  repeat' split
  all_goals first | rfl | omega

theorem isOct_bounds {c : Nat} (h : isOct c = true) : 48 ≤ c ∧ c ≤ 55 := by
  unfold isOct at h; simpa using h

theorem scanEscape_oct3 (a b c : Nat) (rest : List Nat) (ha : isOct a = true) (hb : isOct b = true) (hc : isOct c = true) :
    scanEscape (a :: b :: c :: rest) = (((a - 48) * 8 + (b - 48)) * 8 + (c - 48), rest) := by
  have := isOct_bounds ha
  have hs := simpleEsc_none_of_lt a (by omega)
  have hx : ¬ a = 120 := by omega
  simp [scanEscape, hs, hx, ha, hb, hc]

theorem scanEscape_oct2 (a b x : Nat) (rest : List Nat) (ha : isOct a = true) (hb : isOct b = true) (hx : isOct x = false) :
    scanEscape (a :: b :: x :: rest) = ((a - 48) * 8 + (b - 48), x :: rest) := by
  have := isOct_bounds ha
  have hs := simpleEsc_none_of_lt a (by omega)
  have hx' : ¬ a = 120 := by omega
  simp [scanEscape, hs, hx', ha, hb, hx]

theorem scanEscape_oct1 (a x : Nat) (rest : List Nat) (ha : isOct a = true) (hx : isOct x = false) :
    scanEscape (a :: x :: rest) = (a - 48, x :: rest) := by
  have := isOct_bounds ha
  have hs := simpleEsc_none_of_lt a (by omega)
  have hx' : ¬ a = 120 := by omega
  simp [scanEscape, hs, hx', ha, hx]

theorem takeWhile_all {α : Type} (p : α → Bool) (ds : List α) (x : α) (rest : List α) (h : ∀ d ∈ ds, p d = true) (hx : p x = false) :
    (ds ++ x :: rest).takeWhile p = ds ∧ (ds ++ x :: rest).dropWhile p = x :: rest := by
  induction ds with
  | nil => simp [List.takeWhile, List.dropWhile, hx]
  | cons d ds ih =>
    have hd := h d (List.mem_cons_self ..)
    have := ih (fun y hy => h y (List.mem_cons_of_mem _ hy))
    simp [List.takeWhile, List.dropWhile, hd, this]

/-- a hex escape reads every hex digit that follows -/
theorem scanEscape_hex (h1 : Nat) (ds : List Nat) (x : Nat) (rest : List Nat) (e1 : isHex h1 = true)
    (eds : ∀ d ∈ ds, isHex d = true) (ex : isHex x = false) :
    scanEscape (120 :: h1 :: (ds ++ x :: rest)) = (strtol 16 (h1 :: ds), x :: rest) := by
  have hs : simpleEsc 120 = none := by decide
  have hall : ∀ d ∈ h1 :: ds, isHex d = true := by
    intro d hd
    rcases List.mem_cons.mp hd with e | e
    · subst e; exact e1
    · exact eds d e
  have := takeWhile_all isHex (h1 :: ds) x rest hall ex
  simp only [List.cons_append] at this
  simp only [scanEscape, hs, if_true, e1]
  rw [this.1, this.2]

end IgVerif.Chr
