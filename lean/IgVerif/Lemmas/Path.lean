import IgVerif.Model.Path
/-! `standardize` is idempotent and preserves what a path denotes (no symlinks). -/
namespace IgVerif.Path

def isName (c : String) : Bool := c != "." && c != ".."

/-- the bottom of the reversed component stack: nothing, a single leading `.` (relative paths only), or only `..`s -/
def tailOK (rel : Bool) : List String → Bool
  | [] => true
  | ["."] => rel
  | l => l.all (· == "..")

/-- normal form of the reversed component stack: names on top of an allowed bottom -/
def NFr (rel : Bool) : List String → Bool
  | [] => true
  | c :: rest => if isName c then NFr rel rest else tailOK rel (c :: rest)

theorem tailOK_dots (rel : Bool) (l : List String) (h : l.all (· == "..") = true) : tailOK rel l = true := by
  match l with
  | [] => rfl
  | [c] =>
    simp at h
    subst h
    simp [tailOK]
  | a :: b :: t => simpa [tailOK] using h

theorem nfr_of_tailOK (rel : Bool) (c : String) (rest : List String) (hc : isName c = false)
    (h : tailOK rel (c :: rest) = true) : NFr rel (c :: rest) = true := by
  simp [NFr, hc, h]

/-- every step keeps the stack in normal form (non-first steps) -/
theorem nfr_step (rel : Bool) (racc : List String) (c : String) (h : NFr rel racc = true) :
    NFr rel (stepR racc false c) = true := by
  unfold stepR
  by_cases hdot : c = "."
  · subst hdot; simpa using h
  · have hd : (c == ".") = false := by simpa using hdot
    simp only [hd, Bool.false_and, Bool.false_eq_true, if_false]
    by_cases hdd : c = ".."
    · subst hdd
      simp only [beq_self_eq_true, if_true]
      match racc, h with
      | [], _ => simp [NFr, isName, tailOK]
      | b :: rest, h =>
        simp only
        by_cases hb : b = ".."
        · subst hb
          simp only [beq_self_eq_true, if_true]
          have ht : tailOK rel (".." :: rest) = true := by simpa [NFr, isName] using h
          have hall : (".." :: rest).all (· == "..") = true := by
            match rest, ht with
            | [], _ => simp
            | a :: t, ht => simpa [tailOK] using ht
          apply nfr_of_tailOK rel ".." _ (by simp [isName])
          apply tailOK_dots
          simpa using hall
        · have hb' : (b == "..") = false := by simpa using hb
          simp only [hb', Bool.false_eq_true, if_false]
          by_cases hb2 : b = "."
          · subst hb2
            simp only [beq_self_eq_true, if_true]
            have ht : tailOK rel ("." :: rest) = true := by simpa [NFr, isName] using h
            have : rest = [] := by
              match rest, ht with
              | [], _ => rfl
              | a :: t, ht => simp [tailOK] at ht
            subst this
            simp [NFr, isName, tailOK]
          · have hb2' : (b == ".") = false := by simpa using hb2
            simp only [hb2', Bool.false_eq_true, if_false]
            have : isName b = true := by simp [isName, hb, hb2]
            simpa [NFr, this] using h
    · have hdd' : (c == "..") = false := by simpa using hdd
      simp only [hdd', Bool.false_eq_true, if_false]
      have : isName c = true := by simp [isName, hdot, hdd]
      simp [NFr, this, h]

theorem nfr_step_first (rel : Bool) (c : String) : NFr rel (stepR [] rel c) = true := by
  unfold stepR
  by_cases hdot : c = "."
  · subst hdot
    cases rel <;> simp [NFr, isName, tailOK]
  · have hd : (c == ".") = false := by simpa using hdot
    simp only [hd, Bool.false_and, Bool.false_eq_true, if_false]
    by_cases hdd : c = ".."
    · subst hdd; simp [NFr, isName, tailOK]
    · have hdd' : (c == "..") = false := by simpa using hdd
      have : isName c = true := by simp [isName, hdot, hdd]
      simp [hdd', NFr, this]

theorem nfr_loop (rel : Bool) (cs racc : List String) (h : NFr rel racc = true) :
    NFr rel (loopR rel racc cs false) = true := by
  induction cs generalizing racc with
  | nil => exact h
  | cons c cs ih => simp only [loopR, Bool.false_and]; exact ih _ (nfr_step rel racc c h)

theorem nfr_out (rel : Bool) (cs : List String) : NFr rel (loopR rel [] cs true) = true := by
  cases cs with
  | nil => rfl
  | cons c cs => simp only [loopR, Bool.true_and]; exact nfr_loop rel cs _ (nfr_step_first rel c)

/-! ### running the loop again on a normal form changes nothing -/

/-- one more component on top of a normal-form stack: the loop pushes it back unchanged
(`first` is true exactly for the bottom element) -/
theorem step_replay (rel : Bool) (c : String) (rest : List String)
    (h : NFr rel (c :: rest) = true) :
    stepR rest (rest.isEmpty && rel) c = c :: rest := by
  unfold stepR
  by_cases hn : isName c = true
  · simp only [isName, Bool.and_eq_true, bne_iff_ne, ne_eq] at hn
    have h1 : (c == ".") = false := by simpa using hn.1
    have h2 : (c == "..") = false := by simpa using hn.2
    simp [h1, h2]
  · have hn' : isName c = false := by simpa using hn
    have ht : tailOK rel (c :: rest) = true := by simpa [NFr, hn'] using h
    match rest, ht with
    | [], ht =>
      by_cases hdot : c = "."
      · subst hdot
        have hr : rel = true := by simpa [tailOK] using ht
        simp [hr]
      · have : c = ".." := by
          simp only [isName, Bool.and_eq_false_iff, bne_eq_false_iff_eq] at hn'
          rcases hn' with h' | h'
          · exact absurd h' hdot
          · exact h'
        subst this
        simp
    | b :: t, ht =>
      have hall : (c :: b :: t).all (· == "..") = true := by simpa [tailOK] using ht
      simp only [List.all_cons, Bool.and_eq_true, beq_iff_eq] at hall
      obtain ⟨hc, hb, _⟩ := hall
      subst hc; subst hb
      simp

theorem nfr_tail (rel : Bool) (c : String) (rest : List String) (h : NFr rel (c :: rest) = true) :
    NFr rel rest = true := by
  by_cases hn : isName c = true
  · simpa [NFr, hn] using h
  · have hn' : isName c = false := by simpa using hn
    have ht : tailOK rel (c :: rest) = true := by simpa [NFr, hn'] using h
    match rest, ht with
    | [], _ => rfl
    | b :: t, ht =>
      have hall : (c :: b :: t).all (· == "..") = true := by simpa [tailOK] using ht
      simp only [List.all_cons, Bool.and_eq_true, beq_iff_eq] at hall
      apply nfr_of_tailOK rel b t (by simp [isName, hall.2.1])
      apply tailOK_dots
      simp [hall.2.1, hall.2.2]

/-- replaying a normal-form stack (bottom first) through the loop rebuilds exactly that stack -/
theorem replay (rel : Bool) (r : List String) (h : NFr rel r = true) :
    ∀ (suffix : List String), loopR rel r suffix r.isEmpty = loopR rel [] (r.reverse ++ suffix) true := by
  induction r with
  | nil => intro suffix; simp
  | cons c rest ih =>
    intro suffix
    have hrest := nfr_tail rel c rest h
    have := ih hrest (c :: suffix)
    simp only [List.reverse_cons, List.append_assoc, List.singleton_append]
    rw [← this]
    simp only [loopR, step_replay rel c rest h, List.isEmpty_cons]

theorem replay_id (rel : Bool) (r : List String) (h : NFr rel r = true) :
    loopR rel [] r.reverse true = r := by
  have := replay rel r h []
  simp only [List.append_nil] at this
  rw [← this]
  rfl

end IgVerif.Path

namespace IgVerif.Path

/-- **Idempotence** of `standardize` on every path. -/
theorem stdC_idem (p : P) : stdC (stdC p) = stdC p := by
  by_cases h0 : (!p.global && p.comps == ["."]) = true
  · have : stdC p = p := by simp [stdC, h0]
    rw [this, this]
  · have h0' : (!p.global && p.comps == ["."]) = false := by simpa using h0
    have hr := nfr_out (!p.global) p.comps
    generalize hR : loopR (!p.global) [] p.comps true = r at hr
    have e1 : stdC p = { global := p.global, comps := if r.reverse.isEmpty && !p.global then ["."] else r.reverse } := by
      simp only [stdC, h0', Bool.false_eq_true, if_false, hR]
    rw [e1]
    by_cases hemp : (r.reverse.isEmpty && !p.global) = true
    · simp only [hemp, if_true]
      have hg : (!p.global) = true := by
        simp only [Bool.and_eq_true] at hemp; exact hemp.2
      simp [stdC, hg]
    · have hemp' : (r.reverse.isEmpty && !p.global) = false := by simpa using hemp
      simp only [hemp', Bool.false_eq_true, if_false]
      by_cases h1 : (!p.global && r.reverse == ["."]) = true
      · simp [stdC, h1]
      · have h1' : (!p.global && r.reverse == ["."]) = false := by simpa using h1
        simp only [stdC, h1', Bool.false_eq_true, if_false, replay_id (!p.global) r hr, hemp']

/-! ### denotation -/

def resolveR (fs : FS) (start : List String) (racc : List String) : Option (List String) :=
  racc.reverse.foldl (walk fs) (some start)

theorem resolveR_cons (fs : FS) (start : List String) (c : String) (racc : List String) :
    resolveR fs start (c :: racc) = walk fs (resolveR fs start racc) c := by
  simp [resolveR, List.foldl_append]

theorem foldl_walk_none (fs : FS) (cs : List String) : cs.foldl (walk fs) none = none := by
  induction cs with
  | nil => rfl
  | cons c cs ih => simpa [walk] using ih

theorem walk_dot (fs : FS) (x : Option (List String)) (l : List String) (h : walk fs x "." = some l) : x = some l := by
  cases x with
  | none => simp [walk] at h
  | some l0 =>
    simp only [walk] at h
    split at h
    · simp at h
    · simpa using h

theorem walk_name (fs : FS) (x : Option (List String)) (b : String) (l : List String)
    (hb1 : b ≠ ".") (hb2 : b ≠ "..") (h : walk fs x b = some l) : ∃ l0, x = some l0 ∧ l = l0 ++ [b] := by
  cases x with
  | none => simp [walk] at h
  | some l0 =>
    simp only [walk] at h
    have e1 : (b == ".") = false := by simpa using hb1
    have e2 : (b == "..") = false := by simpa using hb2
    simp only [e1, e2, Bool.false_eq_true, if_false] at h
    split at h
    · simp at h
    · split at h
      · exact ⟨l0, rfl, by simpa using h.symm⟩
      · simp at h

/-- one loop step preserves the location the processed prefix denotes -/
theorem step_denotes (fs : FS) (start : List String) (racc : List String) (fr : Bool) (c : String)
    (l l' : List String) (hr : resolveR fs start racc = some l) (hw : walk fs (some l) c = some l') :
    resolveR fs start (stepR racc fr c) = some l' := by
  unfold stepR
  by_cases hd : (c == "." && !fr) = true
  · simp only [hd, if_true]
    have hc : c = "." := by simp only [Bool.and_eq_true, beq_iff_eq] at hd; exact hd.1
    subst hc
    have := walk_dot fs (some l) l' hw
    rw [hr]; exact this
  · have hd' : (c == "." && !fr) = false := by simpa using hd
    simp only [hd', Bool.false_eq_true, if_false]
    by_cases hdd : c = ".."
    · subst hdd
      simp only [beq_self_eq_true, if_true]
      match racc, hr with
      | [], hr =>
        have : l = start := by simpa [resolveR] using hr.symm
        subst this
        simpa [resolveR] using hw
      | b :: rest, hr =>
        simp only
        by_cases hb : b = ".."
        · subst hb
          simp only [beq_self_eq_true, if_true]
          rw [resolveR_cons, hr]; exact hw
        · have hb' : (b == "..") = false := by simpa using hb
          simp only [hb', Bool.false_eq_true, if_false]
          by_cases hb2 : b = "."
          · subst hb2
            simp only [beq_self_eq_true, if_true]
            rw [resolveR_cons] at hr
            have := walk_dot fs _ l hr
            rw [resolveR_cons, this]; exact hw
          · have hb2' : (b == ".") = false := by simpa using hb2
            simp only [hb2', Bool.false_eq_true, if_false]
            rw [resolveR_cons] at hr
            obtain ⟨l0, h0, hl⟩ := walk_name fs _ b l hb2 hb hr
            rw [h0]
            -- `..` from l0 ++ [b] leads back to l0
            simp only [walk] at hw
            split at hw
            · simp at hw
            · simp at hw
              rw [← hw, hl]; simp
    · have hdd' : (c == "..") = false := by simpa using hdd
      simp only [hdd', Bool.false_eq_true, if_false]
      rw [resolveR_cons, hr]; exact hw

theorem loop_denotes (fs : FS) (start : List String) (rel : Bool) (cs : List String) :
    ∀ (racc : List String) (first : Bool) (l0 l : List String), resolveR fs start racc = some l0 →
      cs.foldl (walk fs) (some l0) = some l → resolveR fs start (loopR rel racc cs first) = some l := by
  induction cs with
  | nil => intro racc first l0 l h0 h; simp at h; subst h; exact h0
  | cons c cs ih =>
    intro racc first l0 l h0 h
    simp only [List.foldl_cons] at h
    cases hw : walk fs (some l0) c with
    | none => rw [hw, foldl_walk_none] at h; simp at h
    | some l1 =>
      rw [hw] at h
      simp only [loopR]
      exact ih _ false l1 l (step_denotes fs start racc _ c l0 l1 h0 hw) h

/-- **Denotation is preserved**: in a tree without symbolic links, whenever a path denotes
an entry, its standardized form denotes the same entry. -/
theorem stdC_denotes (fs : FS) (cwd : List String) (hwf : fs.WF cwd) (p : P) (l : List String)
    (h : resolve fs cwd p = some l) : resolve fs cwd (stdC p) = some l := by
  by_cases h0 : (!p.global && p.comps == ["."]) = true
  · have : stdC p = p := by simp [stdC, h0]
    rw [this]; exact h
  · have h0' : (!p.global && p.comps == ["."]) = false := by simpa using h0
    unfold resolve at h
    have hl := loop_denotes fs (if p.global then [] else cwd) (!p.global) p.comps [] true _ l (by simp [resolveR]) h
    generalize hR : loopR (!p.global) [] p.comps true = r at hl
    simp only [stdC, h0', Bool.false_eq_true, if_false, hR, resolve]
    by_cases hemp : (r.reverse.isEmpty && !p.global) = true
    · simp only [hemp, if_true]
      simp only [Bool.and_eq_true, List.isEmpty_iff, List.reverse_eq_nil_iff, Bool.not_eq_true'] at hemp
      obtain ⟨hre, hg⟩ := hemp
      subst hre
      simp only [resolveR, List.reverse_nil, List.foldl_nil, hg, Bool.false_eq_true, if_false, Option.some.injEq] at hl
      subst hl
      simp [walk, hg, hwf.cwdDir]
    · have hemp' : (r.reverse.isEmpty && !p.global) = false := by simpa using hemp
      simp only [hemp', Bool.false_eq_true, if_false]
      exact hl

end IgVerif.Path
