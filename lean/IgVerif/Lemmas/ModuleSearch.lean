import IgVerif.Model.Query
import IgVerif.Lemmas.Remap
import IgVerif.Lemmas.Query
/-!
# `binary_search_module`: a wrapper index resolves to the module whose range holds it

Modules receive consecutive, non-overlapping index ranges `[first, next)` in registration order
(`c13_module_range`).  On such a table the search returns the module whose range contains the
index — the fact behind `interrogate_wrapper_pointer` answering from the right module's table.
-/
namespace IgVerif

def mfirst (mods : List ModDef) (i : Nat) : Int := (mods.getD i {}).first
def mnext (mods : List ModDef) (i : Nat) : Int := (mods.getD i {}).next

/-- ranges are well-formed and laid out in order without overlap -/
structure RangesOk (mods : List ModDef) : Prop where
  wf : ∀ i, i < mods.length → mfirst mods i ≤ mnext mods i
  ordered : ∀ i j, i < j → j < mods.length → mnext mods i ≤ mfirst mods j

theorem RangesOk.first_mono {mods : List ModDef} (h : RangesOk mods) (i j : Nat) (hij : i ≤ j) (hj : j < mods.length) :
    mfirst mods i ≤ mfirst mods j := by
  rcases Nat.lt_or_eq_of_le hij with hlt | heq
  · have h1 := h.wf i (by omega)
    have h2 := h.ordered i j hlt hj
    omega
  · subst heq; exact Int.le_refl _

/-- the search returns the last module in `[b, e)` whose first index is not above `fn` -/
theorem bsearchModule_spec (mods : List ModDef) (fn : Int) (hok : RangesOk mods) (fuel b e : Nat)
    (hbe : b < e) (he : e ≤ mods.length) (hf : e - b ≤ fuel) (hb : mfirst mods b ≤ fn) :
    b ≤ bsearchModule mods fn fuel b e ∧ bsearchModule mods fn fuel b e < e ∧
    mfirst mods (bsearchModule mods fn fuel b e) ≤ fn ∧
    ∀ j, bsearchModule mods fn fuel b e < j → j < e → fn < mfirst mods j := by
  induction fuel generalizing b e with
  | zero => omega
  | succ fuel ih =>
    unfold bsearchModule
    simp only
    by_cases hm : (b + (e - b) / 2 == b) = true
    · rw [if_pos hm]
      have hmid : b + (e - b) / 2 = b := by simpa using hm
      refine ⟨by omega, by omega, by rw [hmid]; exact hb, ?_⟩
      intro j hj1 hj2
      omega
    · rw [if_neg hm]
      have hmid : b + (e - b) / 2 ≠ b := by simpa using hm
      have hlt : b < b + (e - b) / 2 := by omega
      have hlt2 : b + (e - b) / 2 < e := by omega
      by_cases hle : (mods.getD (b + (e - b) / 2) {}).first ≤ fn
      · rw [if_pos hle]
        obtain ⟨h1, h2, h3, h4⟩ := ih (b + (e - b) / 2) e hlt2 he (by omega) hle
        exact ⟨by omega, h2, h3, h4⟩
      · rw [if_neg hle]
        obtain ⟨h1, h2, h3, h4⟩ := ih b (b + (e - b) / 2) hlt (by omega) (by omega) hb
        refine ⟨h1, by omega, h3, ?_⟩
        intro j hj1 hj2
        by_cases hjm : j < b + (e - b) / 2
        · exact h4 j hj1 hjm
        · have hmono := hok.first_mono (b + (e - b) / 2) j (by omega) (by omega)
          have : fn < mfirst mods (b + (e - b) / 2) := by
            unfold mfirst; omega
          omega

/-- **an index inside module `i`'s range is found in module `i`** -/
theorem bsearchModule_finds (mods : List ModDef) (hok : RangesOk mods) (i : Nat) (hi : i < mods.length)
    (w : Int) (hlo : mfirst mods i ≤ w) (hhi : w < mnext mods i) :
    bsearchModule mods w (mods.length + 1) 0 mods.length = i := by
  have h0 : mfirst mods 0 ≤ w := by
    have := hok.first_mono 0 i (by omega) hi
    omega
  obtain ⟨_, h2, h3, h4⟩ := bsearchModule_spec mods w hok (mods.length + 1) 0 mods.length (by omega) (Nat.le_refl _) (by omega) h0
  generalize bsearchModule mods w (mods.length + 1) 0 mods.length = r at h2 h3 h4
  rcases Nat.lt_trichotomy r i with hlt | heq | hgt
  · have := h4 i hlt hi
    omega
  · exact heq
  · have := hok.ordered i r hgt h2
    omega

/-- `get_fptr`: a wrapper index inside the range of module `i` is answered from module `i`'s
table, at the offset from that module's first index -/
theorem getFptr_exact (s : St) (hok : RangesOk s.modules) (i : Nat) (hi : i < s.modules.length)
    (w : Int) (hlo : mfirst s.modules i ≤ w) (hhi : w < mnext s.modules i)
    (hn : w - mfirst s.modules i < (s.modules.getD i {}).numFptrs) :
    s.getFptr w = some (i, w - mfirst s.modules i) := by
  unfold St.getFptr
  have hne : s.modules.isEmpty = false := by
    cases hm : s.modules with
    | nil => rw [hm] at hi; simp at hi
    | cons _ _ => rfl
  rw [hne]
  simp only [Bool.false_eq_true, if_false]
  rw [bsearchModule_finds s.modules hok i hi w hlo hhi]
  have h1 : w < (s.modules.getD i {}).next := hhi
  have h2 : w - (s.modules.getD i {}).first ≥ 0 ∧ w - (s.modules.getD i {}).first < (s.modules.getD i {}).numFptrs := by
    unfold mfirst at hlo hn
    exact ⟨by omega, hn⟩
  rw [if_pos h1, if_pos h2]
  rfl

/-- an index below every range or at/after the end of its candidate module has no pointer -/
theorem getFptr_outside (s : St) (w : Int)
    (hout : ∀ i, i < s.modules.length → w < mfirst s.modules i ∨ mnext s.modules i ≤ w) :
    s.getFptr w = none := by
  unfold St.getFptr
  by_cases he : s.modules.isEmpty = true
  · rw [if_pos he]
  · rw [if_neg he]
    simp only
    have hlen : 0 < s.modules.length := by
      cases hm : s.modules with
      | nil => rw [hm] at he; simp at he
      | cons _ _ => simp
    generalize hr : bsearchModule s.modules w (s.modules.length + 1) 0 s.modules.length = r
    by_cases hrl : r < s.modules.length
    · rcases hout r hrl with h | h
      · by_cases h1 : w < (s.modules.getD r {}).next
        · rw [if_pos h1]
          have : ¬ (w - (s.modules.getD r {}).first ≥ 0 ∧ w - (s.modules.getD r {}).first < (s.modules.getD r {}).numFptrs) := by
            unfold mfirst at h; omega
          rw [if_neg this]
        · rw [if_neg h1]
      · have : ¬ w < (s.modules.getD r {}).next := by unfold mnext at h; omega
        rw [if_neg this]
    · -- the search never leaves the table; an out-of-table answer would read the default module (all zero)
      have hd : s.modules.getD r {} = {} := by
        rw [List.getD_eq_getElem?_getD, List.getElem?_eq_none (by omega)]; rfl
      rw [hd]
      by_cases h1 : w < ({} : ModDef).next
      · rw [if_pos h1]
        have : ¬ (w - ({} : ModDef).first ≥ 0 ∧ w - ({} : ModDef).first < ({} : ModDef).numFptrs) := by
          show ¬ (w - 0 ≥ 0 ∧ w - 0 < 0)
          omega
        rw [if_neg this]
      · rw [if_neg h1]

/-! ## the module table of every reachable state has ordered, disjoint ranges -/

theorem foldl_keeps {α β γ : Type} (f : β → α → β) (proj : β → γ) (l : List α) (b : β)
    (h : ∀ b a, proj (f b a) = proj b) : proj (l.foldl f b) = proj b := by
  induction l generalizing b with
  | nil => rfl
  | cons a l ih => rw [List.foldl_cons, ih, h]

theorem mergeFrom_nextIndex (sch : Schema) (fc : FlagCfg) (rc : RemapCfg) (this other : Db) :
    (Db.mergeFrom sch fc rc this other).nextIndex = this.nextIndex := by
  unfold Db.mergeFrom
  simp only
  rw [foldl_keeps _ Db.nextIndex, foldl_keeps _ Db.nextIndex, foldl_keeps _ Db.nextIndex,
    foldl_keeps _ Db.nextIndex, foldl_keeps _ Db.nextIndex, foldl_keeps _ Db.nextIndex]
  all_goals intro b a
  all_goals first
    | rfl
    | (split <;> first | rfl | (split <;> first | rfl | (split <;> rfl)))

/-- the invariant: ranges in order, all below the next free index -/
structure ModInv (s : St) : Prop where
  ok : RangesOk s.modules
  below : ∀ i, i < s.modules.length → mnext s.modules i ≤ s.db.nextIndex

theorem modInv_init : ModInv {} :=
  ⟨⟨fun i h => by simp at h, fun i j _ h => by simp at h⟩, fun i h => by simp at h⟩

theorem modInv_mono (s s' : St) (h : ModInv s) (hm : s'.modules = s.modules) (hn : s.db.nextIndex ≤ s'.db.nextIndex) :
    ModInv s' := by
  refine ⟨by rw [hm]; exact h.ok, ?_⟩
  intro i hi
  rw [hm] at hi ⊢
  have := h.below i hi
  omega

theorem getD_append_left (l : List ModDef) (x : ModDef) (i : Nat) (h : i < l.length) :
    (l ++ [x]).getD i {} = l.getD i {} := by
  simp [List.getD_eq_getElem?_getD, List.getElem?_append_left h]

theorem getD_append_last (l : List ModDef) (x : ModDef) : (l ++ [x]).getD l.length {} = x := by
  simp [List.getD_eq_getElem?_getD]

theorem modInv_rmAssign (s : St) (d : ModDef) (h : ModInv s) : ModInv (s.rmAssign d).1 := by
  unfold St.rmAssign
  by_cases hnum : d.next - d.first > 0
  · simp only [hnum, if_true]
    have hlen : (s.modules ++ [{ d with first := s.db.nextIndex, next := s.db.nextIndex + (d.next - d.first) }]).length = s.modules.length + 1 := by simp
    refine ⟨⟨?_, ?_⟩, ?_⟩
    · intro i hi
      rw [hlen] at hi
      by_cases hil : i < s.modules.length
      · unfold mfirst mnext; rw [getD_append_left _ _ _ hil]; exact h.ok.wf i hil
      · have : i = s.modules.length := by omega
        subst this
        unfold mfirst mnext; rw [getD_append_last]; simp only; omega
    · intro i j hij hj
      rw [hlen] at hj
      by_cases hjl : j < s.modules.length
      · unfold mfirst mnext
        rw [getD_append_left _ _ _ hjl, getD_append_left _ _ _ (by omega)]
        exact h.ok.ordered i j hij hjl
      · have : j = s.modules.length := by omega
        subst this
        unfold mfirst mnext
        rw [getD_append_last, getD_append_left _ _ _ hij]
        exact h.below i hij
    · intro i hi
      rw [hlen] at hi
      by_cases hil : i < s.modules.length
      · unfold mnext; rw [getD_append_left _ _ _ hil]
        have := h.below i hil
        unfold mnext at this
        simp only; omega
      · have : i = s.modules.length := by omega
        subst this
        unfold mnext; rw [getD_append_last]; simp only; omega
  · simp only [hnum, if_false]; exact h

theorem modInv_requestModule (s : St) (d : ModDef) (h : ModInv s) : ModInv (s.requestModule d) := by
  unfold St.requestModule
  apply modInv_mono _ _ (modInv_rmAssign s d h)
  · unfold St.rmRequest St.rmHash
    split <;> split <;> rfl
  · unfold St.rmRequest St.rmHash
    split <;> split <;> exact Int.le_refl _

theorem loadOutcome_next (c : Cfg) (db : Db) (d : ModDef) (db' : Db) (b : Bool)
    (h : loadOutcome c db d = .merged db' b) : db.nextIndex ≤ db'.nextIndex := by
  unfold loadOutcome at h
  split at h
  · cases h
  · cases h
  · split at h
    · cases h
    · split at h
      · cases h
      · split at h
        · cases h
        · split at h
          · cases h
          · split at h
            · rename_i temp _ _
              have hr := (remapIndices_ranges c.sch c.rc temp db.nextIndex).2.2
              generalize Db.remapIndices c.sch c.rc temp db.nextIndex = pr at h hr
              obtain ⟨temp', snd⟩ := pr
              simp only [LoadOutcome.merged.injEq] at h
              rw [← h.1, mergeFrom_nextIndex]
              simp only at hr ⊢
              rw [hr]
              omega
            · rename_i temp _ _
              generalize Db.remapIndices c.sch c.rc temp d.first = pr at h
              obtain ⟨temp', snd⟩ := pr
              simp only at h
              split at h
              · cases h
              · simp only [LoadOutcome.merged.injEq] at h
                rw [← h.1, mergeFrom_nextIndex]
                exact Int.le_refl _

theorem modInv_loadOne (c : Cfg) (s : St) (d : ModDef) (h : ModInv s) : ModInv (s.loadOne c d) := by
  unfold St.loadOne
  split
  · exact h
  · exact modInv_mono _ _ h rfl (Int.le_refl _)
  · rename_i db' b heq
    exact modInv_mono _ _ h rfl (loadOutcome_next c s.db d db' b heq)

theorem modInv_checkLatest (c : Cfg) (s : St) (h : ModInv s) : ModInv (s.checkLatest c) := by
  unfold St.checkLatest
  split
  · exact h
  · have h0 : ModInv { s with requests := [] } := modInv_mono _ _ h rfl (Int.le_refl _)
    generalize ({ s with requests := [] } : St) = s0 at h0
    induction s.requests generalizing s0 with
    | nil => exact h0
    | cons d ds ih => exact ih _ (modInv_loadOne c s0 d h0)

theorem modInv_lookup (c : Cfg) (s : St) (k : LookupKind) (name : Bytes) (h : ModInv s) : ModInv (s.lookup c k name).1 := by
  unfold St.lookup
  simp only
  have h1 := modInv_checkLatest c s h
  split
  · apply modInv_mono _ _ h1
    · unfold St.rebuild St.setCache; cases k <;> rfl
    · unfold St.rebuild St.setCache; cases k <;> exact Int.le_refl _
  · exact h1

/-- every state reachable through the request / lookup / accessor interface keeps its module
ranges in registration order, pairwise disjoint and below the next free index -/
theorem modInv_reachable (c : Cfg) (ops : List QOp) : ModInv (ops.foldl (qstep c) {}) := by
  suffices ∀ s, ModInv s → ModInv (ops.foldl (qstep c) s) from this {} modInv_init
  induction ops with
  | nil => intro s h; exact h
  | cons op ops ih =>
    intro s h
    apply ih
    cases op with
    | request d => exact modInv_requestModule s d h
    | lookup k name => exact modInv_lookup c s k name h
    | touch => exact modInv_checkLatest c s h

/-! ## the next free index never moves back -/

theorem next_mono_rmAssign (s : St) (d : ModDef) : s.db.nextIndex ≤ (s.rmAssign d).1.db.nextIndex := by
  unfold St.rmAssign
  by_cases hnum : d.next - d.first > 0
  · simp only [hnum, if_true]; omega
  · simp only [hnum, if_false]; exact Int.le_refl _

theorem next_mono_requestModule (s : St) (d : ModDef) : s.db.nextIndex ≤ (s.requestModule d).db.nextIndex := by
  have h1 := next_mono_rmAssign s d
  have h2 : (s.requestModule d).db.nextIndex = (s.rmAssign d).1.db.nextIndex := by
    unfold St.requestModule St.rmRequest St.rmHash
    split <;> split <;> rfl
  omega

theorem next_mono_loadOne (c : Cfg) (s : St) (d : ModDef) : s.db.nextIndex ≤ (s.loadOne c d).db.nextIndex := by
  unfold St.loadOne
  split
  · exact Int.le_refl _
  · exact Int.le_refl _
  · rename_i db' b heq
    exact loadOutcome_next c s.db d db' b heq

theorem next_mono_checkLatest (c : Cfg) (s : St) : s.db.nextIndex ≤ (s.checkLatest c).db.nextIndex := by
  unfold St.checkLatest
  split
  · exact Int.le_refl _
  · have h0 : s.db.nextIndex ≤ ({ s with requests := [] } : St).db.nextIndex := Int.le_refl _
    generalize ({ s with requests := [] } : St) = s0 at h0
    induction s.requests generalizing s0 with
    | nil => exact h0
    | cons d ds ih => exact ih _ (Int.le_trans h0 (next_mono_loadOne c s0 d))

theorem next_mono_qstep (c : Cfg) (s : St) (op : QOp) : s.db.nextIndex ≤ (qstep c s op).db.nextIndex := by
  cases op with
  | request d => exact next_mono_requestModule s d
  | touch => exact next_mono_checkLatest c s
  | lookup k name =>
    have h1 := next_mono_checkLatest c s
    show s.db.nextIndex ≤ (s.lookup c k name).1.db.nextIndex
    unfold St.lookup
    simp only
    split
    · have : ((s.checkLatest c).rebuild c k).db.nextIndex = (s.checkLatest c).db.nextIndex := by
        unfold St.rebuild St.setCache; cases k <;> rfl
      simp only [this]; exact h1
    · exact h1

end IgVerif
