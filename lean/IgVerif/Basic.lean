def hello := "world"
