/-!
# Output protocol of `main`: which stream operations happen, which failures reach the exit status

A protocol is the sequence of stream statements of the output section of
`main()` (extracted from the C++ on every run).  `run` executes it against a
*fault schedule* that decides, event by event, whether an `open`, a buffer
flush or a `close(2)` fails.  libstdc++ semantics assumed: a failed `open`
sets failbit; a failed flush sets badbit (sticky); insertions into a failed
stream are dropped; `close()` flushes, then closes, and sets failbit when either
fails; the destructor flushes silently.
-/
namespace IgVerif.OP

inductive Simple where
  | open (ch : Nat)         -- `filename.open_write(stream)`
  | write (ch : Nat)        -- `stream << …` or a writer call taking the stream
  | close (ch : Nat)        -- `stream.close()`
  | setIfFail (ch : Nat)    -- `if (stream.fail()) status = <non-zero>;`
deriving DecidableEq, Repr

inductive Stmt where
  | s (x : Simple)
  /-- `if (stream.fail()) { [status = non-zero] } else { els }` (also `if (!open_write(stream))`) -/
  | ifFailElse (ch : Nat) (setsStatus : Bool) (els : List Simple)
deriving DecidableEq, Repr

structure Proto where
  body : List Stmt
  /-- `return status;` (true) or `return 0;` (false) -/
  returnsStatus : Bool
deriving DecidableEq, Repr

structure Chan where
  failed : Bool := false
  dirty : Bool := false    -- data accepted into the buffer, not yet handed to write(2)
  lost : Bool := false     -- some output data never reached the file
deriving DecidableEq, Repr

structure St where
  chan : Nat → Chan := fun _ => {}
  status : Bool := false   -- true = non-zero
  sched : List Nat := []   -- fault schedule: one entry per event; 2 = the event fails, 1 = (write) flush now, succeeds

def St.upd (s : St) (ch : Nat) (c : Chan) : St :=
  { s with chan := fun k => if k = ch then c else s.chan k }

/-- next schedule entry (0 when exhausted: no flush / success) -/
def St.next (s : St) : Nat × St :=
  match s.sched with
  | [] => (0, s)
  | e :: rest => (e, { s with sched := rest })

def openChan (c : Chan) (e : Nat) : Chan := if e == 2 then { c with failed := true } else c

/-- insertion into a stream: dropped when the stream has failed; otherwise the data is
buffered (`e = 0`), flushed (`e = 1`) or the flush fails (`e = 2`) -/
def writeChan (c : Chan) (e : Nat) : Chan :=
  if c.failed then { c with lost := true }
  else if e == 2 then { c with failed := true, dirty := false, lost := true }
  else if e == 1 then { c with dirty := false }
  else { c with dirty := true }

/-- `close()`: flush what is buffered (`e1`), then `close(2)` (`e2`) -/
def closeChan (c : Chan) (e1 e2 : Nat) : Chan :=
  let c1 : Chan := if c.dirty && e1 == 2 then { failed := true, lost := true, dirty := false } else { c with dirty := false }
  if e2 == 2 then { c1 with failed := true, lost := true } else c1

def stepSimple (s : St) : Simple → St
  | .open ch => s.next.2.upd ch (openChan (s.chan ch) s.next.1)
  | .write ch =>
    if (s.chan ch).failed then s.upd ch (writeChan (s.chan ch) 0)       -- no write(2) is attempted
    else s.next.2.upd ch (writeChan (s.chan ch) s.next.1)
  | .close ch =>
    let r1 := if (s.chan ch).dirty then s.next else (0, s)
    r1.2.next.2.upd ch (closeChan (s.chan ch) r1.1 r1.2.next.1)
  | .setIfFail ch => if (s.chan ch).failed then { s with status := true } else s

def stepStmt (s : St) : Stmt → St
  | .s x => stepSimple s x
  | .ifFailElse ch sets els =>
    if (s.chan ch).failed then (if sets then { s with status := true } else s)
    else els.foldl stepSimple s

/-- destructors at the end of `main`: each stream still holding buffered data
flushes it; a failure there is seen by nobody -/
def finish (chs : List Nat) (s : St) : St :=
  chs.foldl (fun s ch =>
    let c := s.chan ch
    if c.dirty then
      let (e, s) := s.next
      s.upd ch (if e == 2 then { c with dirty := false, lost := true } else { c with dirty := false })
    else s) s

def chansOfSimple : Simple → Nat
  | .open ch | .write ch | .close ch | .setIfFail ch => ch

def chansOf : List Stmt → List Nat
  | [] => []
  | .s x :: rest => chansOfSimple x :: chansOf rest
  | .ifFailElse ch _ els :: rest => ch :: els.map chansOfSimple ++ chansOf rest

structure Outcome where
  exitNonZero : Bool
  lost : Bool
deriving DecidableEq, Repr

def run (p : Proto) (sched : List Nat) : Outcome :=
  let s := p.body.foldl stepStmt { sched := sched }
  let s := finish (chansOf p.body) s
  { exitNonZero := p.returnsStatus && s.status, lost := (chansOf p.body).any fun ch => (s.chan ch).lost }

/-! ## the syntactic check -/

structure Abs where
  mayDirty : Bool := false          -- the stream may hold unflushed data
  mayFailUnseen : Bool := false     -- the stream may have failed without the status knowing
deriving DecidableEq, Repr

abbrev AbsSt := Nat → Abs

def AbsSt.upd (a : AbsSt) (ch : Nat) (x : Abs) : AbsSt := fun k => if k = ch then x else a k

def absSimple (a : AbsSt) : Simple → AbsSt
  | .open ch => a.upd ch { (a ch) with mayFailUnseen := true }
  | .write ch => a.upd ch { mayDirty := true, mayFailUnseen := true }
  | .close ch => a.upd ch { mayDirty := false, mayFailUnseen := true }
  | .setIfFail ch => a.upd ch { (a ch) with mayFailUnseen := false }

def absJoin (a b : AbsSt) : AbsSt := fun k =>
  { mayDirty := (a k).mayDirty || (b k).mayDirty, mayFailUnseen := (a k).mayFailUnseen || (b k).mayFailUnseen }

def absStmt (a : AbsSt) : Stmt → AbsSt
  | .s x => absSimple a x
  | .ifFailElse ch sets els =>
    -- then-branch: the stream has failed.  When the branch sets the status the exit is non-zero whatever
    -- happens later (the status is never reset), so it contributes nothing; otherwise the failure is unseen
    let t : AbsSt := if sets then (fun _ => {}) else a.upd ch { (a ch) with mayFailUnseen := true }
    -- else-branch: the stream has not failed at this point
    let e := els.foldl absSimple (a.upd ch { (a ch) with mayFailUnseen := false })
    absJoin t e

/-- every failure that can lose data is turned into a non-zero exit status -/
def wellChecked (p : Proto) : Bool :=
  let a := p.body.foldl absStmt (fun _ => {})
  p.returnsStatus && (chansOf p.body).all fun ch => !(a ch).mayDirty && !(a ch).mayFailUnseen

end IgVerif.OP
