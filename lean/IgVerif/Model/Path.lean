/-!
# `Filename::standardize` and what a path denotes

A path is its `global` flag (leading `/`) and its non-empty components (runs of
`/` separate components and are skipped by the C++ scanner).  `stdC` mirrors the
component loop of `Filename::standardize()`:

* a `.` component is dropped, except as the very first component of a relative path;
* `..` backs up over the previous component unless there is none or it is `..`
  itself; backing up over a leading `.` replaces it by `..`;
* a relative path that reduces to nothing is `.` (it still names the directory
  it started from).

`resolve` is the POSIX meaning of a path in a directory tree without symbolic
links, as a location (list of names from the root).
-/
namespace IgVerif.Path

structure P where
  global : Bool
  comps : List String
deriving DecidableEq, Repr

/-- one iteration of the loop.  `racc` is the `components` vector *reversed* (its head is
`components.back()`); `firstRel` = this is the first component of a relative path (`p == 0`). -/
def stepR (racc : List String) (firstRel : Bool) (c : String) : List String :=
  if c == "." && !firstRel then racc
  else if c == ".." then
    match racc with
    | [] => [".."]                                     -- nothing to back up over
    | b :: rest =>
      if b == ".." then ".." :: racc                   -- never back up over `..`
      else if b == "." then ".." :: rest               -- backing up over a leading `.` removes it
      else rest                                        -- back up normally
  else c :: racc

def loopR (rel : Bool) : List String → List String → Bool → List String
  | racc, [], _ => racc
  | racc, c :: cs, first => loopR rel (stepR racc (first && rel) c) cs false

def stdC (p : P) : P :=
  if !p.global && p.comps == ["."] then p          -- `if (_filename == ".") return;`
  else
    let out := (loopR (!p.global) [] p.comps true).reverse
    { global := p.global, comps := if out.isEmpty && !p.global then ["."] else out }

/-! ## denotation in a tree without symlinks -/

/-- a directory tree: `dirs` and `files` are sets of locations (name lists from the root) -/
structure FS where
  isDir : List String → Bool
  isFile : List String → Bool

/-- one component applied to a location that must be a directory -/
def walk (fs : FS) (loc : Option (List String)) (c : String) : Option (List String) :=
  match loc with
  | none => none
  | some l =>
    if !fs.isDir l then none            -- only directories have entries, `.` and `..`
    else if c == "." then some l
    else if c == ".." then some l.dropLast          -- the root is its own parent
    else if fs.isDir (l ++ [c]) || fs.isFile (l ++ [c]) then some (l ++ [c]) else none

def resolve (fs : FS) (cwd : List String) (p : P) : Option (List String) :=
  p.comps.foldl (walk fs) (some (if p.global then [] else cwd))

/-- the tree is sane: the root and the cwd are directories, directories are closed under prefixes,
and no entry is literally called `.` or `..` -/
structure FS.WF (fs : FS) (cwd : List String) : Prop where
  root : fs.isDir [] = true
  cwdDir : fs.isDir cwd = true
  parent : ∀ l c, (fs.isDir (l ++ [c]) = true ∨ fs.isFile (l ++ [c]) = true) → fs.isDir l = true
  noDots : ∀ l c, (fs.isDir (l ++ [c]) = true ∨ fs.isFile (l ++ [c]) = true) → c ≠ "." ∧ c ≠ ".."

end IgVerif.Path
