/-!
# Integer constant expressions: `CPPExpression::evaluate` and the C++ meaning

`evaluate` mirrors the integer paths of `CPPExpression::evaluate()`: operand
order (`op2` first), the short-circuit special cases, 32-bit `int` results.
`cxxEval` is the specification: C++ semantics over ℤ, *defined only* when every
operand and result fits `int` and nothing is undefined behaviour.
-/
namespace IgVerif.Ex

inductive UnOp where
  | lnot | bnot | minus | plus
deriving DecidableEq, Repr

inductive BinOp where
  | mul | div | mod | add | sub | shl | shr | lt | gt | le | ge | eq | ne | band | bxor | bor | land | lor | comma
deriving DecidableEq, Repr

/-- target of a cast to a simple type -/
inductive CastTo where
  | bool | int | short | ushort | char | schar | uchar | uint | long | ulong
deriving DecidableEq, Repr

inductive Expr where
  | int (n : Int)              -- integer literal (already lexed)
  | bool (b : Bool)
  | unknown                    -- identifier interrogate cannot evaluate
  | un (op : UnOp) (e : Expr)
  | bin (op : BinOp) (a b : Expr)
  | tern (c a b : Expr)
  | cast (k : CastTo) (e : Expr)
deriving DecidableEq, Repr, Inhabited

inductive Res where
  | int (v : Int)
  | error
deriving DecidableEq, Repr

def intMin : Int := -2147483648
def intMax : Int := 2147483647
def inInt (x : Int) : Bool := decide (intMin ≤ x) && decide (x ≤ intMax)

/-- what a 32-bit `int` register holds -/
def wrap32 (x : Int) : Int := (BitVec.ofInt 32 x).toInt
def wrap16 (x : Int) : Int := (BitVec.ofInt 16 x).toInt
def wrap8 (x : Int) : Int := (BitVec.ofInt 8 x).toInt

def band32 (x y : Int) : Int := (BitVec.ofInt 32 x &&& BitVec.ofInt 32 y).toInt
def bor32 (x y : Int) : Int := (BitVec.ofInt 32 x ||| BitVec.ofInt 32 y).toInt
def bxor32 (x y : Int) : Int := (BitVec.ofInt 32 x ^^^ BitVec.ofInt 32 y).toInt

def b2i (b : Bool) : Int := if b then 1 else 0

/-- the `switch` on a binary operator, both operands being integers -/
def binInt (op : BinOp) (x y : Int) : Res :=
  match op with
  | .mul => .int (wrap32 (x * y))
  | .div => if y == 0 || (x == intMin && y == -1) then .error else .int (Int.tdiv x y)
  | .mod => if y == 0 || (x == intMin && y == -1) then .error else .int (Int.tmod x y)
  | .add => .int (wrap32 (x + y))
  | .sub => .int (wrap32 (x - y))
  | .shl => .int (wrap32 (x * 2 ^ (y % 32).toNat))           -- the CPU masks the count
  | .shr => .int (Int.fdiv x (2 ^ (y % 32).toNat))
  | .lt => .int (b2i (decide (x < y)))
  | .gt => .int (b2i (decide (x > y)))
  | .le => .int (b2i (decide (x ≤ y)))
  | .ge => .int (b2i (decide (x ≥ y)))
  | .eq => .int (b2i (x == y))
  | .ne => .int (b2i (x != y))
  | .band => .int (band32 x y)
  | .bxor => .int (bxor32 x y)
  | .bor => .int (bor32 x y)
  | .land => .int (b2i (x != 0 && y != 0))
  | .lor => .int (b2i (x != 0 || y != 0))
  | .comma => .int y

def castInt (k : CastTo) (v : Int) : Res :=
  match k with
  | .bool => .int (b2i (v != 0))
  | .int => .int v
  | .short => .int (wrap16 v)
  | .ushort => .int (v % 65536)
  | .char => .int (wrap8 v)
  | .schar => .int (wrap8 v)
  | .uchar => .int (v % 256)
  | .uint => if v < 0 then .error else .int v     -- 2^32 + v does not fit `int`: unevaluated
  | .long => .int v
  | .ulong => if v < 0 then .error else .int v

def evaluate : Expr → Res
  | .int n => .int (wrap32 n)
  | .bool b => .int (b2i b)
  | .unknown => .error
  | .un op e =>
    match evaluate e with
    | .error => .error
    | .int v =>
      match op with
      | .lnot => .int (b2i (v == 0))
      | .bnot => .int (-v - 1)
      | .minus => .int (wrap32 (-v))
      | .plus => .int v
  | .bin op a b =>
    let r2 := evaluate b
    if r2 == .error && op != .lor && op != .land then .error
    else
      match evaluate a, r2 with
      | .error, .int y =>
        -- the first operand is unknown: `||` is still true when the second is, `&&` still false when the second is
        if op == .lor && y != 0 then .int 1
        else if op == .land && y == 0 then .int 0
        else .error
      | .error, .error => .error
      | .int x, .error =>
        -- only reachable for && / ||: the second operand matters unless the first decides
        if op == .lor && x != 0 then .int 1
        else if op == .land && x == 0 then .int 0
        else .error
      | .int x, .int y => binInt op x y
  | .tern c a b =>
    match evaluate c with
    | .error => .error
    | .int v => if v != 0 then evaluate a else evaluate b
  | .cast k e =>
    match evaluate e with
    | .error => .error
    | .int v => castInt k v

/-! ## specification -/

def chk (x : Int) : Option Int := if inInt x then some x else none

def cxxBin (op : BinOp) (x y : Int) : Option Int :=
  match op with
  | .mul => chk (x * y)
  | .div => if y == 0 || (x == intMin && y == -1) then none else chk (Int.tdiv x y)
  | .mod => if y == 0 || (x == intMin && y == -1) then none else chk (Int.tmod x y)
  | .add => chk (x + y)
  | .sub => chk (x - y)
  | .shl => if 0 ≤ y ∧ y < 32 ∧ 0 ≤ x then chk (x * 2 ^ y.toNat) else none
  | .shr => if 0 ≤ y ∧ y < 32 then chk (Int.fdiv x (2 ^ y.toNat)) else none
  | .lt => some (b2i (decide (x < y)))
  | .gt => some (b2i (decide (x > y)))
  | .le => some (b2i (decide (x ≤ y)))
  | .ge => some (b2i (decide (x ≥ y)))
  | .eq => some (b2i (x == y))
  | .ne => some (b2i (x != y))
  | .band => chk (band32 x y)
  | .bxor => chk (bxor32 x y)
  | .bor => chk (bor32 x y)
  | .land => some (b2i (x != 0 && y != 0))
  | .lor => some (b2i (x != 0 || y != 0))
  | .comma => some y

def cxxCast (k : CastTo) (v : Int) : Option Int :=
  match k with
  | .bool => some (b2i (v != 0))
  | .int => some v
  | .short => some (wrap16 v)
  | .ushort => some (v % 65536)
  | .char => some (wrap8 v)
  | .schar => some (wrap8 v)
  | .uchar => some (v % 256)
  | .uint => if v < 0 then none else some v
  | .long => some v
  | .ulong => if v < 0 then none else some v

/-- the value a C++ compiler computes, when the expression is a constant
expression all of whose operands and results fit `int` -/
def cxxEval : Expr → Option Int
  | .int n => chk n
  | .bool b => some (b2i b)
  | .unknown => none
  | .un op e =>
    match cxxEval e with
    | none => none
    | some v =>
      match op with
      | .lnot => some (b2i (v == 0))
      | .bnot => chk (-v - 1)
      | .minus => chk (-v)
      | .plus => some v
  | .bin .lor a b =>
    match cxxEval a with
    | none => none
    | some x => if x != 0 then some 1 else
      match cxxEval b with
      | none => none
      | some y => some (b2i (y != 0))
  | .bin .land a b =>
    match cxxEval a with
    | none => none
    | some x => if x == 0 then some 0 else
      match cxxEval b with
      | none => none
      | some y => some (b2i (y != 0))
  | .bin op a b =>
    match cxxEval a, cxxEval b with
    | some x, some y => cxxBin op x y
    | _, _ => none
  | .tern c a b =>
    match cxxEval c with
    | none => none
    | some v => if v != 0 then cxxEval a else cxxEval b
  | .cast k e =>
    match cxxEval e with
    | none => none
    | some v => (cxxCast k v).bind chk

end IgVerif.Ex
