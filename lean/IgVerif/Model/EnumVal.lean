/-!
# `CPPEnumType::add_element` — the value of an enumerator without an initialiser

The value is kept as an expression.  `add_element` keeps it small: after an integer `n`
comes `n + 1`; after `e + n` comes `e + (n + 1)`; otherwise `last + 1`.  Expressions that
cannot be evaluated while parsing (names of other constants, template parameters) are
`sym`; their meaning is given by an environment.
-/
namespace IgVerif.EnumVal

inductive Ex where
  | lit (n : Int)
  | sym (id : Nat)
  | add (a b : Ex)
deriving Repr, DecidableEq

def Ex.eval (ρ : Nat → Int) : Ex → Int
  | .lit n => n
  | .sym i => ρ i
  | .add a b => a.eval ρ + b.eval ρ

/-- the initialiser `add_element` gives an enumerator: `given` if the header wrote one -/
def next (last : Option Ex) (given : Option Ex) : Ex :=
  match given with
  | some e => e
  | none =>
    match last with
    | none => .lit 0
    | some (.lit n) => .lit (n + 1)
    | some (.add e (.lit n)) => .add e (.lit (n + 1))
    | some e => .add e (.lit 1)

/-- all enumerators of one enum, in order -/
def elements : Option Ex → List (Option Ex) → List Ex
  | _, [] => []
  | last, g :: gs => next last g :: elements (some (next last g)) gs

end IgVerif.EnumVal
