import IgVerif.Model.DbFile
/-! Combining the layout read off `output()` (separators known) with the one read
off `input()` (version gates known). `none` = the two functions do not mirror. -/
namespace IgVerif

def mergeAtom : Atom → Atom → Option Atom
  | .int n sep, .int n' _ => if n == n' then some (.int n sep) else none
  | .str n ws, .str n' _ => if n == n' then some (.str n ws) else none
  | _, _ => none

def mergeAtoms : List Atom → List Atom → Option (List Atom)
  | [], [] => some []
  | a :: as, b :: bs => match mergeAtom a b, mergeAtoms as bs with
    | some c, some cs => some (c :: cs)
    | _, _ => none
  | _, _ => none

def mergeField : Field → Field → Option Field
  | .atom a, .atom b => (mergeAtom a b).map .atom
  | .atom (.int n sep), .intSince n' m _ => if n == n' then some (.intSince n m sep) else none
  | .ints n, .ints n' => if n == n' then some (.ints n) else none
  | .strs n, .strs n' => if n == n' then some (.strs n) else none
  | .recs n sub, .recs n' sub' => if n == n' then (mergeAtoms sub sub').map (.recs n) else none
  | .intIf n fl mk d sep, .intIf n' fl' mk' d' _ =>
    if n == n' && fl == fl' && mk == mk' && d == d' then some (.intIf n fl mk d sep) else none
  | _, _ => none

def mergeFields : List Field → List Field → Option (List Field)
  | [], [] => some []
  | a :: as, b :: bs => match mergeField a b, mergeFields as bs with
    | some c, some cs => some (c :: cs)
    | _, _ => none
  | _, _ => none

def mergeSchema (o i : Schema) : Option Schema :=
  match mergeFields o.function i.function, mergeFields o.wrapper i.wrapper, mergeFields o.type i.type,
        mergeFields o.manifest i.manifest, mergeFields o.element i.element, mergeFields o.makeSeq i.makeSeq with
  | some a, some b, some c, some d, some e, some f => some ⟨a, b, c, d, e, f⟩
  | _, _, _, _, _, _ => none

def emptySchema : Schema := ⟨[], [], [], [], [], []⟩

end IgVerif
