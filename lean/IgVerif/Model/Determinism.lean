/-!
# The two places where a run of interrogate consults its process environment

* the order in which equally-named overloads are written: they are collected in a
  `std::set<FunctionRemap *>` (iteration order = address order, i.e. an arbitrary permutation) and
  then sorted with `RemapCompareLess`;
* the file identifier: `SOURCE_DATE_EPOCH` or `time(nullptr)`.

Both influences are explicit arguments here (`perm`, `now`), so that purity is a theorem.
-/
namespace IgVerif.Det

/-- lexicographic `<` on integer keys (a proper prefix is smaller, as for `std::string`) -/
def lexLt : List Int → List Int → Bool
  | [], [] => false
  | [], _ :: _ => true
  | _ :: _, [] => false
  | x :: xs, y :: ys => if x < y then true else if y < x then false else lexLt xs ys

structure Remap where
  constMethod : Bool
  ranks : List Nat          -- get_type_sort of each parameter, in order
  signature : List Nat      -- bytes of _function_signature
  deriving Repr, DecidableEq

/-- `RemapCompareLess`: non-const first, more parameters first, higher type rank first, and — the
tie-break — the signature. -/
def key (r : Remap) : List Int :=
  [if r.constMethod then 1 else 0, -(r.ranks.length : Int)] ++ r.ranks.map (fun (k : Nat) => -(k : Int)) ++ [-1] ++ r.signature.map (fun (b : Nat) => (b : Int))

def remapLess (a b : Remap) : Bool := lexLt (key a) (key b)

/-- the comparator without the tie-break (as it was): equal ranks compare equal -/
def keyOld (r : Remap) : List Int :=
  [if r.constMethod then 1 else 0, -(r.ranks.length : Int)] ++ r.ranks.map (fun (k : Nat) => -(k : Int))

def remapLessOld (a b : Remap) : Bool := lexLt (keyOld a) (keyOld b)

/-- what `std::sort` + emission does with the set, whatever order the set iterates in -/
def emitOrder (less : Remap → Remap → Bool) (setOrder : List Remap) : List Remap :=
  setOrder.mergeSort (fun a b => !less b a)

/-! ## the file identifier -/

def isDigit (c : Nat) : Bool := 48 ≤ c && c ≤ 57
def isSpace (c : Nat) : Bool := c == 32 || (9 ≤ c && c ≤ 13)

def digitsVal : List Nat → Int → Int
  | [], acc => acc
  | c :: cs, acc => if isDigit c then digitsVal cs (acc * 10 + (c - 48 : Nat)) else acc

/-- `atoi` on values that fit an `int` (leading white space, optional sign, digits) -/
def atoi : List Nat → Int
  | [] => 0
  | c :: cs =>
    if isSpace c then atoi cs
    else if c == 45 then -(digitsVal cs 0)
    else if c == 43 then digitsVal cs 0
    else digitsVal (c :: cs) 0

/-- `file_identifier` in `interrogate.cxx` -/
def fileId (sde : Option (List Nat)) (now : Int) : Int :=
  match sde with
  | some (c :: cs) => atoi (c :: cs)
  | _ => now

end IgVerif.Det
