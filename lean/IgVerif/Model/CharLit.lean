import IgVerif.Model.Literal
/-!
# Character literals: `scan_escape_sequence`, `scan_quoted`, `get_quoted_char`

Input is the text after the opening quote, as byte codes; end of input is the empty list.
-/
namespace IgVerif.Chr
open IgVerif.Lit

def isOct (c : Nat) : Bool := 48 ≤ c && c ≤ 55

/-- the one-letter escapes of the `switch` -/
def simpleEsc (c : Nat) : Option Nat :=
  if c = 97 then some 7 else if c = 98 then some 8 else if c = 102 then some 12 else if c = 110 then some 10
  else if c = 114 then some 13 else if c = 116 then some 9 else if c = 118 then some 11 else if c = 101 then some 27
  else none

/-- `scan_escape_sequence` after the backslash has been seen: the character code and the rest -/
def scanEscape : List Nat → Nat × List Nat
  | [] => (0, [])       -- (`get()` at end of input; not reachable from a closed literal)
  | c :: r =>
    match simpleEsc c with
    | some v => (v, r)
    | none =>
      if c = 120 then     -- \x: every hex digit that follows (the value is kept in an `int`)
        match r with
        | h :: r1 =>
          if isHex h then (strtol 16 ((h :: r1).takeWhile isHex), (h :: r1).dropWhile isHex)
          else (h, r1)     -- "simply output the following character" (the one after the x)
        | [] => (0, [])
      else if isOct c then  -- one to three octal digits
        match r with
        | c2 :: r2 =>
          if isOct c2 then
            match r2 with
            | c3 :: r3 => if isOct c3 then (((c - 48) * 8 + (c2 - 48)) * 8 + (c3 - 48), r3) else ((c - 48) * 8 + (c2 - 48), r2)
            | [] => ((c - 48) * 8 + (c2 - 48), [])
          else (c - 48, r)
        | [] => (c - 48, [])
      else (c, r)

/-- `scan_quoted`: the characters up to the closing quote mark (as `char`s: codes mod 256) and
whether the quote was closed -/
def scanQuoted (q : Nat) : Nat → List Nat → List Nat × Bool
  | 0, _ => ([], false)
  | _ + 1, [] => ([], false)
  | fuel + 1, c :: r =>
    if c == 10 then ([], false)
    else if c == q then ([], true)
    else if c == 92 then
      let e := scanEscape r
      let t := scanQuoted q fuel e.2
      ((e.1 % 256) :: t.1, t.2)
    else
      let t := scanQuoted q fuel r
      (c :: t.1, t.2)

/-- `(int)str[0]` with `char` signed, 0 for an empty literal -/
def toSigned (c : Nat) : Int := if c < 128 then c else (c : Int) - 256

def charValue (afterQuote : List Nat) : Int :=
  match (scanQuoted 39 (afterQuote.length + 1) afterQuote).1 with
  | c :: _ => toSigned c
  | [] => 0

end IgVerif.Chr
