import IgVerif.Model.DbOps
/-!
# The query interface state machine

`request_module`, lazy `check_latest`/`load_latest`, the six by-name lookup
caches with their `_lookups_fresh` bits, positional accessors, unique-name
lookup and `get_fptr`/`find_module`.
-/
namespace IgVerif

inductive LookupKind where
  | typeName | typeScopedName | typeTrueName | manifestName | elementName | elementScopedName
deriving DecidableEq, Repr

def LookupKind.bit : LookupKind → Nat
  | .typeName => 1 | .typeScopedName => 2 | .typeTrueName => 4
  | .manifestName => 8 | .elementName => 16 | .elementScopedName => 32

inductive DbSource where
  | none                 -- no database_filename
  | missing              -- file cannot be found / opened
  | bytes (b : Bytes)
deriving Repr, Inhabited

structure ModDef where
  fileId : Int := 0
  hasLib : Bool := false
  hash : Bytes := []
  first : Int := 0
  next : Int := 0
  uniq : List (Bytes × Int) := []
  numFptrs : Int := 0
  src : DbSource := .none
deriving Repr, Inhabited

structure Cfg where
  sch : Schema
  fc : FlagCfg
  rc : RemapCfg

structure St where
  db : Db := {}
  modules : List ModDef := []
  byHash : List (Bytes × ModDef) := []
  requests : List ModDef := []
  errorFlag : Bool := false
  /-- the set of lookup tables whose `_lookups_fresh` bit is set (the bits are distinct powers of two: obligation `c20_lookup_bits`) -/
  fresh : List LookupKind := []
  typesByName : SMap := []
  typesByScopedName : SMap := []
  typesByTrueName : SMap := []
  manifestsByName : SMap := []
  elementsByName : SMap := []
  elementsByScopedName : SMap := []
deriving Repr, Inhabited

/-- first part of `request_module(def)`: give the module its own index range -/
def St.rmAssign (s : St) (d : ModDef) : St × ModDef :=
  let num := d.next - d.first
  if num > 0 then
    let d' := { d with first := s.db.nextIndex, next := s.db.nextIndex + num }
    ({ s with db := { s.db with nextIndex := s.db.nextIndex + num }, modules := s.modules ++ [d'] }, d')
  else (s, d)

def St.rmHash (s : St) (d : ModDef) : St :=
  if d.uniq.length > 0 && d.hasLib then
    { s with byHash := (d.hash, d) :: s.byHash.filter (fun p => p.1 != d.hash) } else s

def St.rmRequest (s : St) (d : ModDef) : St :=
  match d.src with
  | .none => s
  | _ => { s with requests := s.requests ++ [d] }

/-- `request_module(def)` -/
def St.requestModule (s : St) (d : ModDef) : St :=
  ((s.rmAssign d).1.rmHash (s.rmAssign d).2).rmRequest (s.rmAssign d).2

inductive LoadOutcome where
  | skip                               -- no database file requested
  | error                              -- reported through the error flag, nothing merged
  | merged (db : Db) (idMismatch : Bool)
deriving Repr

/-- what one iteration of the loop in `load_latest` decides, as a function of the
current maps and the module definition -/
def loadOutcome (c : Cfg) (db : Db) (d : ModDef) : LoadOutcome :=
  match d.src with
  | .none => .skip
  | .missing => .error
  | .bytes b =>
    match decHeader b with
    | .error _ => .error
    | .ok ((id, maj, min), r) =>
      if maj != curMajor || min > (curMinor : Int) then .error
      else match decBody c.sch min.toNat id r with
        | .error _ => .error
        | .ok (f, _) =>
          match Db.readNew c.sch c.fc f with
          | none => .error   -- (the C++ would dereference a null function pointer here)
          | some temp =>
            let idBad := d.fileId != 0 && id != d.fileId
            if d.first == 0 && d.next == 0 then
              let (temp', _) := temp.remapIndices c.sch c.rc db.nextIndex
              .merged (Db.mergeFrom c.sch c.fc c.rc { db with nextIndex := temp'.nextIndex } temp') idBad
            else
              let (temp', _) := temp.remapIndices c.sch c.rc d.first
              if temp'.nextIndex != d.next then .error
              else .merged (Db.mergeFrom c.sch c.fc c.rc db temp') idBad

/-- one iteration of the loop in `load_latest`; a merge resets every fresh bit -/
def St.loadOne (c : Cfg) (s : St) (d : ModDef) : St :=
  match loadOutcome c s.db d with
  | .skip => s
  | .error => { s with errorFlag := true }
  | .merged db idBad => { s with db := db, fresh := [], errorFlag := s.errorFlag || idBad }

/-- `check_latest()` -/
def St.checkLatest (c : Cfg) (s : St) : St :=
  if s.requests.isEmpty then s
  else
    let reqs := s.requests
    reqs.foldl (St.loadOne c) { s with requests := [] }

def freshen (spec : List Field) (m : IMap (List Val)) (member : String) : SMap :=
  m.foldl (fun (acc : SMap) p => acc.set (getStr spec p.2 member) p.1) []

def St.cache (s : St) : LookupKind → SMap
  | .typeName => s.typesByName | .typeScopedName => s.typesByScopedName
  | .typeTrueName => s.typesByTrueName | .manifestName => s.manifestsByName
  | .elementName => s.elementsByName | .elementScopedName => s.elementsByScopedName

/-- what `freshen_*()` computes from the current maps -/
def St.freshMap (c : Cfg) (s : St) : LookupKind → SMap
  | .typeName => freshen c.sch.type s.db.types "_name"
  | .typeScopedName => freshen c.sch.type s.db.types "_scoped_name"
  | .typeTrueName => freshen c.sch.type s.db.types "_true_name"
  | .manifestName => freshen c.sch.manifest s.db.manifests "_name"
  | .elementName => freshen c.sch.element s.db.elements "_name"
  | .elementScopedName => freshen c.sch.element s.db.elements "_scoped_name"

def St.setCache (s : St) (k : LookupKind) (m : SMap) : St :=
  match k with
  | .typeName => { s with typesByName := m }
  | .typeScopedName => { s with typesByScopedName := m }
  | .typeTrueName => { s with typesByTrueName := m }
  | .manifestName => { s with manifestsByName := m }
  | .elementName => { s with elementsByName := m }
  | .elementScopedName => { s with elementsByScopedName := m }

def St.rebuild (c : Cfg) (s : St) (k : LookupKind) : St := s.setCache k (s.freshMap c k)

/-- `lookup_*_by_*name(name)` -/
def St.lookup (c : Cfg) (s : St) (k : LookupKind) (name : Bytes) : St × Int :=
  let s := s.checkLatest c
  let s := if !s.fresh.contains k then { (s.rebuild c k) with fresh := k :: s.fresh } else s
  (s, ((s.cache k).find name).getD 0)

/-- guarded positional accessor: `if (n >= 0 && n < (int)v.size()) return v[n]; return neutral;` -/
def getAt {α : Type} (l : List α) (n : Int) (neutral : α) : α :=
  if n ≥ 0 ∧ n < (l.length : Int) then l.getD n.toNat neutral else neutral

def St.record (c : Cfg) (s : St) (k : Kind) (idx : Int) : List Val :=
  ((s.db.map k).find idx).getD (defaultRec (c.sch.of k))

/-- `binary_search_module(begin, end, index)`; fuel `modules.length + 1` suffices -/
def bsearchModule (mods : List ModDef) (fn : Int) : Nat → Nat → Nat → Nat
  | 0, b, _ => b
  | fuel+1, b, e =>
    let mid := b + (e - b) / 2
    if mid == b then mid
    else if (mods.getD mid {}).first ≤ fn then bsearchModule mods fn fuel mid e
    else bsearchModule mods fn fuel b mid

/-- `get_fptr(wrapper)`: the slot of the module's function-pointer table, if any -/
def St.getFptr (s : St) (w : Int) : Option (Nat × Int) :=
  if s.modules.isEmpty then none
  else
    let mi := bsearchModule s.modules w (s.modules.length + 1) 0 s.modules.length
    let d := s.modules.getD mi {}
    let off := w - d.first
    if w < d.next then
      if off ≥ 0 ∧ off < d.numFptrs then some (mi, off) else none
    else none

/-- `get_wrapper_by_unique_name(name)` -/
def St.wrapperByUniqueName (s : St) (name : Bytes) : Int :=
  let libHash := name.take 4
  let wrapHash := name.drop 4
  match s.byHash.find? (fun p => p.1 == libHash) with
  | none => 0
  | some (_, d) =>
    let off := bsearch d.uniq wrapHash
    if off ≥ 0 then d.first + off else 0

end IgVerif
