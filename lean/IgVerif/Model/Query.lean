import IgVerif.Model.DbOps
/-!
# The query interface state machine

`request_module`, lazy `check_latest`/`load_latest`, the six by-name lookup
caches with their `_lookups_fresh` bits, positional accessors, unique-name
lookup and `get_fptr`/`find_module`.
-/
namespace IgVerif

inductive DbSource where
  | none                 -- no database_filename
  | missing              -- file cannot be found / opened
  | bytes (b : Bytes)
deriving Repr, Inhabited

structure ModDef where
  fileId : Int := 0
  hasLib : Bool := false
  hash : Bytes := []
  first : Int := 0
  next : Int := 0
  uniq : List (Bytes × Int) := []
  numFptrs : Int := 0
  src : DbSource := .none
deriving Repr, Inhabited

structure Cfg where
  sch : Schema
  fc : FlagCfg
  rc : RemapCfg

structure St where
  db : Db := {}
  modules : List ModDef := []
  byHash : List (Bytes × ModDef) := []
  requests : List ModDef := []
  errorFlag : Bool := false
  fresh : Nat := 0
  typesByName : SMap := []
  typesByScopedName : SMap := []
  typesByTrueName : SMap := []
  manifestsByName : SMap := []
  elementsByName : SMap := []
  elementsByScopedName : SMap := []
deriving Repr, Inhabited

/-- `request_module(def)`; returns the (possibly renumbered) def too -/
def St.requestModule (s : St) (d : ModDef) : St :=
  let num := d.next - d.first
  let (s, d) := if num > 0 then
      let d' := { d with first := s.db.nextIndex, next := s.db.nextIndex + num }
      ({ s with db := { s.db with nextIndex := s.db.nextIndex + num }, modules := s.modules ++ [d'] }, d')
    else (s, d)
  let s := if d.uniq.length > 0 && d.hasLib then
      { s with byHash := (d.hash, d) :: s.byHash.filter (fun p => p.1 != d.hash) } else s
  match d.src with
  | .none => s
  | _ => { s with requests := s.requests ++ [d] }

/-- one iteration of the loop in `load_latest` -/
def St.loadOne (c : Cfg) (s : St) (d : ModDef) : St :=
  match d.src with
  | .none => s
  | .missing => { s with errorFlag := true }
  | .bytes b =>
    match decHeader b with
    | .error _ => { s with errorFlag := true }
    | .ok ((id, maj, min), r) =>
      let s := if d.fileId != 0 && id != d.fileId then { s with errorFlag := true } else s
      if maj != curMajor || min > (curMinor : Int) then { s with errorFlag := true }
      else match decBody c.sch min.toNat id r with
        | .error _ => { s with errorFlag := true }
        | .ok (f, _) =>
          match Db.readNew c.sch c.fc f with
          | none => { s with errorFlag := true }   -- (the C++ would dereference a null function)
          | some temp =>
            if d.first == 0 && d.next == 0 then
              let (temp', _) := temp.remapIndices c.sch c.rc s.db.nextIndex
              let db := Db.mergeFrom c.sch c.fc c.rc { s.db with nextIndex := temp'.nextIndex } temp'
              { s with db := db, fresh := 0 }
            else
              let (temp', _) := temp.remapIndices c.sch c.rc d.first
              if temp'.nextIndex != d.next then { s with errorFlag := true }
              else { s with db := Db.mergeFrom c.sch c.fc c.rc s.db temp', fresh := 0 }

/-- `check_latest()` -/
def St.checkLatest (c : Cfg) (s : St) : St :=
  if s.requests.isEmpty then s
  else
    let reqs := s.requests
    reqs.foldl (St.loadOne c) { s with requests := [] }

inductive LookupKind where
  | typeName | typeScopedName | typeTrueName | manifestName | elementName | elementScopedName
deriving DecidableEq, Repr

def LookupKind.bit : LookupKind → Nat
  | .typeName => 1 | .typeScopedName => 2 | .typeTrueName => 4
  | .manifestName => 8 | .elementName => 16 | .elementScopedName => 32

def freshen (spec : List Field) (m : IMap (List Val)) (member : String) : SMap :=
  m.foldl (fun (acc : SMap) p => acc.set (getStr spec p.2 member) p.1) []

def St.cache (s : St) : LookupKind → SMap
  | .typeName => s.typesByName | .typeScopedName => s.typesByScopedName
  | .typeTrueName => s.typesByTrueName | .manifestName => s.manifestsByName
  | .elementName => s.elementsByName | .elementScopedName => s.elementsByScopedName

def St.rebuild (c : Cfg) (s : St) : LookupKind → St
  | .typeName => { s with typesByName := freshen c.sch.type s.db.types "_name" }
  | .typeScopedName => { s with typesByScopedName := freshen c.sch.type s.db.types "_scoped_name" }
  | .typeTrueName => { s with typesByTrueName := freshen c.sch.type s.db.types "_true_name" }
  | .manifestName => { s with manifestsByName := freshen c.sch.manifest s.db.manifests "_name" }
  | .elementName => { s with elementsByName := freshen c.sch.element s.db.elements "_name" }
  | .elementScopedName => { s with elementsByScopedName := freshen c.sch.element s.db.elements "_scoped_name" }

/-- `lookup_*_by_*name(name)` -/
def St.lookup (c : Cfg) (s : St) (k : LookupKind) (name : Bytes) : St × Int :=
  let s := s.checkLatest c
  let s := if s.fresh &&& k.bit == 0 then { (s.rebuild c k) with fresh := s.fresh ||| k.bit } else s
  (s, ((s.cache k).find name).getD 0)

/-- guarded positional accessor: `if (n >= 0 && n < (int)v.size()) return v[n]; return neutral;` -/
def getAt {α : Type} (l : List α) (n : Int) (neutral : α) : α :=
  if n ≥ 0 ∧ n < (l.length : Int) then l.getD n.toNat neutral else neutral

def St.record (c : Cfg) (s : St) (k : Kind) (idx : Int) : List Val :=
  ((s.db.map k).find idx).getD (defaultRec (c.sch.of k))

/-- `binary_search_module(begin, end, index)`; fuel `modules.length + 1` suffices -/
def bsearchModule (mods : List ModDef) (fn : Int) : Nat → Nat → Nat → Nat
  | 0, b, _ => b
  | fuel+1, b, e =>
    let mid := b + (e - b) / 2
    if mid == b then mid
    else if (mods.getD mid {}).first ≤ fn then bsearchModule mods fn fuel mid e
    else bsearchModule mods fn fuel b mid

/-- `get_fptr(wrapper)`: the slot of the module's function-pointer table, if any -/
def St.getFptr (s : St) (w : Int) : Option (Nat × Int) :=
  if s.modules.isEmpty then none
  else
    let mi := bsearchModule s.modules w (s.modules.length + 1) 0 s.modules.length
    let d := s.modules.getD mi {}
    let off := w - d.first
    if w < d.next then
      if off ≥ 0 ∧ off < d.numFptrs then some (mi, off) else none
    else none

/-- `get_wrapper_by_unique_name(name)` -/
def St.wrapperByUniqueName (s : St) (name : Bytes) : Int :=
  let libHash := name.take 4
  let wrapHash := name.drop 4
  match s.byHash.find? (fun p => p.1 == libHash) with
  | none => 0
  | some (_, d) =>
    let off := bsearch d.uniq wrapHash
    if off ≥ 0 then d.first + off else 0

end IgVerif
