import IgVerif.Model.DbFile
/-! Executable (Bool) versions of the conformance predicates, so that the driver
can report whether a generated database meets the hypotheses of the round-trip
theorems, with soundness lemmas. -/
namespace IgVerif

def atomConfB : Atom → AVal → Bool
  | .int _ _, .int i => decide (FitsInt i)
  | .str _ _, .str s => decide ((s.length : Int) ≤ intMax)
  | _, _ => false

def atomsConfB : List Atom → List AVal → Bool
  | [], [] => true
  | a :: as, v :: vs => atomConfB a v && atomsConfB as vs
  | _, _ => false

def fieldConfB (minor : Nat) (e : Env) : Field → Val → Bool
  | .atom a, .a v => atomConfB a v
  | .ints _, .ints l => decide ((l.length : Int) ≤ intMax) && l.all (fun i => decide (FitsInt i))
  | .strs _, .strs l => decide ((l.length : Int) ≤ intMax) && l.all (fun s => decide ((s.length : Int) ≤ intMax))
  | .recs _ sub, .recs l => decide ((l.length : Int) ≤ intMax) && l.all (atomsConfB sub)
  | .intIf _ flag mask dflt _, .a (.int i) => decide (FitsInt i) && (flagSet e flag mask || i == dflt)
  | .intSince _ m _, .a (.int i) => decide (FitsInt i) && (decide (minor ≥ m) || i == 0)
  | _, _ => false

def fieldsConfB (minor : Nat) (e : Env) : List Field → List Val → Bool
  | [], [] => true
  | f :: fs, v :: vs => fieldConfB minor e f v && fieldsConfB minor (envAdd e f v) fs vs
  | _, _ => false

def sectionConfB (minor : Nat) (spec : List Field) (l : List Entry) : Bool :=
  decide ((l.length : Int) ≤ intMax) && l.all (fun e => decide (FitsInt e.1) && fieldsConfB minor [] spec e.2)

def cstrConfB (s : Bytes) : Bool := decide ((s.length : Int) ≤ intMax)

def fileConfB (minor : Nat) (sch : Schema) (f : DbFile) : Bool :=
  decide (FitsInt f.fileId) && cstrConfB f.lib && cstrConfB f.hash && cstrConfB f.mod &&
  sectionConfB minor sch.function f.functions && sectionConfB minor sch.wrapper f.wrappers &&
  sectionConfB minor sch.type f.types && sectionConfB minor sch.manifest f.manifests &&
  sectionConfB minor sch.element f.elements && sectionConfB minor sch.makeSeq f.makeSeqs

theorem atomConfB_sound {a : Atom} {v : AVal} (h : atomConfB a v = true) : AtomConf a v := by
  cases a <;> cases v <;> simp_all [atomConfB, AtomConf]

theorem atomsConfB_sound {as : List Atom} {vs : List AVal} (h : atomsConfB as vs = true) :
    AtomsConf as vs := by
  induction as generalizing vs with
  | nil => cases vs <;> simp_all [atomsConfB, AtomsConf]
  | cons a as ih =>
    cases vs with
    | nil => simp [atomsConfB] at h
    | cons v vs =>
      simp only [atomsConfB, Bool.and_eq_true] at h
      exact ⟨atomConfB_sound h.1, ih h.2⟩

theorem fieldConfB_sound {minor : Nat} {e : Env} {f : Field} {v : Val}
    (h : fieldConfB minor e f v = true) : FieldConf minor e f v := by
  cases f with
  | atom a =>
    cases v with
    | a av => exact atomConfB_sound h
    | _ => simp [fieldConfB] at h
  | ints n =>
    cases v with
    | ints l =>
      simp only [fieldConfB, Bool.and_eq_true, decide_eq_true_eq, List.all_eq_true] at h
      exact ⟨h.1, h.2⟩
    | _ => simp [fieldConfB] at h
  | strs n =>
    cases v with
    | strs l =>
      simp only [fieldConfB, Bool.and_eq_true, decide_eq_true_eq, List.all_eq_true] at h
      exact ⟨h.1, h.2⟩
    | _ => simp [fieldConfB] at h
  | recs n sub =>
    cases v with
    | recs l =>
      simp only [fieldConfB, Bool.and_eq_true, decide_eq_true_eq, List.all_eq_true] at h
      exact ⟨h.1, fun r hr => atomsConfB_sound (h.2 r hr)⟩
    | _ => simp [fieldConfB] at h
  | intIf n flag mask dflt sep =>
    cases v with
    | a av =>
      cases av with
      | int i =>
        simp only [fieldConfB, Bool.and_eq_true, decide_eq_true_eq, Bool.or_eq_true, beq_iff_eq] at h
        refine ⟨h.1, fun hf => ?_⟩
        cases h.2 with
        | inl h' => simp [hf] at h'
        | inr h' => exact h'
      | str _ => simp [fieldConfB] at h
    | _ => simp [fieldConfB] at h
  | intSince n m sep =>
    cases v with
    | a av =>
      cases av with
      | int i =>
        simp only [fieldConfB, Bool.and_eq_true, decide_eq_true_eq, Bool.or_eq_true, beq_iff_eq] at h
        refine ⟨h.1, fun hf => ?_⟩
        cases h.2 with
        | inl h' => omega
        | inr h' => exact h'
      | str _ => simp [fieldConfB] at h
    | _ => simp [fieldConfB] at h

theorem fieldsConfB_sound {minor : Nat} {fs : List Field} {e : Env} {vs : List Val}
    (h : fieldsConfB minor e fs vs = true) : FieldsConf minor e fs vs := by
  induction fs generalizing vs e with
  | nil => cases vs <;> simp_all [fieldsConfB, FieldsConf]
  | cons f fs ih =>
    cases vs with
    | nil => simp [fieldsConfB] at h
    | cons v vs =>
      simp only [fieldsConfB, Bool.and_eq_true] at h
      exact ⟨fieldConfB_sound h.1, ih h.2⟩

theorem sectionConfB_sound {minor : Nat} {spec : List Field} {l : List Entry}
    (h : sectionConfB minor spec l = true) : SectionConf minor spec l := by
  simp only [sectionConfB, Bool.and_eq_true, decide_eq_true_eq, List.all_eq_true] at h
  exact ⟨h.1, fun e he => ⟨(h.2 e he).1, fieldsConfB_sound (h.2 e he).2⟩⟩

theorem fileConfB_sound {minor : Nat} {sch : Schema} {f : DbFile}
    (h : fileConfB minor sch f = true) : FileConf minor sch f := by
  simp only [fileConfB, Bool.and_eq_true, decide_eq_true_eq, cstrConfB] at h
  obtain ⟨⟨⟨⟨⟨⟨⟨⟨⟨a, b⟩, c⟩, d⟩, s1⟩, s2⟩, s3⟩, s4⟩, s5⟩, s6⟩ := h
  exact ⟨a, b, c, d, sectionConfB_sound s1, sectionConfB_sound s2, sectionConfB_sound s3,
    sectionConfB_sound s4, sectionConfB_sound s5, sectionConfB_sound s6⟩

end IgVerif
