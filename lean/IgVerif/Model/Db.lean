import IgVerif.Model.DbFile
/-!
# The in-memory database (`InterrogateDatabase`)

Six index→record maps (ascending assoc lists, as `std::map`), the enumeration
vectors, `_next_index`; `add_*`, `read_new`, `remap_indices`, `merge_from`,
`merge_with`.  Records are layout-directed value lists (see `Codec.lean`);
members are addressed by their C++ names through the layout.
-/
namespace IgVerif

/-! ## member access through the layout -/

def fieldName : Field → String
  | .atom (.int n _) => n
  | .atom (.str n _) => n
  | .ints n => n
  | .strs n => n
  | .recs n _ => n
  | .intIf n _ _ _ _ => n
  | .intSince n _ _ => n

def atomName : Atom → String
  | .int n _ => n
  | .str n _ => n

def findVal : List Field → List Val → String → Option Val
  | f :: fs, v :: vs, n => if fieldName f == n then some v else findVal fs vs n
  | _, _, _ => none

def getInt (spec : List Field) (r : List Val) (n : String) : Int :=
  match findVal spec r n with
  | some (.a (.int i)) => i
  | _ => 0

def getStr (spec : List Field) (r : List Val) (n : String) : Bytes :=
  match findVal spec r n with
  | some (.a (.str s)) => s
  | _ => []

def getInts (spec : List Field) (r : List Val) (n : String) : List Int :=
  match findVal spec r n with
  | some (.ints l) => l
  | _ => []

def getStrs (spec : List Field) (r : List Val) (n : String) : List Bytes :=
  match findVal spec r n with
  | some (.strs l) => l
  | _ => []

def getRecs (spec : List Field) (r : List Val) (n : String) : List (List AVal) :=
  match findVal spec r n with
  | some (.recs l) => l
  | _ => []

def subSpec : List Field → String → List Atom
  | .recs n sub :: fs, m => if n == m then sub else subSpec fs m
  | _ :: fs, m => subSpec fs m
  | [], _ => []

def findAVal : List Atom → List AVal → String → Option AVal
  | a :: as, v :: vs, n => if atomName a == n then some v else findAVal as vs n
  | _, _, _ => none

def subInt (sub : List Atom) (r : List AVal) (n : String) : Int :=
  match findAVal sub r n with
  | some (.int i) => i
  | _ => 0

def subStr (sub : List Atom) (r : List AVal) (n : String) : Bytes :=
  match findAVal sub r n with
  | some (.str s) => s
  | _ => []

def setVal : List Field → List Val → String → Val → List Val
  | f :: fs, v :: vs, n, x => if fieldName f == n then x :: vs else v :: setVal fs vs n x
  | _, vs, _, _ => vs

/-- the record a default-constructed C++ object holds (all 0 / empty; `intIf` members their default) -/
def defaultRec : List Field → List Val
  | [] => []
  | .atom (.int _ _) :: fs => .a (.int 0) :: defaultRec fs
  | .atom (.str _ _) :: fs => .a (.str []) :: defaultRec fs
  | .ints _ :: fs => .ints [] :: defaultRec fs
  | .strs _ :: fs => .strs [] :: defaultRec fs
  | .recs _ _ :: fs => .recs [] :: defaultRec fs
  | .intIf _ _ _ d _ :: fs => .a (.int d) :: defaultRec fs
  | .intSince _ _ _ :: fs => .a (.int 0) :: defaultRec fs

/-! ## ascending association lists (`std::map<int, T>`) -/

abbrev IMap (α : Type) := List (Int × α)

def IMap.find {α : Type} (m : IMap α) (k : Int) : Option α :=
  match m with
  | [] => none
  | (k', v) :: rest => if k' == k then some v else if k' > k then none else IMap.find rest k

/-- `operator[] = v` / insert-or-assign, keeping ascending key order -/
def IMap.set {α : Type} (m : IMap α) (k : Int) (v : α) : IMap α :=
  match m with
  | [] => [(k, v)]
  | (k', v') :: rest =>
    if k' == k then (k, v) :: rest
    else if k' > k then (k, v) :: (k', v') :: rest
    else (k', v') :: IMap.set rest k v

def IMap.erase {α : Type} (m : IMap α) (k : Int) : IMap α := m.filter (fun p => p.1 != k)

/-- string-keyed map with last-writer-wins insertion (`std::map<string,int>::operator[]`);
only `find` is observable so order is irrelevant -/
abbrev SMap := List (Bytes × Int)

def SMap.find (m : SMap) (k : Bytes) : Option Int :=
  match m with
  | [] => none
  | (k', v) :: rest => if k' == k then some v else SMap.find rest k

def SMap.set (m : SMap) (k : Bytes) (v : Int) : SMap := (k, v) :: m.filter (fun p => p.1 != k)

inductive Kind where
  | function | wrapper | type | manifest | element | makeSeq
deriving DecidableEq, Repr

def Kind.ofString : String → Option Kind
  | "function" => some .function | "wrapper" => some .wrapper | "type" => some .type
  | "manifest" => some .manifest | "element" => some .element | "makeSeq" => some .makeSeq
  | _ => none

def Kind.name : Kind → String
  | .function => "function" | .wrapper => "wrapper" | .type => "type"
  | .manifest => "manifest" | .element => "element" | .makeSeq => "makeSeq"

def Schema.of (s : Schema) : Kind → List Field
  | .function => s.function | .wrapper => s.wrapper | .type => s.type
  | .manifest => s.manifest | .element => s.element | .makeSeq => s.makeSeq

structure Db where
  functions : IMap (List Val) := []
  wrappers : IMap (List Val) := []
  types : IMap (List Val) := []
  manifests : IMap (List Val) := []
  elements : IMap (List Val) := []
  makeSeqs : IMap (List Val) := []
  globalTypes : List Int := []
  allTypes : List Int := []
  globalFunctions : List Int := []
  allFunctions : List Int := []
  globalManifests : List Int := []
  globalElements : List Int := []
  nextIndex : Int := 1
deriving Repr, Inhabited

def Db.map (db : Db) : Kind → IMap (List Val)
  | .function => db.functions | .wrapper => db.wrappers | .type => db.types
  | .manifest => db.manifests | .element => db.elements | .makeSeq => db.makeSeqs

/-- Flag facts the database logic itself consults (extracted masks are passed in). -/
structure FlagCfg where
  typeGlobal : Nat
  typeFullyDefined : Nat
  functionGlobal : Nat
  elementGlobal : Nat
  functionConstructor : Nat
  functionDestructor : Nat
deriving Repr, DecidableEq

def hasFlag (spec : List Field) (r : List Val) (mask : Nat) : Bool :=
  ((getInt spec r "_flags").toNat &&& mask) != 0

def orFlag (spec : List Field) (r : List Val) (mask : Nat) : List Val :=
  setVal spec r "_flags" (.a (.int (Int.ofNat ((getInt spec r "_flags").toNat ||| mask))))

/-- `InterrogateType::merge_with` -/
def mergeWith (sch : Schema) (fc : FlagCfg) (this other : List Val) : List Val :=
  let sp := sch.type
  if hasFlag sp this fc.typeFullyDefined &&
      (!hasFlag sp other fc.typeFullyDefined || !hasFlag sp other fc.typeGlobal) then
    -- we win
    if hasFlag sp other fc.typeGlobal then orFlag sp this fc.typeGlobal else this
  else
    -- they win
    if hasFlag sp this fc.typeGlobal then orFlag sp other fc.typeGlobal else other

def Db.addType (sch : Schema) (fc : FlagCfg) (db : Db) (idx : Int) (t : List Val) : Db :=
  let types := match db.types.find idx with
    | none => db.types.set idx t
    | some old => db.types.set idx (mergeWith sch fc old t)
  { db with types := types,
            globalTypes := if hasFlag sch.type t fc.typeGlobal then db.globalTypes ++ [idx] else db.globalTypes,
            allTypes := db.allTypes ++ [idx] }

/-- `std::map::insert` does not overwrite -/
def IMap.insertNew {α : Type} (m : IMap α) (k : Int) (v : α) : IMap α :=
  match m.find k with
  | none => m.set k v
  | some _ => m

def Db.addFunction (sch : Schema) (fc : FlagCfg) (db : Db) (idx : Int) (f : List Val) : Db :=
  { db with functions := db.functions.insertNew idx f,
            globalFunctions := if hasFlag sch.function f fc.functionGlobal then db.globalFunctions ++ [idx] else db.globalFunctions,
            allFunctions := db.allFunctions ++ [idx] }

def Db.addWrapper (db : Db) (idx : Int) (w : List Val) : Db :=
  { db with wrappers := db.wrappers.insertNew idx w }

def Db.addManifest (db : Db) (idx : Int) (m : List Val) : Db :=
  { db with manifests := db.manifests.insertNew idx m, globalManifests := db.globalManifests ++ [idx] }

def Db.addElement (sch : Schema) (fc : FlagCfg) (db : Db) (idx : Int) (e : List Val) : Db :=
  { db with elements := db.elements.insertNew idx e,
            globalElements := if hasFlag sch.element e fc.elementGlobal then db.globalElements ++ [idx] else db.globalElements }

def Db.addMakeSeq (db : Db) (idx : Int) (m : List Val) : Db :=
  { db with makeSeqs := db.makeSeqs.insertNew idx m }

/-- `update_function(i)._flags |= mask` : `_function_map[i]` creates a null
entry when absent; a null function pointer is then dereferenced (crash).  The
model records that as `none`. -/
def Db.orFunctionFlag (sch : Schema) (db : Db) (idx : Int) (mask : Nat) : Option Db :=
  match db.functions.find idx with
  | none => none
  | some f => some { db with functions := db.functions.set idx (orFlag sch.function f mask) }

/-- `read_new`: add everything in file order; after each type, set the
constructor/destructor flags on the functions it names. -/
def Db.readNew (sch : Schema) (fc : FlagCfg) (f : DbFile) : Option Db := do
  let db : Db := {}
  let db := f.functions.foldl (fun d e => d.addFunction sch fc e.1 e.2) db
  let db := f.wrappers.foldl (fun d e => d.addWrapper e.1 e.2) db
  let db ← f.types.foldlM (fun (d : Db) e => do
      let d := d.addType sch fc e.1 e.2
      let t := (d.types.find e.1).getD e.2
      let dtor := getInt sch.type t "_destructor"
      let d ← if dtor != 0 then d.orFunctionFlag sch dtor fc.functionDestructor else some d
      (getInts sch.type t "_constructors").foldlM (fun d c => d.orFunctionFlag sch c fc.functionConstructor) d) db
  let db := f.manifests.foldl (fun d e => d.addManifest e.1 e.2) db
  let db := f.elements.foldl (fun d e => d.addElement sch fc e.1 e.2) db
  let db := f.makeSeqs.foldl (fun d e => d.addMakeSeq e.1 e.2) db
  return db

/-- `InterrogateDatabase::write` reads the maps back out in key order -/
def Db.toFile (db : Db) (fileId : Int) (lib hash mod : Bytes) : DbFile :=
  { fileId := fileId, lib := lib, hash := hash, mod := mod,
    functions := db.functions, wrappers := db.wrappers, types := db.types,
    manifests := db.manifests, elements := db.elements, makeSeqs := db.makeSeqs }

end IgVerif
